// C04 — analysis of arbitrary input is total, memory-safe, and reports failure faithfully.
// VERIF-NEEDS-PYCONCEPT  (pyconcept.cpp is compiled into this TU through model/pybind_stub/pybind11/pybind11.h)
//
// Bounded-exhaustive enumeration (engine E1) of input spaces, every case executed between c.begin / c.done of the
// ASan+UBSan+assert build, so that a fault (signal, sanitizer report, assert, std::terminate, alarm) is attributed
// by the engine to the single case that was running.
//
// modes   tokens   all token sequences (<= maxlen, separated by one blank; <= gluelen concatenated without blank) over
//                  the token alphabet of each syntax transcribed from MathLexerImpl.l / AsciiLexerImpl.l
//         bytes    all byte strings <= len32 over 32 interesting bytes, all byte strings <= len256 over all 256 bytes
//         edits    single-edit (thorough: also double-edit) token neighbourhood of valid seed expressions
//         ladders  nesting / width / length families at depth N in {1,10,...,maxdepth}
//         json     a valid 4-constituent schema document and every one-deviation document
//         refs     short adversarial reference strings (dedicated harness: C17)
//
// oracle  returns normally; no exception except nlohmann::json::exception from a *loading* entry point;
//         verdict == false  <=>  >= 1 critical error in the log (every entry point exposing both);
//         0 <= position <= length of the analysed text (unit: see `Bound` below).
#include "engine/mc.hpp"

#include "ccl/rslang/Parser.h"
#include "ccl/rslang/Auditor.h"
#include "ccl/rslang/Interpreter.h"
#include "ccl/rslang/RSGenerator.h"
#include "ccl/semantic/RSForm.h"
#include "ccl/semantic/SchemaAuditor.h"
#include "ccl/api/RSFormJA.h"
#include "ccl/tools/JSON.h"
#include "ccl/lang/Reference.h"
#include "ccl/lang/RefsManager.h"
#include "ccl/lang/LexicalTerm.h"
#include "ccl/lang/TextEnvironment.h"

#include VERIF_PYCONCEPT_SRC  // ::CheckSchema ::ResetAliases ::ConvertToASCII ::ConvertToMath ::ParseExpression ::CheckExpression ::CheckConstituenta

#include <cxxabi.h>
#include <typeinfo>

// UBSan's one-line SUMMARY carries no function name; without it the engine derives the crash signature from the
// "runtime error: <what>" line, which distinguishes the kinds of undefined behaviour (UBSAN_OPTIONS from the driver still apply).
extern "C" const char* __ubsan_default_options() { return "print_summary=0"; }

using namespace mc;
using JSON = nlohmann::ordered_json;
namespace rs = ccl::rslang;
using rs::Syntax;

namespace {

// ---------------------------------------------------------------------------------------------------------------
// text helpers (own code; nothing from ccl/Strings.hpp)
std::string show(const std::string& s) {  // replayable rendering: printable ASCII + well-formed UTF-8 verbatim, the rest \x{HH}
  std::string o;
  for (size_t i = 0; i < s.size(); ++i) {
    const auto c = static_cast<unsigned char>(s[i]);
    if (c == '\n') { o += "\\x{0A}"; continue; }
    if (c >= 0x20 && c < 0x7f) { o += static_cast<char>(c); continue; }
    size_t len = (c >= 0xF0 && c <= 0xF4) ? 4 : (c >= 0xE0 && c < 0xF0) ? 3 : (c >= 0xC2 && c < 0xE0) ? 2 : 0;
    bool ok = len != 0 && i + len <= s.size();
    for (size_t k = 1; ok && k < len; ++k) ok = (static_cast<unsigned char>(s[i + k]) & 0xC0) == 0x80;
    if (ok) { o.append(s, i, len); i += len - 1; }
    else { char b[12]; snprintf(b, sizeof b, "\\x{%02X}", c); o += b; }
  }
  return o;
}

struct TextLen { long bytes{ 0 }, cols{ 0 }; bool wellFormed{ true }; };
TextLen measure(const std::string& s) {  // cols = code points for well-formed UTF-8
  TextLen r; r.bytes = static_cast<long>(s.size());
  for (size_t i = 0; i < s.size();) {
    const auto c = static_cast<unsigned char>(s[i]);
    size_t len = c < 0x80 ? 1 : (c >= 0xF0 && c <= 0xF4) ? 4 : (c >= 0xE0 && c < 0xF0) ? 3 : (c >= 0xC2 && c < 0xE0) ? 2 : 0;
    bool ok = len != 0 && i + len <= s.size();
    for (size_t k = 1; ok && k < len; ++k) ok = (static_cast<unsigned char>(s[i + k]) & 0xC0) == 0x80;
    if (!ok) { r.wellFormed = false; ++i; } else i += len;
    ++r.cols;
  }
  return r;
}
// Upper bound for a reported position.  MATH lexer: position = code point offset (reflex columno counts every byte that is
// not a UTF-8 continuation byte, newlines folded in through lineBase) -> code points for well-formed input; for ill-formed
// input "code point" is undefined and only the byte length is asserted.  ASCII lexer: byte offset by design ("Assume input
// is ASCII") -> byte length is asserted (equals code points for ASCII input).
long bound_for(const TextLen& t, Syntax used) { return (used == Syntax::MATH && t.wellFormed) ? t.cols : t.bytes; }

std::string type_name(const std::exception& e) {
  int st = 0; char* d = abi::__cxa_demangle(typeid(e).name(), nullptr, nullptr, &st);
  std::string r = (st == 0 && d) ? d : typeid(e).name(); free(d);
  const auto p = r.find("json_abi_v");  // nlohmann::json_abi_v3_11_3::detail::type_error -> nlohmann::detail::type_error
  if (p != std::string::npos) { const auto q = r.find("::", p); if (q != std::string::npos) r.erase(p, q + 2 - p); }
  return r;
}
const char* syn_name(Syntax s) { return s == Syntax::MATH ? "MATH" : s == Syntax::ASCII ? "ASCII" : "UNDEF"; }
std::string hexid(uint32_t e) { char b[16]; snprintf(b, sizeof b, "%04X", e); return b; }

// Runs f; any escaping exception is a violation unless it is the documented JSON format error at a loading entry point.
// returns 0 = returned normally, 1 = allowed json exception, 2 = violation recorded
template <class F>
int guarded(Ctx& c, const std::string& entry, bool allowJson, F&& f) {
  try { f(); return 0; }
  catch (const nlohmann::json::exception& e) {
    if (allowJson) { c.rep.count("json_format_errors"); return 1; }
    c.fail("C04:" + entry + ":exception:" + type_name(e), "exception escapes " + entry, e.what(), "returns normally");
  } catch (const std::exception& e) {
    c.fail("C04:" + entry + ":exception:" + type_name(e), "exception escapes " + entry, e.what(), "returns normally");
  } catch (...) {
    c.fail("C04:" + entry + ":exception:unknown", "non-std exception escapes " + entry, "", "returns normally");
  }
  c.rep.count("exceptions_escaped");
  return 2;
}

// ---------------------------------------------------------------------------------------------------------------
// contexts
struct Gamma final : rs::TypeContext {  // own small type context (mirrors what Schema answers, written independently)
  std::unordered_map<std::string, rs::ExpressionType> types;
  std::unordered_map<std::string, rs::FunctionArguments> args;
  std::unordered_map<std::string, rs::TypeTraits> traits;
  std::unordered_map<std::string, rs::ValueClass> vclass;
  std::unordered_map<std::string, rs::SyntaxTree> asts;
  std::unordered_map<std::string, ccl::object::StructuredData> data;

  const rs::ExpressionType* TypeFor(const std::string& n) const override { auto it = types.find(n); return it == types.end() ? nullptr : &it->second; }
  const rs::FunctionArguments* FunctionArgsFor(const std::string& n) const override { auto it = args.find(n); return it == args.end() ? nullptr : &it->second; }
  std::optional<rs::TypeTraits> TraitsFor(const rs::Typification& t) const override {
    if (!t.IsElement()) return std::nullopt;
    if (t == rs::Typification::Integer()) return rs::TraitsIntegral;
    auto it = traits.find(t.E().baseID); if (it == traits.end()) return std::nullopt; return it->second;
  }
  rs::ValueClassContext VC() const { return [this](const std::string& n) { auto it = vclass.find(n); return it == vclass.end() ? rs::ValueClass::invalid : it->second; }; }
  rs::SyntaxTreeContext AST() const { return [this](const std::string& n) -> const rs::SyntaxTree* { auto it = asts.find(n); return it == asts.end() ? nullptr : &it->second; }; }
  rs::DataContext Data() const { return [this](const std::string& n) -> std::optional<ccl::object::StructuredData> { auto it = data.find(n); if (it == data.end()) return std::nullopt; return it->second; }; }
};

[[noreturn]] void harness_die(const std::string& m) { fprintf(stderr, "HARNESS-ASSERT %s\n", m.c_str()); fflush(stderr); _exit(5); }

void fill_gamma(Gamma& g) {
  using rs::Typification; using ccl::object::Factory;
  const Typification x1{ "X1" }, x2{ "X2" }, c1{ "C1" }, r1{ "R1" };
  g.types.emplace("X1", x1.Bool()); g.types.emplace("X2", x2.Bool()); g.types.emplace("C1", c1.Bool());
  g.types.emplace("S1", Typification::Tuple({ x1, x1 }).Bool());
  g.types.emplace("D1", x1.Bool()); g.types.emplace("D2", x1);
  g.types.emplace("A1", rs::LogicT{}); g.types.emplace("T1", rs::LogicT{});
  g.types.emplace("F1", r1.Bool()); g.types.emplace("P1", rs::LogicT{});
  g.args["F1"] = { rs::TypedID{ "a", r1.Bool() } }; g.args["P1"] = { rs::TypedID{ "a", r1.Bool() } };
  g.traits.emplace("X1", rs::TraitsNominal); g.traits.emplace("X2", rs::TraitsNominal); g.traits.emplace("C1", rs::TraitsIntegral);
  for (const char* n : { "X1", "X2", "C1", "S1", "D1", "D2", "A1", "T1", "F1", "P1" }) g.vclass.emplace(n, rs::ValueClass::value);
  rs::Parser p;
  if (!p.Parse("F1:==[a\xE2\x88\x88\xE2\x84\xAC(R1)] a", Syntax::MATH)) harness_die("cannot parse F1 definition");
  g.asts.emplace("F1", p.AST());
  if (!p.Parse("P1:==[a\xE2\x88\x88\xE2\x84\xAC(R1)] a=a", Syntax::MATH)) harness_die("cannot parse P1 definition");
  g.asts.emplace("P1", p.AST());
  // F2: a LONG definition whose body fails at a LEAF late in its text (D9 is typed but has no value; Z cannot be iterated): errors raised
  // inside an inlined body must still be positioned inside the (short) calling expression
  g.types.emplace("D9", x1.Bool()); g.vclass.emplace("D9", rs::ValueClass::value);
  g.types.emplace("F2", x1.Bool()); g.args["F2"] = { rs::TypedID{ "a", x1.Bool() } }; g.vclass.emplace("F2", rs::ValueClass::value);
  if (!p.Parse("F2:==[a\xE2\x88\x88\xE2\x84\xAC(X1)] D{x\xE2\x88\x88" "a | x\xE2\x88\x88" "a & x\xE2\x88\x88" "a & x\xE2\x88\x88" "a & x\xE2\x88\x88" "a}\xE2\x88\xAA" "D9", Syntax::MATH)) harness_die("cannot parse F2 definition");
  g.asts.emplace("F2", p.AST());
  g.types.emplace("F3", rs::Typification::Integer().Bool()); g.args["F3"] = { rs::TypedID{ "a", x1.Bool() } }; g.vclass.emplace("F3", rs::ValueClass::props);
  if (!p.Parse("F3:==[a\xE2\x88\x88\xE2\x84\xAC(X1)] D{x\xE2\x88\x88Z | card(a)=card(a) & card(a)=card(a) & x=x & x=x & x=x}", Syntax::MATH)) harness_die("cannot parse F3 definition");
  g.asts.emplace("F3", p.AST());
  g.data.emplace("X1", Factory::SetV({ 1, 2 })); g.data.emplace("X2", Factory::SetV({ 1, 2, 3 })); g.data.emplace("C1", Factory::SetV({ 1, 2, 3 }));
  g.data.emplace("S1", Factory::Set({ Factory::TupleV({ 1, 1 }), Factory::TupleV({ 1, 2 }) }));
  g.data.emplace("D1", Factory::SetV({ 1 })); g.data.emplace("D2", Factory::Val(1));
}

ccl::semantic::RSForm make_form() {  // the same vocabulary through the real Schema: X1 X2 C1 S1 D1 D2 A1 T1 F1 P1
  using ccl::semantic::CstType;
  ccl::semantic::RSForm f;
  f.Emplace(CstType::base); f.Emplace(CstType::base); f.Emplace(CstType::constant);
  f.Emplace(CstType::structured, "\xE2\x84\xAC(X1\xC3\x97X1)");
  f.Emplace(CstType::term, "X1\\X1"); f.Emplace(CstType::term, "debool(D1)");
  f.Emplace(CstType::axiom, "1=1"); f.Emplace(CstType::theorem, "1=1");
  f.Emplace(CstType::function, "[a\xE2\x88\x88\xE2\x84\xAC(R1)] a"); f.Emplace(CstType::predicate, "[a\xE2\x88\x88\xE2\x84\xAC(R1)] a=a");
  std::string names;
  for (const auto uid : f.List()) {
    names += f.GetRS(uid).alias + " ";
    if (f.GetParse(uid).status != ccl::semantic::ParsingStatus::VERIFIED) harness_die("schema context: " + f.GetRS(uid).alias + " is not VERIFIED");
  }
  if (names != "X1 X2 C1 S1 D1 D2 A1 T1 F1 P1 ") harness_die("schema context aliases: " + names);
  return f;
}

struct Env {  // per worker process; analysers are reused across cases (history independence is C18's subject)
  Gamma g1, g0;
  rs::Parser P;
  std::unique_ptr<rs::Auditor> a1, a0;
  std::unique_ptr<rs::Interpreter> interp;
  std::unique_ptr<ccl::api::RSFormJA> ja;
  std::unique_ptr<ccl::semantic::SchemaAuditor> sa;
  Env() {
    fill_gamma(g1);
    a1 = std::make_unique<rs::Auditor>(g1, g1.VC(), g1.AST());
    a0 = std::make_unique<rs::Auditor>(g0, g0.VC(), g0.AST());
    interp = std::make_unique<rs::Interpreter>(g1, g1.AST(), g1.Data());
    ja = std::make_unique<ccl::api::RSFormJA>(ccl::api::RSFormJA::FromData(make_form()));
    sa = ja->data().RSLang().MakeAuditor();
  }
};

// ---------------------------------------------------------------------------------------------------------------
// oracle clauses
struct Verdict { bool ran{ false }, ok{ false }; uint32_t firstCritical{ 0 }; };

void check_log(Ctx& c, const std::string& entry, bool ok, const rs::ErrorLogger& log, long bound, const std::string& ctxNote, Verdict* v = nullptr) {
  bool critical = false; uint32_t first = 0;
  for (const auto& e : log.All()) {
    if (e.IsCritical() && !critical) { critical = true; first = e.eid; }
    c.rep.count("positions_checked");
    if (e.position < 0 || e.position > bound)
      c.fail("C04:" + entry + ":position-out-of-input", entry + ctxNote + ": error " + hexid(e.eid) + " reported outside the input", std::to_string(e.position), "0.." + std::to_string(bound));
  }
  c.rep.count("verdicts_checked");
  if (!ok && !critical) c.fail("C04:" + entry + ":false-without-critical", entry + ctxNote + " reports failure but logged no critical error", "errors logged: " + std::to_string(log.All().size()), ">= 1 critical error");
  if (ok && critical) c.fail("C04:" + entry + ":true-with-critical", entry + ctxNote + " reports success but logged critical error " + hexid(first), "success", "failure");
  if (v) { v->ran = true; v->ok = ok; v->firstCritical = first; }
}

// JSON answers of api::ParseExpression / RSFormJA::CheckExpression / CheckConstituenta (and the pyconcept wrappers)
void check_answer(Ctx& c, const std::string& entry, const std::string& out, const std::string& analysed, bool hasValueStage) {
  JSON j;
  try { j = JSON::parse(out); } catch (const std::exception& e) { c.fail("C04:" + entry + ":output-not-json", entry + " returned text that is not JSON", e.what()); return; }
  try {
    const bool parseResult = j.at("parseResult").get<bool>();
    const std::string syn = j.at("syntax").get<std::string>();
    bool failed = !parseResult;
    if (hasValueStage && j.at("valueClass").get<std::string>() == "invalid") failed = true;
    const long bound = bound_for(measure(analysed), syn == "ascii" ? Syntax::ASCII : Syntax::MATH);
    bool critical = false;
    for (const auto& e : j.at("errors")) {
      if (e.at("isCritical").get<bool>()) critical = true;
      const long pos = e.at("position").get<long>();
      c.rep.count("positions_checked");
      if (pos < 0 || pos > bound) c.fail("C04:" + entry + ":position-out-of-input", entry + ": error reported outside the input", std::to_string(pos), "0.." + std::to_string(bound));
    }
    c.rep.count("verdicts_checked");
    if (failed && !critical) c.fail("C04:" + entry + ":false-without-critical", entry + " reports failure but lists no critical error", out.substr(0, 300), ">= 1 critical error");
    if (!failed && critical) c.fail("C04:" + entry + ":true-with-critical", entry + " reports success but lists a critical error", out.substr(0, 300));
  } catch (const std::exception& e) { c.fail("C04:" + entry + ":output-shape", entry + " answer lacks a documented field", e.what()); }
}

// ---------------------------------------------------------------------------------------------------------------
// one expression through every expression-level entry point
struct ExprOutcome { bool parsedAny{ false }; std::string cls; };

// stage 1: Parser::Parse under one hint
Verdict parse_stage(Ctx& c, Env& E, const std::string& s, const TextLen& tl, Syntax hint) {
  Verdict v; bool ok = false;
  if (guarded(c, "Parse", false, [&] { ok = E.P.Parse(s, hint); }) != 0) return v;
  c.rep.count("parses");
  check_log(c, "Parse", ok, E.P.Errors(), bound_for(tl, E.P.syntax), std::string("[") + syn_name(hint) + "]", &v);
  return v;
}

void audit_stage(Ctx& c, rs::Auditor& a, const char* ctxName, const std::string& s, const TextLen& tl, Syntax hint, Verdict* typeV, Verdict* valueV) {
  bool ok = false;
  const std::string note = std::string("[") + ctxName + "," + syn_name(hint) + "]";
  if (guarded(c, "CheckType", false, [&] { ok = a.CheckType(s, hint); }) != 0) return;
  check_log(c, "CheckType", ok, a.Errors(), bound_for(tl, a.parser.syntax), note, typeV);
  if (!ok) return;
  bool vok = false;
  if (guarded(c, "CheckValue", false, [&] { vok = a.CheckValue(); }) != 0) return;
  check_log(c, "CheckValue", vok, a.Errors(), bound_for(tl, a.parser.syntax), note, valueV);
}

void deep_stage(Ctx& c, Env& E, const std::string& s, const TextLen& tl, Syntax hint, std::string& cls) {
  Verdict t1, v1, t0, v0, ts, vs, ev;
  audit_stage(c, *E.a1, "G1", s, tl, hint, &t1, &v1);
  audit_stage(c, *E.a0, "G0", s, tl, hint, &t0, &v0);
  {  // schema context through SchemaAuditor
    bool ok = false;
    const std::string note = std::string("[schema,") + syn_name(hint) + "]";
    if (guarded(c, "SchemaAuditor.CheckExpression", false, [&] { ok = E.sa->CheckExpression(s, hint); }) == 0) {
      check_log(c, "SchemaAuditor.CheckExpression", ok, E.sa->Errors(), bound_for(tl, E.sa->GetSyntax()), note, &ts);
      if (ok) {
        bool vok = false;
        if (guarded(c, "SchemaAuditor.CheckValue", false, [&] { vok = E.sa->CheckValue(); }) == 0)
          check_log(c, "SchemaAuditor.CheckValue", vok, E.sa->Errors(), bound_for(tl, E.sa->GetSyntax()), note, &vs);
      }
    }
  }
  {  // evaluation with small data
    std::optional<rs::ExpressionValue> val;
    if (guarded(c, "Evaluate", false, [&] { val = E.interp->Evaluate(s, hint); }) == 0) {
      c.rep.count("evaluates");
      check_log(c, "Evaluate", val.has_value(), E.interp->Errors(), bound_for(tl, E.interp->parser.syntax), std::string("[G1,") + syn_name(hint) + "]", &ev);
    }
  }
  {  // JSON facades
    std::string out;
    if (guarded(c, "api.ParseExpression", false, [&] { out = ccl::api::ParseExpression(s, hint); }) == 0) check_answer(c, "api.ParseExpression", out, s, false);
    if (guarded(c, "RSFormJA.CheckExpression", false, [&] { out = E.ja->CheckExpression(s, hint); }) == 0) check_answer(c, "RSFormJA.CheckExpression", out, s, true);
  }
  if (cls.empty()) {
    if (!t1.ran) cls = "type:aborted";
    else if (!t1.ok) cls = "type-fail:" + hexid(t1.firstCritical);
    else {
      cls = std::holds_alternative<rs::LogicT>(E.a1->GetType()) ? "ok:LOGIC" : "ok:typed";
      cls += !v1.ran ? "/value:aborted" : v1.ok ? "" : "/value-fail:" + hexid(v1.firstCritical);
      cls += !ev.ran ? "/eval:aborted" : ev.ok ? "/eval-ok" : "/eval-fail:" + hexid(ev.firstCritical);
    }
  }
}

// own: the syntax whose alphabet produced s (UNDEF for byte strings); deepAlways: run every stage even if nothing parsed
void run_expr(Ctx& c, Env& E, const std::string& s, Syntax own, bool deepAlways) {
  const TextLen tl = measure(s);
  ccl::lang::TextEnvironment::Instance().skipResolving = false;
  const Syntax hints[3] = { own == Syntax::UNDEF ? Syntax::MATH : own, Syntax::UNDEF, own == Syntax::MATH ? Syntax::ASCII : (own == Syntax::ASCII ? Syntax::MATH : Syntax::ASCII) };
  Verdict pv[3]; bool any = false;
  for (int i = 0; i < 3; ++i) { pv[i] = parse_stage(c, E, s, tl, hints[i]); any = any || (pv[i].ran && pv[i].ok); }
  std::string cls;
  if (any || deepAlways) {
    for (int i = 0; i < 3; ++i) if (deepAlways || (pv[i].ran && pv[i].ok)) deep_stage(c, E, s, tl, hints[i], cls);
    std::string out;
    guarded(c, "ConvertTo", false, [&] { out = rs::ConvertTo(s, Syntax::ASCII); out = rs::ConvertTo(s, Syntax::MATH); });
    guarded(c, "py.ConvertToASCII", false, [&] { out = ::ConvertToASCII(s); });
    guarded(c, "py.ConvertToMath", false, [&] { out = ::ConvertToMath(s); });
    if (guarded(c, "py.ParseExpression", false, [&] { out = ::ParseExpression(s); }) == 0) check_answer(c, "py.ParseExpression", out, s, false);
    c.rep.count("deep_pipelines");
  }
  if (any) c.rep.count("nontrivial");
  if (!any) cls = pv[0].ran ? "parse-fail:" + hexid(pv[0].firstCritical) : "parse:aborted";
  c.rep.outcome(cls);
  c.rep.count("evaluations");
}

// ---------------------------------------------------------------------------------------------------------------
// Blocks.  The engine re-executes a whole shard after every attributed crash, so an enumeration with many crashing
// cases is cut into blocks (one run_sharded call each): a crash then costs a re-run of its own block only.
// All analyser objects live in one Env built in the parent; forked workers (and re-forked ones) inherit a pristine copy.
struct Block { std::string label; std::function<void(Ctx&)> body; };

struct BlockRun { Report rep; RunInfo ri; uint64_t blocks{ 0 }; };
BlockRun run_blocks(const Options& opt, const std::vector<Block>& blocks) {
  BlockRun r; const double t_end = now_s() + opt.deadline_s;
  const std::string only = opt.kv.count("solo") ? opt.str("solo-label", "") : "";
  for (const auto& b : blocks) {
    if (!only.empty() && only != b.label) continue;
    const double left = t_end - now_s();
    if (left <= 1.0) { r.ri.deadline_hit = true; break; }
    Options o2 = opt; o2.deadline_s = left;
    RunInfo ri;
    r.rep.merge(run_sharded(o2, b.label, b.body, &ri));
    r.ri.deadline_hit |= ri.deadline_hit; r.ri.crash_cap_hit |= ri.crash_cap_hit; r.ri.cases_total += ri.cases_total; ++r.blocks;
    if (ri.deadline_hit) break;
  }
  return r;
}

// ---------------------------------------------------------------------------------------------------------------
// token alphabets, transcribed from MathLexerImpl.l / AsciiLexerImpl.l (every rule has at least one spelling here)
#define U_FORALL "\xE2\x88\x80"
#define U_EXISTS "\xE2\x88\x83"
#define U_NOT "\xC2\xAC"
#define U_OR "\xE2\x88\xA8"
#define U_IMPL "\xE2\x87\x92"
#define U_EQUIV "\xE2\x87\x94"
#define U_IN "\xE2\x88\x88"
#define U_NOTIN "\xE2\x88\x89"
#define U_SUBSETEQ "\xE2\x8A\x86"
#define U_SUBSET "\xE2\x8A\x82"
#define U_NOTSUBSET "\xE2\x8A\x84"
#define U_DECART "\xC3\x97"
#define U_UNION "\xE2\x88\xAA"
#define U_INTERSECT "\xE2\x88\xA9"
#define U_SYMDIFF "\xE2\x88\x86"
#define U_BOOL "\xE2\x84\xAC"
#define U_GE "\xE2\x89\xA5"
#define U_LE "\xE2\x89\xA4"
#define U_NE "\xE2\x89\xA0"
#define U_EMPTY "\xE2\x88\x85"
#define U_ALPHA "\xCE\xB1"

const std::vector<std::string>& math_alphabet() {
  static const std::vector<std::string> a = {
    "+", "-", "*", ">", "<", U_GE, U_LE, "=", U_NE,
    U_FORALL, U_EXISTS, U_NOT, "&", U_OR, U_IMPL, U_EQUIV,
    ":" U_IN, U_IN, U_NOTIN, U_SUBSETEQ, U_SUBSET, U_NOTSUBSET,
    U_DECART, U_UNION, U_INTERSECT, "\\", U_SYMDIFF, U_BOOL,
    "pr0", "pr1", "pr1,2", "pr3,0", "Pr0", "Pr1", "Pr1,2", "Fi0", "Fi1", "Fi1,2",
    "card", "bool", "red", "debool", "D", "R", "I",
    "Z", U_EMPTY, "0", "1", "2147483647", "99999999999",
    "F1", "P1", "R1", "R0", "X1", "C1", "S1", "D1", "D2", "A1", "T1", "x", U_ALPHA "1",
    ":=", ":==", "::=", "(", ")", "{", "}", "[", "]", "|", ",", ";",
    "\n", "$", "\x80", "\xE2", "\xFF", std::string(1, '\0') };
  return a;
}
const std::vector<std::string>& ascii_alphabet() {
  static const std::vector<std::string> a = {
    "\\plus", "\\minus", "\\multiply", "\\gr", "\\ls", "\\ge", "\\le", "\\eq", "\\noteq",
    "\\A", "\\E", "\\neg", "\\and", "\\or", "\\impl", "\\equiv",
    "\\from", "\\in", "\\notin", "\\subseteq", "\\subset", "\\notsubset",
    "*", "\\union", "\\intersect", "\\setminus", "\\symmdiff", "B",
    "pr0", "pr1", "pr1,2", "pr3,0", "Pr0", "Pr1", "Pr1,2", "Fi0", "Fi1", "Fi1,2",
    "card", "bool", "red", "debool", "D", "R", "I",
    "Z", "{}", "0", "1", "2147483647", "99999999999",
    "F1", "P1", "R1", "R0", "X1", "C1", "S1", "D1", "D2", "A1", "T1", "x", "a1",
    "\\assign", "\\defexpr", "\\deftype", "(", ")", "{", "}", "[", "]", "|", ",", ";",
    "\n", "$", "\x80", "\xE2", "\xFF", std::string(1, '\0'),
    "\\", "\\less", U_IN };  // lone backslash, the spelling the ASCII generator emits for '<', a MATH symbol under ASCII rules
  return a;
}
// MATH token -> ASCII spelling (own table; used to derive the ASCII twin of a seed expression)
std::string to_ascii_token(const std::string& t) {
  static const std::map<std::string, std::string> m = {
    { "+", "\\plus" }, { "-", "\\minus" }, { "*", "\\multiply" }, { ">", "\\gr" }, { "<", "\\ls" }, { U_GE, "\\ge" }, { U_LE, "\\le" }, { "=", "\\eq" }, { U_NE, "\\noteq" },
    { U_FORALL, "\\A" }, { U_EXISTS, "\\E" }, { U_NOT, "\\neg" }, { "&", "\\and" }, { U_OR, "\\or" }, { U_IMPL, "\\impl" }, { U_EQUIV, "\\equiv" },
    { ":" U_IN, "\\from" }, { U_IN, "\\in" }, { U_NOTIN, "\\notin" }, { U_SUBSETEQ, "\\subseteq" }, { U_SUBSET, "\\subset" }, { U_NOTSUBSET, "\\notsubset" },
    { U_DECART, "*" }, { U_UNION, "\\union" }, { U_INTERSECT, "\\intersect" }, { "\\", "\\setminus" }, { U_SYMDIFF, "\\symmdiff" }, { U_BOOL, "B" },
    { U_EMPTY, "{}" }, { ":=", "\\assign" }, { ":==", "\\defexpr" }, { "::=", "\\deftype" }, { U_ALPHA "1", "a1" } };
  auto it = m.find(t); return it == m.end() ? t : it->second;
}

std::string join(const std::vector<std::string>& alpha, const std::vector<int>& idx, bool spaced) {
  std::string s;
  for (size_t i = 0; i < idx.size(); ++i) { if (spaced && i) s += ' '; s += alpha[static_cast<size_t>(idx[i])]; }
  return s;
}
bool odometer(std::vector<int>& idx, int base) {  // false when wrapped around
  int p = static_cast<int>(idx.size()) - 1;
  while (p >= 0 && ++idx[static_cast<size_t>(p)] == base) { idx[static_cast<size_t>(p)] = 0; --p; }
  return p >= 0;
}

// Reduced alphabets (one or two spellings per grammar class) for the longest sequences: the full alphabet is used up to
// fullLen tokens, the reduced one from fullLen+1 to maxLen tokens.
const std::vector<std::string>& reduced_alphabet(Syntax syn) {
  static const std::set<std::string> dropM = { "-", U_GE, U_LE, "<", U_NE, U_EXISTS, U_EQUIV, U_OR, U_NOTIN, U_SUBSETEQ, U_NOTSUBSET, U_INTERSECT, "\\", U_SYMDIFF, "pr1,2", "pr3,0", "Pr1,2", "Fi1,2",
                                               "bool", "red", "0", "C1", "T1", U_ALPHA "1", "\x80", "\xFF", std::string(1, '\0') };
  static const std::vector<std::string> m = [] { std::vector<std::string> r; for (auto& t : math_alphabet()) if (!dropM.count(t)) r.push_back(t); return r; }();
  static const std::vector<std::string> a = [] {
    std::set<std::string> drop; for (auto& t : dropM) drop.insert(to_ascii_token(t));
    drop.insert("\\less"); drop.insert("\\"); drop.erase("*");  // '*' is DECART in ASCII; the lone backslash and the generator's \less stay in the full alphabet only
    std::vector<std::string> r; for (auto& t : ascii_alphabet()) if (!drop.count(t)) r.push_back(t); return r; }();
  return syn == Syntax::MATH ? m : a;
}

// blocks: (pass, length, syntax) for lengths <= 2; additionally split by the first token for longer sequences
std::vector<Block> blocks_tokens(Env& E, int maxLen, int fullLen, int glueLen, int deepLen) {
  std::vector<Block> out;
  for (int pass = 0; pass < 2; ++pass) {  // 0: blank-separated, 1: glued
    const bool spaced = pass == 0;
    for (int len = spaced ? 0 : 2; len <= (spaced ? maxLen : glueLen); ++len) {
      for (Syntax syn : { Syntax::MATH, Syntax::ASCII }) {
        const bool reduced = spaced && len > fullLen;
        const auto* alpha = &(reduced ? reduced_alphabet(syn) : (syn == Syntax::MATH ? math_alphabet() : ascii_alphabet()));
        const int firsts = len >= 3 ? static_cast<int>(alpha->size()) : 1;
        for (int first = 0; first < firsts; ++first) {
          const std::string label = std::string("tokens/") + (spaced ? "sp" : "gl") + std::to_string(len) + syn_name(syn) + (len >= 3 ? "/" + std::to_string(first) : "");
          out.push_back({ label, [&E, alpha, spaced, reduced, len, syn, first, deepLen](Ctx& c) {
            std::vector<int> idx(static_cast<size_t>(len), 0);
            const int fixed = len >= 3 ? 1 : 0;  // the first position is fixed inside a block
            if (fixed) idx[0] = first;
            std::vector<int> tail(static_cast<size_t>(len - fixed), 0);
            do {
              if (c.take()) {
                for (size_t i = 0; i < tail.size(); ++i) idx[i + static_cast<size_t>(fixed)] = tail[i];
                const std::string s = join(*alpha, idx, spaced);
                const std::string desc = std::string("tokens syn=") + syn_name(syn) + (spaced ? " sep=blank" : " sep=none") + " | " + show(s);
                c.begin(desc);
                run_expr(c, E, s, syn, len <= deepLen);
                if (c.idx % 40009 == 1 || (reduced && first % 7 == 0 && c.idx == 777)) c.rep.sample(desc);
                c.done();
              }
            } while (odometer(tail, static_cast<int>(alpha->size())));
          } });
        }
      }
    }
  }
  return out;
}

// ---------------------------------------------------------------------------------------------------------------
const std::vector<unsigned char>& bytes32() {
  static const std::vector<unsigned char> b = { 0x00, '\t', '\n', '\r', ' ', '$', '(', ')', '*', ',', '-', '0', '1', ':', '=', 'B', 'D', 'X', 'R', 'a', '_', '\\',
                                                '{', '}', '|', '[', 0x7F, 0x80, 0x88, 0xC2, 0xE2, 0xFF };
  return b;
}
std::vector<Block> blocks_bytes(Env& E, int len32, int len256, int deep32, int deep256) {
  std::vector<Block> out;
  for (int pass = 0; pass < 2; ++pass) {
    const int base = pass == 0 ? 32 : 256, maxLen = pass == 0 ? len32 : len256, deepLen = pass == 0 ? deep32 : deep256;
    for (int len = 0; len <= maxLen; ++len) {
      const int firsts = len >= 2 ? base / 8 : 1;  // blocks of 8 first bytes
      for (int fb = 0; fb < firsts; ++fb) {
        out.push_back({ "bytes/a" + std::to_string(base) + "l" + std::to_string(len) + "/" + std::to_string(fb), [&E, pass, base, len, deepLen, fb](Ctx& c) {
          std::vector<int> idx(static_cast<size_t>(len), 0);
          do {
            if (len >= 2 && idx[0] / 8 != fb) continue;
            if (!c.take()) continue;
            std::string s; for (int k : idx) s += static_cast<char>(pass == 0 ? bytes32()[static_cast<size_t>(k)] : static_cast<unsigned char>(k));
            const std::string desc = std::string("bytes alphabet=") + std::to_string(base) + " | " + show(s);
            c.begin(desc);
            run_expr(c, E, s, Syntax::UNDEF, len <= deepLen);
            if (c.idx % 997 == 1 && fb % 5 == 0) c.rep.sample(desc);
            c.done();
          } while (odometer(idx, base));
        } });
      }
    }
  }
  return out;
}

// ---------------------------------------------------------------------------------------------------------------
// seeds: one per grammar production of RSParserImpl.y (MATH tokens separated by blanks; "\n" is a token)
const std::vector<std::string>& seeds() {
  static const std::vector<std::string> s = {
    // global_declaration
    "X1 :==", "D1 :== X1 " U_UNION " X1", "S1 ::= " U_BOOL " ( X1 " U_DECART " X1 )", "F1 :== [ a " U_IN " " U_BOOL " ( R1 ) ] a", "P1 :== [ a " U_IN " X1 ] a " U_IN " D1", "A1 :== 1 = 1",
    // function_definition, arguments, declaration
    "[ a " U_IN " X1 ] a = a", "[ a " U_IN " X1 , b " U_IN " " U_BOOL " ( X1 ) ] a " U_IN " b", "[ a " U_IN " R1 , b " U_IN " " U_BOOL " ( R1 ) ] { a } " U_UNION " b",
    // logic_predicates / binary_predicate
    "X1 " U_IN " " U_BOOL " ( X1 )", "D2 " U_NOTIN " D1", "D1 " U_SUBSET " X1", "D1 " U_SUBSETEQ " X1", "D1 " U_NOTSUBSET " X1", "D1 " U_NE " X1", "1 = 1", "1 > 0", "1 < 2", "1 " U_GE " 1", "1 " U_LE " 1",
    // logic_unary, quantifier, variable_pack, tuple declaration, predicate call
    U_NOT " 1 = 1", U_FORALL " a " U_IN " X1 a " U_IN " D1", U_EXISTS " a " U_IN " X1 a = D2", U_FORALL " a , b " U_IN " X1 a = b", U_FORALL " ( a , b ) " U_IN " S1 a = b",
    "P1 [ D1 ]", U_NOT " ( 1 = 1 & 2 = 2 )", U_FORALL " " U_ALPHA "1 " U_IN " X1 " U_ALPHA "1 = " U_ALPHA "1",
    // logic_binary, logic_par
    "1 = 1 & 2 = 2", "1 = 1 " U_OR " 2 = 2", "1 = 1 " U_IMPL " 2 = 2", "1 = 1 " U_EQUIV " 2 = 2", "( 1 = 1 ) & ( 2 = 2 " U_OR " 1 = 2 )",
    // setexpr: literal, identifier
    "1", U_EMPTY, "Z", "X1", "D2", "R1", "a",
    // setexpr_binary
    "1 + 2", "2 - 1", "2 * 2", "X1 " U_UNION " D1", "X1 \\ D1", "X1 " U_SYMDIFF " D1", "X1 " U_INTERSECT " D1", "X1 " U_DECART " X2", "X1 " U_DECART " X1 " U_DECART " X1", "( X1 " U_UNION " D1 ) \\ D1", "C1 " U_UNION " { 1 }",
    // function call, text_function
    "F1 [ D1 ]", "F1 [ D1 , D1 ]", "F2 [ D1 ]", "card ( F2 [ D1 ] )", "F3 [ D1 ]", "bool ( D2 )", "debool ( { D2 } )", "red ( { D1 } )", "Pr1 ( S1 )", "Pr1,2 ( S1 )", "pr2 ( ( D2 , D2 ) )", "card ( X1 )",
    // setexpr_generators
    "{ D2 }", "{ D2 , D2 }", "( D2 , D2 )", U_BOOL " ( X1 )", U_BOOL " " U_BOOL " ( X1 )",
    "Fi1 [ D1 ] ( S1 )", "Fi1,2 [ D1 , D1 ] ( S1 )", "Fi1,2 [ S1 ] ( S1 )",
    "{ a " U_IN " X1 | a " U_IN " D1 }", "D { a " U_IN " X1 | a = D2 }", "D { ( a , b ) " U_IN " S1 | a = b }",
    "R { a := D1 | a " U_UNION " D1 }", "R { a := D1 | card ( a ) < 2 | a " U_UNION " X1 }", "R { ( a , b ) := ( D1 , D1 ) | ( a " U_UNION " b , b ) }",
    "I { a | a :" U_IN " X1 }", "I { ( a , b ) | a :" U_IN " X1 ; b := a }", "I { a | a :" U_IN " X1 ; a " U_IN " D1 }",
    // recursion whose step is well-typed for the initial (empty-set) type only: the error arises on the re-check with the deduced type
    "R { a := " U_EMPTY " | red ( a ) " U_UNION " X1 }", "R { a := " U_EMPTY " | debool ( a ) " U_UNION " X1 }", "R { a := " U_EMPTY " | 1 = 1 | red ( a ) " U_UNION " X1 }", "R { a := " U_EMPTY " | card ( a ) " U_UNION " X1 }",
    // layout
    "X1 \n " U_UNION " X1" };
  return s;
}
std::vector<std::string> split_blank(const std::string& s) {
  std::vector<std::string> r; std::string cur;
  for (char ch : s) { if (ch == ' ') { if (!cur.empty()) r.push_back(cur); cur.clear(); } else cur += ch; }
  if (!cur.empty()) r.push_back(cur);
  return r;
}
std::string join_tokens(const std::vector<std::string>& t) { std::string s; for (size_t i = 0; i < t.size(); ++i) { if (i) s += ' '; s += t[i]; } return s; }

// reduced alphabet for the double-edit neighbourhood: one spelling per grammar class
const std::vector<std::string>& core_alphabet(Syntax syn) {
  static const std::vector<std::string> m = { "+", "=", U_IN, U_FORALL, U_NOT, "&", U_UNION, U_DECART, U_BOOL, "pr1", "pr0", "Pr1", "Fi1", "card", "debool", "D", "R", "I", "1", U_EMPTY, "F1", "P1", "R1",
                                               "X1", "D2", "A1", "a", ":=", ":" U_IN, ":==", "(", ")", "{", "}", "[", "]", "|", ",", ";", "$" };
  static const std::vector<std::string> a = [] { std::vector<std::string> r; for (auto& t : m) r.push_back(to_ascii_token(t)); return r; }();
  return syn == Syntax::MATH ? m : a;
}

std::vector<std::string> seed_tokens(size_t si, Syntax syn) {
  auto toks = split_blank(seeds()[si]);
  if (syn == Syntax::ASCII) for (auto& t : toks) t = to_ascii_token(t);
  return toks;
}

std::vector<Block> blocks_edits(Env& E, int doubleSeeds) {
  std::vector<Block> out;
  // block 0: the seeds themselves (must be accepted by the parser: harness self-check)
  out.push_back({ "edits/seeds", [&E](Ctx& c) {
    for (Syntax syn : { Syntax::MATH, Syntax::ASCII }) for (size_t si = 0; si < seeds().size(); ++si) {
      if (!c.take()) continue;
      const std::string s = join_tokens(seed_tokens(si, syn));
      const std::string desc = std::string("edits syn=") + syn_name(syn) + " seed=" + std::to_string(si) + " edit=none | " + show(s);
      c.begin(desc);
      bool ok = false; try { ok = E.P.Parse(s, syn); } catch (...) {}
      if (!ok) c.fail("C04:HARNESS:seed-rejected", "seed expression is not accepted by the parser (harness seed table is wrong)", s);
      run_expr(c, E, s, syn, true);
      if (si % 13 == 0) c.rep.sample(desc);
      c.done();
    }
  } });
  // single edits: one block per (syntax, seed)
  for (Syntax syn : { Syntax::MATH, Syntax::ASCII }) for (size_t si = 0; si < seeds().size(); ++si) {
    out.push_back({ std::string("edits/single/") + syn_name(syn) + "/" + std::to_string(si), [&E, syn, si](Ctx& c) {
      const auto& alpha = syn == Syntax::MATH ? math_alphabet() : ascii_alphabet();
      const auto base = seed_tokens(si, syn);
      const int n = static_cast<int>(base.size());
      auto run = [&](const std::vector<std::string>& toks, const std::string& what) {
        const std::string s = join_tokens(toks);
        const std::string desc = std::string("edits syn=") + syn_name(syn) + " seed=" + std::to_string(si) + " edit=" + what + " | " + show(s);
        c.begin(desc);
        run_expr(c, E, s, syn, false);
        if (c.idx == 333 && si % 9 == 0) c.rep.sample(desc);
        c.done();
      };
      for (int p = 0; p < n; ++p) if (c.take()) { auto t = base; t.erase(t.begin() + p); run(t, "del@" + std::to_string(p)); }
      for (int p = 0; p < n; ++p) for (size_t a = 0; a < alpha.size(); ++a) if (c.take()) { auto t = base; t[static_cast<size_t>(p)] = alpha[a]; run(t, "rep@" + std::to_string(p)); }
      for (int p = 0; p <= n; ++p) for (size_t a = 0; a < alpha.size(); ++a) if (c.take()) { auto t = base; t.insert(t.begin() + p, alpha[a]); run(t, "ins@" + std::to_string(p)); }
    } });
  }
  // double edits: two edits at positions p < q of the seed, each edit in {delete, replace by core token, insert core token before};
  // every 4th seed (spread over the productions); one block per (syntax, seed, p)
  for (Syntax syn : { Syntax::MATH, Syntax::ASCII }) {
    int used = 0;
    for (size_t si = 0; si < seeds().size() && used < doubleSeeds; si += 4, ++used) {
      const int n = static_cast<int>(seed_tokens(si, syn).size());
      for (int p = 0; p + 1 < n; ++p) {
        out.push_back({ std::string("edits/double/") + syn_name(syn) + "/" + std::to_string(si) + "/" + std::to_string(p), [&E, syn, si, p, n](Ctx& c) {
          const auto& alpha = core_alphabet(syn);
          const int A = static_cast<int>(alpha.size()), K = 1 + 2 * A;  // edit kinds per position
          const auto base = seed_tokens(si, syn);
          auto apply = [&](std::vector<std::string>& t, int pos, int kind) {
            if (kind == 0) t.erase(t.begin() + pos);
            else if (kind <= A) t[static_cast<size_t>(pos)] = alpha[static_cast<size_t>(kind - 1)];
            else t.insert(t.begin() + pos, alpha[static_cast<size_t>(kind - 1 - A)]);
          };
          for (int q = p + 1; q < n; ++q) for (int k1 = 0; k1 < K; ++k1) for (int k2 = 0; k2 < K; ++k2) {
            if (!c.take()) continue;
            auto t = base; apply(t, q, k2); apply(t, p, k1);  // later position first: indices stay valid
            const std::string s = join_tokens(t);
            const std::string desc = std::string("edits syn=") + syn_name(syn) + " seed=" + std::to_string(si) + " edit=double@" + std::to_string(p) + "," + std::to_string(q) + " | " + show(s);
            c.begin(desc);
            run_expr(c, E, s, syn, false);
            if (c.idx == 4444 && p == 0) c.rep.sample(desc);
            c.done();
          }
        } });
      }
    }
  }
  return out;
}

// ---------------------------------------------------------------------------------------------------------------
// ladders
struct Family { std::string name; Syntax syn; std::function<std::string(long)> make; int kind; long maxDepth; };  // kind 0 expression, 1 reference text, 2 json document
std::string rep(const std::string& unit, long n) { std::string s; s.reserve(unit.size() * static_cast<size_t>(n)); for (long i = 0; i < n; ++i) s += unit; return s; }

const std::vector<Family>& families() {
  // depth caps by cost class (measured): T = nested *types* (Typification is deep-copied at every level: quadratic, ~2 s at 1e3),
  // W = wide lists / long scopes (quadratic list building and linear scope scans), R = recursive nesting (linear until the
  // stack is exhausted), F = flat (lexer level or parser stack only)
  static const long T = 1000, W = 10000, R = 100000, F = 1000000;
  static const std::vector<Family> f = {
    // nesting (MATH)
    { "paren", Syntax::MATH, [](long n) { return rep("(", n) + "X1" U_UNION "X1" + rep(")", n); }, 0, R },
    { "paren-open", Syntax::MATH, [](long n) { return rep("(", n); }, 0, F },
    { "paren-logic-open", Syntax::MATH, [](long n) { return rep("(", n) + "1=1"; }, 0, F },
    { "neg", Syntax::MATH, [](long n) { return rep(U_NOT, n) + "1=1"; }, 0, R },
    { "neg-open", Syntax::MATH, [](long n) { return rep(U_NOT, n); }, 0, F },
    { "boolean", Syntax::MATH, [](long n) { return rep(U_BOOL, n) + "(X1)"; }, 0, T },
    { "boolean-paren", Syntax::MATH, [](long n) { return rep(U_BOOL "(", n) + "X1" + rep(")", n); }, 0, T },
    { "braces", Syntax::MATH, [](long n) { return rep("{", n) + "D2" + rep("}", n); }, 0, T },
    { "braces-open", Syntax::MATH, [](long n) { return rep("{", n); }, 0, F },
    { "tuple", Syntax::MATH, [](long n) { return rep("(D2,", n) + "D2" + rep(")", n); }, 0, T },
    { "quantifier", Syntax::MATH, [](long n) { return rep(U_FORALL "a" U_IN "X1 ", n) + "1=1"; }, 0, R },
    { "quantifier-fresh", Syntax::MATH, [](long n) { std::string s; for (long i = 0; i < n; ++i) s += U_FORALL "a" + std::to_string(i) + U_IN "X1 "; return s + "1=1"; }, 0, W },
    { "chain-left-union", Syntax::MATH, [](long n) { return "X1" + rep(U_UNION "X1", n); }, 0, R },
    { "chain-right-minus", Syntax::MATH, [](long n) { return rep("X1\\(", n) + "X1" U_UNION "X1" + rep(")", n); }, 0, R },
    { "chain-and", Syntax::MATH, [](long n) { return "1=1" + rep(" & 1=1", n); }, 0, R },
    { "chain-plus", Syntax::MATH, [](long n) { return "1" + rep("+1", n); }, 0, R },
    { "chain-decart", Syntax::MATH, [](long n) { return "X1" + rep(U_DECART "X1", n); }, 0, R },
    { "bracket-open", Syntax::MATH, [](long n) { return rep("[", n); }, 0, F },
    { "call", Syntax::MATH, [](long n) { return rep("F1[", n) + "D1" + rep("]", n); }, 0, R },
    { "card", Syntax::MATH, [](long n) { return rep("card(", n) + "X1" + rep(")", n); }, 0, R },
    { "bool", Syntax::MATH, [](long n) { return rep("bool(", n) + "D2" + rep(")", n); }, 0, T },
    { "debool-bool", Syntax::MATH, [](long n) { return rep("debool(bool(", n) + "D2" + rep("))", n); }, 0, R },
    { "pr", Syntax::MATH, [](long n) { return rep("pr1(", n) + "(D2,D2)" + rep(")", n); }, 0, R },
    { "Pr", Syntax::MATH, [](long n) { return rep("Pr1(", n) + "S1" + rep(")", n); }, 0, R },
    { "filter", Syntax::MATH, [](long n) { return rep("Fi1[D1](", n) + "S1" + rep(")", n); }, 0, R },
    { "declarative", Syntax::MATH, [](long n) { return rep("D{a" U_IN "X1|", n) + "1=1" + rep("}" U_NE U_EMPTY, n - 1) + "}"; }, 0, R },
    { "imperative", Syntax::MATH, [](long n) { return rep("I{a|a:" U_IN, n) + "X1" + rep("}", n); }, 0, R },
    { "recursion", Syntax::MATH, [](long n) { return rep("R{a:=", n) + "X1" + rep("|a}", n); }, 0, R },
    { "funcdef-args", Syntax::MATH, [](long n) { return "[a" U_IN "X1" + rep(",a" U_IN "X1", n) + "] 1=1"; }, 0, W },
    // width / length (quadratic list building in the parser: bounded at 1e5)
    { "wide-enum", Syntax::MATH, [](long n) { return "{1" + rep(",1", n) + "}"; }, 0, W },
    { "wide-tuple", Syntax::MATH, [](long n) { return "(1" + rep(",1", n) + ")"; }, 0, W },
    { "wide-args", Syntax::MATH, [](long n) { return "F1[D1" + rep(",D1", n) + "]"; }, 0, W },
    { "wide-imperative", Syntax::MATH, [](long n) { return "I{a|a:" U_IN "X1" + rep(";a" U_IN "X1", n) + "}"; }, 0, W },
    { "wide-varpack", Syntax::MATH, [](long n) { return U_FORALL "a" + rep(",a", n) + U_IN "X1 1=1"; }, 0, W },
    { "newlines", Syntax::MATH, [](long n) { return rep("\n", n) + "X1=" + rep("\n", n) + "$"; }, 0, F },
    { "blanks", Syntax::MATH, [](long n) { return rep(" \t", n) + U_UNION; }, 0, F },
    { "long-identifier", Syntax::MATH, [](long n) { return "X" + rep("1", n); }, 0, F },
    { "long-local", Syntax::MATH, [](long n) { return U_FORALL + rep(U_ALPHA, n) + U_IN "X1 1=1"; }, 0, F },
    { "long-integer", Syntax::MATH, [](long n) { return rep("9", n) + "=1"; }, 0, F },
    { "long-index", Syntax::MATH, [](long n) { return "pr1" + rep(",1", n) + "((D2,D2))"; }, 0, W },
    { "long-index-value", Syntax::MATH, [](long n) { return "Pr" + rep("9", n) + "(S1)"; }, 0, F },
    { "invalid-bytes", Syntax::MATH, [](long n) { return rep("\xE2\x88", n) + "X1"; }, 0, F },
    // nesting (ASCII)
    { "ascii-paren", Syntax::ASCII, [](long n) { return rep("(", n) + "X1 \\union X1" + rep(")", n); }, 0, R },
    { "ascii-neg", Syntax::ASCII, [](long n) { return rep("\\neg ", n) + "1 \\eq 1"; }, 0, R },
    { "ascii-boolean", Syntax::ASCII, [](long n) { return rep("B", n) + "(X1)"; }, 0, T },
    { "ascii-braces", Syntax::ASCII, [](long n) { return rep("{", n) + "D2" + rep("}", n); }, 0, T },
    { "ascii-chain-union", Syntax::ASCII, [](long n) { return "X1" + rep(" \\union X1", n); }, 0, R },
    { "ascii-backslashes", Syntax::ASCII, [](long n) { return rep("\\", n); }, 0, F },
    // reference text
    { "ref-braces", Syntax::UNDEF, [](long n) { return "@" + rep("{", n) + "X1|nomn" + rep("}", n); }, 1, F },
    { "ref-braces-open", Syntax::UNDEF, [](long n) { return "@" + rep("{", n); }, 1, F },
    { "ref-many", Syntax::UNDEF, [](long n) { return rep("@{X1|nomn} ", n); }, 1, W },
    { "ref-many-collab", Syntax::UNDEF, [](long n) { return "@{X1|nomn}" + rep(" @{-1|x}", n); }, 1, W },
    { "ref-bars", Syntax::UNDEF, [](long n) { return "@{X1" + rep("|nomn", n) + "}"; }, 1, F },
    { "ref-at", Syntax::UNDEF, [](long n) { return rep("@", n) + "{X1|nomn}"; }, 1, F },
    // JSON documents
    { "json-array", Syntax::UNDEF, [](long n) { return rep("[", n) + rep("]", n); }, 2, F },
    { "json-array-open", Syntax::UNDEF, [](long n) { return rep("[", n); }, 2, F },
    { "json-object", Syntax::UNDEF, [](long n) { return rep("{\"items\":", n) + "[]" + rep("}", n); }, 2, F },
    { "json-items", Syntax::UNDEF, [](long n) { return "{\"items\":[" + rep("[],", n) + "[]]}"; }, 2, F },
    { "json-formal-nesting", Syntax::UNDEF, [](long n) {
        return "{\"items\":[{\"entityUID\":1,\"cstType\":\"term\",\"alias\":\"D1\",\"definition\":{\"formal\":\"" + rep("(", n) + "\"}}]}"; }, 2, F },
  };
  return f;
}
const char* const kExprEntries[] = { "Parse", "Parse-UNDEF", "Audit", "Evaluate", "ConvertTo", "api.ParseExpression", "RSFormJA.CheckExpression" };
const char* const kRefEntries[] = { "Reference.Parse", "Reference.ExtractAll", "RefsManager.Resolve" };
const char* const kJsonEntries[] = { "RSFormJA.FromJSON", "py.CheckSchema" };

struct TermContext final : ccl::lang::EntityTermContext {
  std::unordered_map<std::string, ccl::lang::LexicalTerm> terms;
  bool Contains(const std::string& e) const override { return terms.count(e) != 0; }
  const ccl::lang::LexicalTerm* At(const std::string& e) const override { auto it = terms.find(e); return it == terms.end() ? nullptr : &it->second; }
};

void run_ref(Ctx& c, const TermContext& tc, const std::string& s, int entry) {  // entry <0: all
  const long cp = measure(s).cols;
  if (entry < 0 || entry == 0) guarded(c, "Reference.Parse", false, [&] { auto r = ccl::lang::Reference::Parse(s); if (r.IsValid()) { c.rep.count("refs_valid"); (void)r.ToString(); } });
  if (entry < 0 || entry == 1) guarded(c, "Reference.ExtractAll", false, [&] {
    const auto all = ccl::lang::Reference::ExtractAll(s);
    for (const auto& r : all) {
      c.rep.count("positions_checked");
      if (r.position.start < 0 || r.position.finish > cp || r.position.start > r.position.finish)
        c.fail("C04:Reference.ExtractAll:position-out-of-input", "reference range outside the text", "[" + std::to_string(r.position.start) + "," + std::to_string(r.position.finish) + ")", "within 0.." + std::to_string(cp));
    }
    c.rep.count("refs_extracted", all.size());
  });
  if (entry < 0 || entry == 2) guarded(c, "RefsManager.Resolve", false, [&] { ccl::lang::RefsManager m{ tc }; const auto out = m.Resolve(s); c.rep.count("resolved_bytes", out.size()); });
}

TermContext& ladder_terms() { static TermContext tc = [] { TermContext t; t.terms.emplace("X1", ccl::lang::LexicalTerm{ "term", "term" }); return t; }(); return tc; }

void ladder_case(Ctx& c, Env& E, const Family& fam, long depth, int e) {
  const TermContext& tc = ladder_terms();
  const char* en = fam.kind == 0 ? kExprEntries[e] : fam.kind == 1 ? kRefEntries[e] : kJsonEntries[e];
  const std::string desc = "ladder family=" + fam.name + " depth=" + std::to_string(depth) + " entry=" + en;
  const std::string s = fam.make(depth);
  c.begin(desc);
  const double t0 = now_s();
  const TextLen tl = measure(s);
  std::string cls = "done";
  if (fam.kind == 0) {
    const Syntax other = fam.syn == Syntax::MATH ? Syntax::ASCII : Syntax::MATH;
    switch (e) {
      case 0: { auto v = parse_stage(c, E, s, tl, fam.syn); cls = v.ok ? "parse-ok" : "parse-fail:" + hexid(v.firstCritical); break; }
      case 1: { auto v = parse_stage(c, E, s, tl, Syntax::UNDEF); cls = v.ok ? "parse-ok" : "parse-fail:" + hexid(v.firstCritical); break; }
      case 2: { Verdict t, v; audit_stage(c, *E.a1, "G1", s, tl, fam.syn, &t, &v); cls = !t.ok ? "type-fail:" + hexid(t.firstCritical) : v.ok ? "audit-ok" : "value-fail:" + hexid(v.firstCritical); break; }
      case 3: { std::optional<rs::ExpressionValue> val; Verdict v;
                if (guarded(c, "Evaluate", false, [&] { val = E.interp->Evaluate(s, fam.syn); }) == 0)
                  check_log(c, "Evaluate", val.has_value(), E.interp->Errors(), bound_for(tl, E.interp->parser.syntax), "[G1]", &v);
                cls = v.ok ? "eval-ok" : "eval-fail:" + hexid(v.firstCritical); break; }
      case 4: { std::string out; guarded(c, "ConvertTo", false, [&] { out = rs::ConvertTo(s, other); }); cls = out == s ? "convert-identity" : "converted"; break; }
      case 5: { std::string out; if (guarded(c, "api.ParseExpression", false, [&] { out = ccl::api::ParseExpression(s, fam.syn); }) == 0) check_answer(c, "api.ParseExpression", out, s, false); break; }
      case 6: { std::string out; if (guarded(c, "RSFormJA.CheckExpression", false, [&] { out = E.ja->CheckExpression(s, fam.syn); }) == 0) check_answer(c, "RSFormJA.CheckExpression", out, s, true); break; }
    }
  } else if (fam.kind == 1) run_ref(c, tc, s, e);
  else {
    if (e == 0) { const int r = guarded(c, "RSFormJA.FromJSON", true, [&] { auto x = ccl::api::RSFormJA::FromJSON(s); (void)x; }); cls = r == 1 ? "json-format-error" : "loaded"; }
    else { const int r = guarded(c, "py.CheckSchema", true, [&] { auto x = ::CheckSchema(s); (void)x; }); cls = r == 1 ? "json-format-error" : "loaded"; }
  }
  const double dt = now_s() - t0;
  if (dt > 10.0) c.rep.notes.push_back("slow: " + desc + " took " + std::to_string(static_cast<int>(dt)) + " s");
  c.rep.outcome(cls);
  c.rep.count("evaluations"); if (depth >= 100) c.rep.count("nontrivial");
  if (e == 0 && depth == 10 && (fam.name.size() % 5 == 0)) c.rep.sample(desc + " | " + show(s.substr(0, 80)));
  c.done();
}

// blocks: all families together for depth <= 1000 (cheap, no fault expected); one block per family for larger depths
// (a faulting case then only repeats the <= 7 cases of its own family and depth)
std::vector<Block> blocks_ladders(Env& E, long maxDepth, long facadeMaxDepth) {
  std::vector<Block> out;
  auto entries_of = [](const Family& fam) { return fam.kind == 0 ? 7 : fam.kind == 1 ? 3 : 2; };
  for (long depth = 1; depth <= maxDepth; depth *= 10) {
    if (depth <= 1000) {
      out.push_back({ "ladders/d" + std::to_string(depth), [&E, depth, facadeMaxDepth, entries_of](Ctx& c) {
        for (const auto& fam : families()) { if (depth > fam.maxDepth) continue;
          for (int e = 0; e < entries_of(fam); ++e) { if (fam.kind == 0 && e >= 5 && depth > facadeMaxDepth) continue; if (c.take()) ladder_case(c, E, fam, depth, e); } }
      } });
    } else {
      // two families per block: <= 14 cases on 16 workers, i.e. at most one case per shard (a fault repeats nothing)
      std::vector<size_t> live;
      for (size_t fi = 0; fi < families().size(); ++fi) if (depth <= families()[fi].maxDepth) live.push_back(fi);
      for (size_t k = 0; k < live.size(); k += 2) {
        const size_t f1 = live[k], f2 = k + 1 < live.size() ? live[k + 1] : live[k];
        out.push_back({ "ladders/d" + std::to_string(depth) + "/" + families()[f1].name + (f2 != f1 ? "+" + families()[f2].name : ""), [&E, depth, facadeMaxDepth, entries_of, f1, f2](Ctx& c) {
          for (size_t fi : { f1, f2 }) {
            const auto& fam = families()[fi];
            for (int e = 0; e < entries_of(fam); ++e) { if (fam.kind == 0 && e >= 5 && depth > facadeMaxDepth) continue; if (c.take()) ladder_case(c, E, fam, depth, e); }
            if (f2 == f1) break;
          }
        } });
      }
    }
  }
  return out;
}

// ---------------------------------------------------------------------------------------------------------------
// refs: short adversarial reference strings
const std::vector<std::string>& ref_alphabet() {
  static const std::vector<std::string> alpha = { "@{", "@", "{", "}", "|", "X1", "nomn", "sing,nomn", ",", "1", "-1", "99999999999", "-", " ", "\xD1\x8F", "\xE2", "@{X1|nomn}", "@{-1|big}", "@{X1|", "|nomn}" };
  return alpha;
}
TermContext& ref_terms() {
  static TermContext tc = [] { TermContext t; t.terms.emplace("X1", ccl::lang::LexicalTerm{ "term @{X2|nomn}", "term two" }); t.terms.emplace("X2", ccl::lang::LexicalTerm{ "two", "two" }); return t; }();
  return tc;
}
std::vector<Block> blocks_refs(int maxLen) {
  std::vector<Block> out;
  for (int len = 0; len <= maxLen; ++len) {
    const int firsts = len >= 3 ? static_cast<int>(ref_alphabet().size()) : 1;
    for (int first = 0; first < firsts; ++first) {
      out.push_back({ "refs/l" + std::to_string(len) + "/" + std::to_string(first), [len, first](Ctx& c) {
        const auto& alpha = ref_alphabet(); const TermContext& tc = ref_terms();
        std::vector<int> idx(static_cast<size_t>(len), 0);
        do {
          if (len >= 3 && idx[0] != first) continue;
          if (!c.take()) continue;
          const std::string s = join(alpha, idx, false);
          const std::string desc = "refs | " + show(s);
          c.begin(desc);
          ccl::lang::TextEnvironment::Instance().skipResolving = false;
          run_ref(c, tc, s, -1);
          // the same text as the body of one reference: Reference::Parse is documented to take "@{...}"
          if (s.rfind("@{", 0) != 0) { const std::string w = "@{" + s + "}"; guarded(c, "Reference.Parse", false, [&] { auto r = ccl::lang::Reference::Parse(w); (void)r; }); }
          c.rep.count("evaluations");
          size_t n = 0;
          try { n = ccl::lang::Reference::ExtractAll(s).size(); } catch (...) {}  // already reported by run_ref
          if (n > 0) c.rep.count("nontrivial");
          c.rep.outcome("refs:" + std::to_string(std::min<size_t>(n, 3)));
          if (c.idx == 77 && first % 4 == 0) c.rep.sample(desc);
          c.done();
        } while (odometer(idx, static_cast<int>(alpha.size())));
      } });
    }
  }
  return out;
}

// ---------------------------------------------------------------------------------------------------------------
// json: a valid document and every one-deviation document
JSON base_document() {
  auto cst = [](int uid, const char* type, const char* alias, const char* formal, const char* termRaw, const char* termResolved, const char* defRaw) {
    JSON o = { { "entityUID", uid }, { "type", "constituenta" }, { "cstType", type }, { "alias", alias }, { "convention", "" },
               { "term", { { "raw", termRaw }, { "resolved", termResolved }, { "forms", JSON::array() } } },
               { "definition", { { "formal", formal }, { "text", { { "raw", defRaw }, { "resolved", defRaw } } } } } };
    return o;
  };
  JSON d = { { "type", "rsform" }, { "title", "doc" }, { "alias", "T" }, { "comment", "c" } };
  d["items"] = JSON::array();
  d["items"] += cst(1, "basic", "X1", "", "man", "man", "");
  d["items"] += cst(2, "structure", "S1", U_BOOL "(X1" U_DECART "X1)", "kin", "kin", "relation on @{X1|plur,gent}");
  d["items"] += cst(3, "term", "D1", "Pr1(S1)", "parent of @{X1|sing,gent}", "parent of man", "");
  d["items"] += cst(4, "axiom", "A1", "D1" U_NE U_EMPTY, "", "", "");
  d["items"][0]["term"]["forms"] += JSON{ { "text", "men" }, { "tags", "plur,nomn" } };
  d["tracking"] = JSON::array();
  d["tracking"] += JSON{ { "entityUID", 3 }, { "flags", { { "mutable", true }, { "editTerm", false }, { "editDefinition", true }, { "editConvention", false } } } };
  return d;
}

struct Deviation { std::string what; std::string text; };

void collect_paths(const JSON& j, std::vector<JSON::json_pointer>& out, const JSON::json_pointer& here) {
  out.push_back(here);
  if (j.is_object()) for (auto it = j.begin(); it != j.end(); ++it) collect_paths(it.value(), out, here / it.key());
  else if (j.is_array()) for (size_t i = 0; i < j.size(); ++i) collect_paths(j[i], out, here / i);
}

std::vector<Deviation> deviations() {
  std::vector<Deviation> out;
  const JSON base = base_document();
  out.push_back({ "none", base.dump() });
  std::vector<JSON::json_pointer> paths; collect_paths(base, paths, JSON::json_pointer{});
  const std::vector<JSON> repl = { JSON(nullptr), JSON(true), JSON(0), JSON(-1), JSON(1.5), JSON(99999999999LL), JSON(""), JSON("x"), JSON::array(), JSON::object(), JSON::array({ 1 }), JSON{ { "raw", 1 } } };
  for (const auto& p : paths) {
    if (!p.empty()) {  // delete the key / array element
      JSON d = base; const auto parent = p.parent_pointer();
      if (d[parent].is_object()) d[parent].erase(p.back()); else d[parent].erase(static_cast<size_t>(std::stoul(p.back())));
      out.push_back({ "delete " + p.to_string(), d.dump() });
    }
    for (const auto& r : repl) {
      if (base[p] == r) continue;
      JSON d = base; d[p] = r;
      out.push_back({ "replace " + p.to_string() + " by " + r.dump(), d.dump() });
    }
  }
  auto with = [&](const std::string& what, const std::function<void(JSON&)>& f) { JSON d = base; f(d); out.push_back({ what, d.dump() }); };
  // identity collisions
  for (int i = 0; i < 4; ++i) for (int k = 0; k < 4; ++k) if (i != k) {
    with("uid of item " + std::to_string(i) + " := uid of item " + std::to_string(k), [&](JSON& d) { d["items"][i]["entityUID"] = d["items"][k]["entityUID"]; });
    with("alias of item " + std::to_string(i) + " := alias of item " + std::to_string(k), [&](JSON& d) { d["items"][i]["alias"] = d["items"][k]["alias"]; });
    with("duplicate item " + std::to_string(i) + " after " + std::to_string(k), [&](JSON& d) { d["items"].insert(d["items"].begin() + k + 1, base["items"][i]); });
  }
  // aliases, types
  const std::vector<std::string> aliases = { "", "x1", "X", "X01", "1X", "X1 ", " X1", "X-1", "\xD0\xAF" "1", "X99999999999", "F1", "R1", "R0", "Z", "B", "D", "D1D1", "@{X1|nomn}", std::string(300, 'X') };
  const std::vector<std::string> types = { "basic", "constant", "structure", "axiom", "term", "function", "theorem", "predicate", "foo", "", "BASIC" };
  for (int i = 0; i < 4; ++i) {
    for (const auto& a : aliases) with("alias of item " + std::to_string(i) + " := " + show(a), [&](JSON& d) { d["items"][i]["alias"] = a; });
    for (const auto& t : types) with("cstType of item " + std::to_string(i) + " := " + t, [&](JSON& d) { d["items"][i]["cstType"] = t; });
    for (long u : { 0L, -1L, 4294967295L, 4294967296L, 2147483648L }) with("uid of item " + std::to_string(i) + " := " + std::to_string(u), [&](JSON& d) { d["items"][i]["entityUID"] = u; });
  }
  // definitions
  const std::vector<std::string> formals = { "A1=X1", "A1" U_UNION "X1", "pr0(D1)", "Pr0(S1)", "Fi0[X1](S1)", "D1", "S1", "D1" U_UNION "D1", "[a" U_IN "X1] a", "X1:==", "D1:==X1", "2147483647+1", "$", "(",
                                             rep("(", 2000), rep(U_NOT, 2000) + "1=1", "debool(X1)", U_FORALL "a" U_IN "X1 a=a", "R1", "F1[X1]", "\\", "X1 \\ X1", "1", " ", "\n" };
  for (int i = 0; i < 4; ++i) for (const auto& f : formals) with("formal of item " + std::to_string(i) + " := " + show(f.substr(0, 40)), [&](JSON& d) { d["items"][i]["definition"]["formal"] = f; });
  // texts and references
  const std::vector<std::string> raws = { "@{X1|nomn|}", "@{99999999999|abc}", "@{-1|x}", "@{1|x} @{X1|nomn}", "@{X1|}", "@{|nomn}", "@{", "@", "@{X1|nomn", "@{{X1|nomn}}", "@{D1|nomn}", "@{S1|sing,datv} @{-1|good}", "@@{X1|nomn}", "\xD1\x8F @{X1|nomn}" };
  for (int i = 0; i < 4; ++i) for (const auto& r : raws) {
    with("term raw of item " + std::to_string(i) + " := " + r, [&](JSON& d) { d["items"][i]["term"]["raw"] = r; });
    with("definition text raw of item " + std::to_string(i) + " := " + r, [&](JSON& d) { d["items"][i]["definition"]["text"]["raw"] = r; });
  }
  for (const auto& t : std::vector<std::string>{ "", "foo", "plur", "nomn,nomn", ",", "plur,,nomn", "UNKN", " plur", std::string(100, ',') })
    with("form tags := " + t, [&](JSON& d) { d["items"][0]["term"]["forms"][0]["tags"] = t; });
  with("two forms with equal tags", [&](JSON& d) { d["items"][0]["term"]["forms"] += d["items"][0]["term"]["forms"][0]; });
  // tracking
  for (long u : { 0L, 5L, 99L, -1L, 4294967296L }) with("tracking uid := " + std::to_string(u), [&](JSON& d) { d["tracking"][0]["entityUID"] = u; });
  with("tracking entry twice", [&](JSON& d) { d["tracking"] += d["tracking"][0]; });
  with("tracking for every item", [&](JSON& d) { for (int i = 1; i <= 4; ++i) { auto t = d["tracking"][0]; t["entityUID"] = i; d["tracking"] += t; } });
  with("items empty", [&](JSON& d) { d["items"] = JSON::array(); });
  with("items reversed", [&](JSON& d) { std::reverse(d["items"].begin(), d["items"].end()); });
  with("document type rsmodel", [&](JSON& d) { d["type"] = "rsmodel"; });
  with("extra unknown keys", [&](JSON& d) { d["zzz"] = 1; d["items"][0]["zzz"] = JSON::array(); });
  // text level: every proper prefix of the serialised document, some raw texts
  const std::string text = base.dump();
  for (size_t n = 0; n < text.size(); ++n) out.push_back({ "prefix of " + std::to_string(n) + " bytes", text.substr(0, n) });
  for (const auto& t : std::vector<std::string>{ "null", "true", "0", "\"x\"", "[]", "{}", "[1,2]", "{\"items\":{}}", "{\"items\":[1]}", "{\"items\":[[]]}", "{\"items\":[{}]}", "\xFF", "{\"items\":[],\"title\":\"\xFF\"}", "{\"items\":[]} x",
                                                 std::string("{\"items\":[]}\0", 13), "\xEF\xBB\xBF{\"items\":[]}", "{\"items\":[],\"items\":[1]}", "{\"items\":[{\"entityUID\":1,\"cstType\":\"basic\",\"alias\":\"X1\"}]}",
                                                 "{\"items\":[{\"entityUID\":1e3,\"cstType\":\"basic\",\"alias\":\"X1\"}]}", "{\"items\":[{\"entityUID\":1.5,\"cstType\":\"basic\",\"alias\":\"X1\"}]}" })
    out.push_back({ "raw text " + show(t), t });
  return out;
}

void json_block(Ctx& c, const std::vector<Deviation>& devs, size_t from, size_t to) {
  const std::vector<std::string> exprs = { "", "X1", "D1" U_UNION "X1", "A1=X1", "A1" U_UNION "X1", "S1::=X1", "Pr1(S1)", U_FORALL "a" U_IN "X1 a" U_IN "D1", "D1 \\in B(X1)", "$" };
  struct CstProbe { std::string alias, def, type; };
  const std::vector<CstProbe> probes = { { "X9", "", "basic" }, { "X9", "X1", "basic" }, { "D9", "D1" U_UNION "X1", "term" }, { "D9", "", "term" }, { "A9", "A1=X1", "axiom" }, { "A9", "1=1", "axiom" }, { "S9", "X1", "structure" },
                                         { "S9", "A1", "structure" }, { "F9", "[a" U_IN "X1] a", "function" }, { "F9", "X1", "function" }, { "D9", "1=1", "term" }, { "", "X1", "term" }, { "D9", "X1", "foo" }, { "D1", "D1", "term" }, { "\xFF", "X1", "term" } };
  for (size_t i = from; i < to && i < devs.size(); ++i) {
    if (!c.take()) continue;
    const auto& dv = devs[i];
    const std::string desc = "json deviation=" + dv.what;
    c.begin(desc.substr(0, 400));
    ccl::lang::TextEnvironment::Instance().skipResolving = false;
    std::unique_ptr<ccl::api::RSFormJA> ja;
    const int r = guarded(c, "RSFormJA.FromJSON", true, [&] { ja = std::make_unique<ccl::api::RSFormJA>(ccl::api::RSFormJA::FromJSON(dv.text)); });
    std::string cls = r == 1 ? "json-format-error" : r == 2 ? "other-exception" : "loaded";
    if (r == 0 && ja) {
      c.rep.count("nontrivial");
      std::string out;
      if (guarded(c, "RSFormJA.ToJSON", false, [&] { out = ja->ToJSON(); }) == 0) {
        guarded(c, "RSFormJA.FromJSON(ToJSON)", false, [&] { auto again = ccl::api::RSFormJA::FromJSON(out); (void)again; });
        try { const auto j = JSON::parse(out); cls += ":" + std::to_string(j.at("items").size()) + "items"; } catch (const std::exception& e) { c.fail("C04:RSFormJA.ToJSON:output-not-json", "ToJSON text is not a JSON schema document", e.what()); }
      }
      guarded(c, "RSFormJA.ToMinimalJSON", false, [&] { out = ja->ToMinimalJSON(); });
      for (const auto& e : exprs)
        if (guarded(c, "RSFormJA.CheckExpression", false, [&] { out = ja->CheckExpression(e); }) == 0) check_answer(c, "RSFormJA.CheckExpression", out, e, true);
      for (const auto& p : probes)
        if (guarded(c, "RSFormJA.CheckConstituenta", false, [&] { out = ja->CheckConstituenta(p.alias, p.def, p.type); }) == 0)
          check_answer(c, "RSFormJA.CheckConstituenta", out, p.alias + (p.type == "structure" ? "::=" : ":==") + p.def, true);
    }
    // pyconcept wrappers: a JSON format error is acceptable exactly when the document itself is not loadable
    const bool allow = r == 1;
    std::string out;
    guarded(c, "py.CheckSchema", allow, [&] { out = ::CheckSchema(dv.text); });
    guarded(c, "py.ResetAliases", allow, [&] { out = ::ResetAliases(dv.text); });
    for (const auto& e : { exprs[2], exprs[3] })
      if (guarded(c, "py.CheckExpression", allow, [&] { out = ::CheckExpression(dv.text, e); }) == 0) check_answer(c, "py.CheckExpression", out, e, true);
    for (const auto& p : { probes[2], probes[4] })
      if (guarded(c, "py.CheckConstituenta", allow, [&] { out = ::CheckConstituenta(dv.text, p.alias, p.def, p.type); }) == 0) check_answer(c, "py.CheckConstituenta", out, p.alias + ":==" + p.def, true);
    c.rep.outcome(cls);
    c.rep.count("evaluations");
    if (i % 397 == 1) c.rep.sample(desc.substr(0, 200));
    c.done();
  }
}


std::vector<Block> blocks_json() {
  static const std::vector<Deviation> devs = deviations();
  std::vector<Block> out;
  const size_t step = 64;
  for (size_t from = 0; from < devs.size(); from += step)
    out.push_back({ "json/" + std::to_string(from), [from, step](Ctx& c) { json_block(c, devs, from, from + step); } });
  return out;
}

}  // namespace

int main(int argc, char** argv) {
  Options opt = parse_args(argc, argv);
  opt.max_crashes_per_shard = 100000;  // every crashing case is attributed; the cap would only turn findings into exhaustive:false
  const double t0 = now_s();
  Result res; res.property = "C04"; res.harness = "h_robust"; res.mode = opt.mode; res.tier = opt.tier;
  RunInfo ri; BlockRun br;
  Env E;  // built once in the parent: every forked worker starts from the same pristine analysers
  const std::string oracle = " || oracle per case: returns normally (fault / alarm attributed by the engine); no exception but nlohmann::json::exception from a loading entry point; verdict false <=> >= 1 critical error logged; 0 <= position <= input length";
  if (opt.mode == "tokens") {
    const int L = static_cast<int>(opt.num("maxlen", opt.thorough() ? 4 : 3)), F = static_cast<int>(opt.num("fulllen", 3)), G = static_cast<int>(opt.num("gluelen", opt.thorough() ? 3 : 2)), D = static_cast<int>(opt.num("deeplen", 2));
    br = run_blocks(opt, blocks_tokens(E, L, F, G, D));
    res.completed_bound = "all token sequences of <= " + std::to_string(std::min(L, F)) + " tokens over the full alphabet" + (L > F ? " and of " + std::to_string(F + 1) + ".." + std::to_string(L) + " tokens over the reduced alphabet" : "") +
                          " (separated by one blank), and of <= " + std::to_string(G) + " tokens glued, per syntax";
    res.alphabet = "full MATH: " + std::to_string(math_alphabet().size()) + " tokens, ASCII: " + std::to_string(ascii_alphabet().size()) + " tokens (every lexer rule spelled; indices 0 1 1,2 3,0; ints 0 1 2147483647 99999999999; identifiers of every kind; newline $ 0x80 0xE2 0xFF NUL); reduced (1-2 spellings per grammar class) MATH: " +
                   std::to_string(reduced_alphabet(Syntax::MATH).size()) + ", ASCII: " + std::to_string(reduced_alphabet(Syntax::ASCII).size());
    res.rule = "case = one string (distinct by construction within a pass); Parser::Parse under hints own/UNDEF/other on every string; Auditor (G1, empty G0), SchemaAuditor, Interpreter, api::ParseExpression, RSFormJA::CheckExpression, ConvertTo x2 and the pyconcept wrappers on every string of <= " + std::to_string(D) + " tokens and on every string that parses under some hint (these stages are behind the parse gate in the code); non-trivial = parses under some hint" + oracle;
  } else if (opt.mode == "bytes") {
    const int a = static_cast<int>(opt.num("len32", 3)), b = static_cast<int>(opt.num("len256", 2)), da = static_cast<int>(opt.num("deep32", opt.thorough() ? 3 : 2)), db = static_cast<int>(opt.num("deep256", opt.thorough() ? 2 : 1));
    br = run_blocks(opt, blocks_bytes(E, a, b, da, db));
    res.completed_bound = "all byte strings of <= " + std::to_string(a) + " bytes over 32 bytes and of <= " + std::to_string(b) + " bytes over all 256 bytes";
    res.alphabet = "32 bytes: NUL TAB LF CR SP $ ( ) * , - 0 1 : = B D X R a _ \\ { } | [ 7F 80 88 C2 E2 FF; and 00..FF";
    res.rule = "case = one byte string; every stage under hints MATH/UNDEF/ASCII for strings of <= " + std::to_string(da) + " (32-alphabet) / <= " + std::to_string(db) + " (256-alphabet) bytes and for every string that parses; Parser::Parse x3 hints on all; non-trivial = parses under some hint" + oracle;
  } else if (opt.mode == "edits") {
    const int ds = static_cast<int>(opt.num("doubleseeds", opt.thorough() ? 20 : 0));
    br = run_blocks(opt, blocks_edits(E, ds));
    res.completed_bound = std::to_string(seeds().size()) + " seeds x 2 syntaxes: every deletion, replacement and insertion of one token by every alphabet token" + (ds > 0 ? "; two edits (core alphabet of 40 tokens) on " + std::to_string(ds) + " seeds" : "");
    res.alphabet = "seeds = one valid expression per production of RSParserImpl.y; edit tokens = the tokens-mode alphabets";
    res.rule = "case = one edited token sequence (duplicates between different edits possible, not removed); stages as in tokens mode (deep on parse success); non-trivial = parses" + oracle;
  } else if (opt.mode == "ladders") {
    const long md = opt.num("maxdepth", opt.thorough() ? 1000000 : 10000), fd = opt.num("facadedepth", 100000);
    opt.case_timeout_s = static_cast<int>(opt.num("ladder-timeout", 300));
    br = run_blocks(opt, blocks_ladders(E, md, fd));
    res.completed_bound = std::to_string(families().size()) + " families x depth 1,10,..,min(" + std::to_string(md) + ", cap of the family's cost class: nested types 1e3, wide lists 1e4, recursive nesting 1e5, flat 1e6) x entry points (JSON facades up to depth " + std::to_string(fd) + ")";
    res.alphabet = "nesting constructs ( not B { tuple quantifier chains [ call card bool debool pr Pr Fi D{ I{ R{, width families, long lexemes, @{ reference braces, JSON arrays/objects";
    res.rule = "case = (family, depth, entry point); parametrised family enumerated completely; non-trivial = depth >= 100" + oracle;
  } else if (opt.mode == "json") {
    br = run_blocks(opt, blocks_json());
    res.completed_bound = "valid 4-constituent document + every one-deviation document (" + std::to_string(deviations().size()) + " documents)";
    res.alphabet = "deviations: delete each key/element; replace each value by 12 values of other JSON types; uid / alias collisions; duplicates; 19 aliases; 11 cstType strings; 25 formal definitions; 14 reference texts; form tags; tracking; every prefix of the text; 20 raw texts";
    res.rule = "case = one document through FromJSON, ToJSON, reload, ToMinimalJSON, CheckExpression x10, CheckConstituenta x15, pyconcept CheckSchema/ResetAliases/CheckExpression x2/CheckConstituenta x2; non-trivial = document loads" + oracle;
  } else if (opt.mode == "refs") {
    const int L = static_cast<int>(opt.num("maxlen", opt.thorough() ? 5 : 4));
    br = run_blocks(opt, blocks_refs(L));
    res.completed_bound = "all sequences of <= " + std::to_string(L) + " reference tokens (20 tokens)";
    res.alphabet = "@{ @ { } | X1 nomn sing,nomn , 1 -1 99999999999 - blank я E2 @{X1|nomn} @{-1|big} @{X1| |nomn}";
    res.rule = "case = one text through Reference::Parse (also wrapped in @{}), ExtractAll, RefsManager::Resolve; non-trivial = >= 1 reference extracted" + oracle;
  } else { fprintf(stderr, "unknown mode\n"); return 2; }
  res.rep = std::move(br.rep); ri = br.ri;
  res.rep.counters["blocks"] = br.blocks;
  res.evaluations = res.rep.counters["evaluations"];
  res.distinct_nontrivial = res.rep.counters["nontrivial"];
  res.states = res.evaluations; res.transitions = res.rep.counters["verdicts_checked"] + res.rep.counters["positions_checked"]; res.traces_validated = res.evaluations;
  res.exhaustive = !ri.deadline_hit && !ri.crash_cap_hit;
  res.assumptions = { "positions: MATH = code points for well-formed UTF-8 (byte length for ill-formed input), ASCII = bytes", "analyser objects are built once and reused across the cases of a worker (C18 covers history independence); the enumeration is cut into blocks (one engine run each)",
                      "clang 14 + libstdc++ 12, ASan+UBSan, asserts enabled, 8 MB stack" };
  res.wall_s = now_s() - t0;
  res.write(opt.out.empty() ? "/dev/stdout" : opt.out);
  return 0;
}
