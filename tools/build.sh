#!/bin/bash
# Hash-keyed build of the ConceptCore library (7 unity TUs) + one harness, from /repo's CURRENT working tree.
#   tools/build.sh lib <flavour>              -> prints build dir (contains libccl.a)
#   tools/build.sh harness <flavour> <name>   -> prints path of harness binary (harness/<name>.cpp)
#   tools/build.sh --all                      -> pre-warm both flavours + all harnesses
# flavours: san (ASan+UBSan, asserts on, -O1)   fast (-O2 -DNDEBUG)
set -euo pipefail
VERIF="$(cd "$(dirname "$0")/.." && pwd)"
REPO="${VERIF_REPO:-/repo}"
BUILD="$VERIF/build"
CXX="${VERIF_CXX:-clang++}"
mkdir -p "$BUILD"

INC=(cclCommons/include cclGraph/include cclLang/include rslang/include core/include core/header
     rslang/header rslang/import/reflex/include cclLang/header)
TUS=(core/unity/CCL.cpp cclGraph/src/CGraph.cpp rslang/unity/reflex_unity1.cpp rslang/unity/reflex_unity2.cpp
     rslang/unity/RSlang.cpp rslang/unity/RSlang2.cpp cclLang/unity/cclLang.cpp)

flags_for() {
  case "$1" in
    san)  echo "-std=c++20 -O1 -g1 -fno-omit-frame-pointer -fsanitize=address,undefined -fno-sanitize-recover=all -DCCL_VERIF -w" ;;
    fast) echo "-std=c++20 -O2 -DNDEBUG -DCCL_VERIF -w" ;;
    *) echo "unknown flavour $1" >&2; exit 2 ;;
  esac
}

repo_hash() { # hash of every file that can reach a TU + compiler + flags
  local fl="$1"
  ( cd "$REPO" && { find ccl pyconcept/src pyconcept/include -type f \
        \( -name '*.cpp' -o -name '*.h' -o -name '*.hpp' -o -name '*.c' -o -name '*.l' -o -name '*.y' -o -name '*.inc' -o -name '*.ipp' \) \
        -not -path '*/test/src/*' -not -path '*/_build/*' 2>/dev/null || true; } | LC_ALL=C sort | xargs sha256sum
    "$CXX" --version | head -1; flags_for "$fl" ) | sha256sum | cut -c1-16
}

incflags() { local s=""; for i in "${INC[@]}"; do s="$s -I$REPO/ccl/$i"; done; echo "$s"; }

build_lib() {
  local fl="$1" h dir
  h="$(repo_hash "$fl")"; dir="$BUILD/$fl-$h"
  if [ ! -f "$dir/libccl.a" ]; then
    (
      flock 9
      if [ ! -f "$dir/libccl.a" ]; then
        # keep the most recent trees per flavour (disk); several agents / scratch worktrees may build concurrently
        { ls -dt "$BUILD/$fl-"* 2>/dev/null || true; } | tail -n +"${VERIF_KEEP_TREES:-10}" | xargs -r rm -rf
        rm -rf "$dir"; mkdir -p "$dir/obj"
        local flags inc pids=() i=0
        flags="$(flags_for "$fl")"; inc="$(incflags)"
        for tu in "${TUS[@]}"; do
          $CXX $flags $inc -c "$REPO/ccl/$tu" -o "$dir/obj/tu$i.o" 2>"$dir/obj/tu$i.log" &
          pids+=($!); i=$((i+1))
        done
        local ok=1
        for p in "${pids[@]}"; do wait "$p" || ok=0; done
        if [ $ok = 0 ]; then cat "$dir"/obj/*.log >&2; echo "BUILD-FAILED lib $fl" >&2; rm -rf "$dir"; exit 2; fi
        ar rcs "$dir/libccl.a.tmp" "$dir"/obj/*.o && mv "$dir/libccl.a.tmp" "$dir/libccl.a"
        rm -rf "$dir/obj"
      fi
    ) 9>"$BUILD/.lock-$fl"
  fi
  echo "$dir"
}

build_harness() {
  local fl="$1" name="$2" dir src hh bin
  dir="$(build_lib "$fl")"
  src="$VERIF/harness/$name.cpp"
  [ -f "$src" ] || { echo "no such harness $src" >&2; exit 2; }
  hh="$( (cat "$src"; cat "$VERIF"/engine/*.hpp "$VERIF"/model/*.hpp "$VERIF"/model/*.inc 2>/dev/null || true) | sha256sum | cut -c1-12)"
  bin="$dir/$name-$hh"
  if [ ! -x "$bin" ]; then
    (
      flock 8
      if [ ! -x "$bin" ]; then
        rm -f "$dir/$name-"*
        local extra=""
        grep -q 'VERIF-NEEDS-PYCONCEPT' "$src" && extra="-I$VERIF/model/pybind_stub -I$REPO/pyconcept/include -I$REPO/pyconcept/src -DVERIF_PYCONCEPT_SRC=\"$REPO/pyconcept/src/pyconcept.cpp\""
        if ! $CXX $(flags_for "$fl") -fno-access-control $(incflags) -I"$VERIF" -I"$REPO/ccl/core/test/utils" $extra \
             "$src" "$dir/libccl.a" -lpthread -o "$bin.tmp" 2>"$bin.log"; then
          cat "$bin.log" >&2; echo "BUILD-FAILED harness $name ($fl)" >&2; rm -f "$bin.tmp"; exit 2
        fi
        mv "$bin.tmp" "$bin"; rm -f "$bin.log"
      fi
    ) 8>"$BUILD/.lock-h-$fl-$name"
  fi
  echo "$bin"
}

case "${1:-}" in
  lib) build_lib "$2" ;;
  harness) build_harness "$2" "$3" ;;
  --all)
    build_lib san >/dev/null & p1=$!
    build_lib fast >/dev/null & p2=$!
    wait $p1; wait $p2
    # harness list with flavours comes from the check driver
    python3 "$VERIF/check" --prebuild
    ;;
  *) echo "usage: build.sh lib <fl> | harness <fl> <name> | --all" >&2; exit 2 ;;
esac
