// C08 (text layer) — identifier translation rewrites all and only the whole-identifier occurrences.
// mode: text   every token sequence of <= L tokens over the 20-token alphabet of DESIGN §5 C08 (concatenated WITHOUT
//              separators, so neighbours merge: X1·1 = X11, X1·α1 = one global, 1·X1 = integer + global) x the
//              translation maps x every text-level entry point:
//                rslang::TranslateRS (FilterGlobals / FilterIdentifiers / locals-only filter; CreateTranslator const& and &&;
//                TFFactory::GetTransition), rslang::SubstituteGlobals, RSConcept::Translate (definition + convention),
//                ManagedText::TranslateRaw / TranslateRefs, LexicalTerm::TranslateRaw / TranslateRefs,
//                TextConcept::TranslateRaw / Translate, Reference::TranslateEntity, ExtractUGlobals / ExtractULocals.
//              oracle: model/reflex.hpp (independent MATH tokeniser + simultaneous whole-token renamer); result text must
//              equal the model's byte for byte (=> every byte outside replaced tokens identical, replaced tokens exactly
//              the accepted whole-identifier occurrences), returned count = number of replaced tokens; in managed
//              (reference) text only the entity field of @{..} groups changes; resolved text = fresh resolution of the
//              expected raw text; an exception escaping an entry point is a violation (<entry>:threw).
//       text-san  the same exploration in the ASan+UBSan build at a smaller bound (every MathLexer construction allocates a
//              256 KiB reflex buffer: ~90 us under ASan, 72 constructions per string, so the full bound runs in `fast`).
#include "engine/mc.hpp"
#include "model/reflex.hpp"

#include <malloc.h>

#include "ccl/Substitutes.hpp"
#include "ccl/rslang/RSExpr.h"
#include "ccl/rslang/MathLexer.h"
#include "ccl/lang/ManagedText.h"
#include "ccl/lang/LexicalTerm.h"
#include "ccl/lang/Reference.h"
#include "ccl/lang/EntityTermContext.hpp"
#include "ccl/lang/TextEnvironment.h"
#include "ccl/semantic/RSConcept.h"
#include "ccl/semantic/TextConcept.h"

using namespace mc;
using StrMap = std::map<std::string, std::string>;

namespace {

#define U_CUP "\xE2\x88\xAA"    /* ∪ 3 bytes */
#define U_TIMES "\xC3\x97"      /* × 2 bytes */
#define U_EMPTY "\xE2\x88\x85"  /* ∅ 3 bytes */
#define U_BOOL "\xE2\x84\xAC"   /* ℬ 3 bytes */
#define U_ALPHA "\xCE\xB1"      /* α 2 bytes */

struct Sym { std::string text; const char* refEntity; const char* refTag; };  // refEntity != nullptr: a text reference
const std::vector<Sym> kAlphabet = {
  { "X1", nullptr, nullptr }, { "X11", nullptr, nullptr }, { "X2", nullptr, nullptr }, { "X12", nullptr, nullptr },
  { "x1", nullptr, nullptr }, { U_ALPHA "1", nullptr, nullptr }, { "D1", nullptr, nullptr }, { "F1", nullptr, nullptr }, { "P1", nullptr, nullptr },
  { U_CUP, nullptr, nullptr }, { U_TIMES, nullptr, nullptr }, { U_EMPTY, nullptr, nullptr }, { U_BOOL "(", nullptr, nullptr }, { ")", nullptr, nullptr },
  { " ", nullptr, nullptr }, { "\n", nullptr, nullptr }, { "1", nullptr, nullptr }, { "11", nullptr, nullptr },
  { "@{X1|nomn}", "X1", "nomn" }, { "@{X11|sing}", "X11", "sing" },
};
enum : int { T_X1 = 0, T_X11 = 1, T_1 = 16, T_11 = 17 };

struct MapSpec { const char* name; StrMap m; };
const std::vector<MapSpec> kMaps = {
  { "same{X1>X2}", { { "X1", "X2" } } },
  { "longer{X1>X123}", { { "X1", "X123" } } },
  { "shorter{X11>X1}", { { "X11", "X1" } } },
  { "swap{X1>X2,X2>X1}", { { "X1", "X2" }, { "X2", "X1" } } },
  { "chain{X1>X2,X2>X3}", { { "X1", "X2" }, { "X2", "X3" } } },
  { "local{x1>y}", { { "x1", "y" } } },
  { "greek{a1>x1,x1>a1}", { { U_ALPHA "1", "x1" }, { "x1", U_ALPHA "1" } } },          // same code points, different byte lengths
  { "kinds{F1>F12,P1>D1,D1>P1}", { { "F1", "F12" }, { "P1", "D1" }, { "D1", "P1" } } },  // function / predicate tokens are globals too
};

ccl::StrSubstitutes to_subst(const StrMap& m) { ccl::StrSubstitutes s; for (auto& [k, v] : m) s.emplace(k, v); return s; }

std::string show(const std::string& s) { std::string o; for (char ch : s) { if (ch == '\n') o += "\\n"; else o += ch; } return o; }

// Two sequences spell the same string iff they differ by the re-bracketings X1·1=X11, 1·1=11, X1·11=X11·1, 1·11=11·1.
// The sequence without any of these adjacent pairs is the canonical one; the others are not cases.
bool redundant(const std::vector<int>& idx) {
  for (size_t i = 0; i + 1 < idx.size(); ++i) {
    const int a = idx[i], b = idx[i + 1];
    if ((a == T_X1 || a == T_1) && (b == T_1 || b == T_11)) return true;
  }
  return false;
}

class Terms final : public ccl::lang::EntityTermContext {
public:
  std::unordered_map<std::string, ccl::lang::LexicalTerm> terms;
  Terms() {
    terms.emplace("X1", ccl::lang::LexicalTerm{ "\xD0\xBE\xD0\xB4\xD0\xB8\xD0\xBD" /*один*/ });
    terms.emplace("X2", ccl::lang::LexicalTerm{ "two" });
    terms.emplace("X11", ccl::lang::LexicalTerm{ "\xD0\xBE\xD0\xB4\xD0\xB8\xD0\xBD\xD0\xBD\xD0\xB0\xD0\xB4\xD1\x86\xD0\xB0\xD1\x82\xD1\x8C" /*одиннадцать*/ });
  }
  const ccl::lang::LexicalTerm* At(const std::string& e) const override { auto it = terms.find(e); return it == terms.end() ? nullptr : &it->second; }
  bool Contains(const std::string& e) const override { return terms.count(e) != 0; }
};

unsigned kind_of(ccl::rslang::TokenID t) {
  using ccl::rslang::TokenID;
  switch (t) {
  case TokenID::ID_GLOBAL: return reflex::kGlobal;
  case TokenID::ID_FUNCTION: return reflex::kFunction;
  case TokenID::ID_PREDICATE: return reflex::kPredicate;
  case TokenID::ID_RADICAL: return reflex::kRadical;
  case TokenID::ID_LOCAL: return reflex::kLocal;
  case TokenID::LIT_INTEGER: return reflex::kInteger;
  case TokenID::SMALLPR: case TokenID::BIGPR: case TokenID::FILTER: case TokenID::CARD: case TokenID::BOOL: case TokenID::REDUCE:
  case TokenID::DEBOOL: case TokenID::DECLARATIVE: case TokenID::RECURSIVE: case TokenID::IMPERATIVE: case TokenID::LIT_INTSET: return reflex::kKeyword;
  default: return reflex::kOther;
  }
}

struct Checker {
  Ctx& c;
  const std::string& input;
  const char* mapName{ "" };
  uint64_t checks{ 0 };

  void text(const char* entry, const std::string& got, const std::string& exp) {
    ++checks;
    if (got == exp) return;
    const char* cls = (got == input) ? "unchanged-but-should-change" : (exp == input) ? "changed-but-should-not" : "wrong-text";
    c.fail(std::string("C08:") + entry + ":" + cls, std::string(entry) + " with map " + mapName + " on \"" + show(input) + "\"", show(got), show(exp));
  }
  void count(const char* entry, long got, long exp) {
    ++checks;
    if (got == exp) return;
    c.fail(std::string("C08:") + entry + ":count", std::string(entry) + " returned count, map " + mapName + " on \"" + show(input) + "\"", std::to_string(got), std::to_string(exp));
  }
  template <class F> void guard(const char* entry, const F& body) {  // an exception escaping a translation is a violation of its own, not a dead worker
    try { body(); }
    catch (const std::exception& e) { ++checks; c.fail(std::string("C08:") + entry + ":threw", std::string(entry) + " threw, map " + mapName + " on \"" + show(input) + "\"", e.what()); }
  }
  void same(const char* entry, const char* what, bool ok) {
    ++checks;
    if (!ok) c.fail(std::string("C08:") + entry + ":" + what, std::string(entry) + " " + what + ", map " + mapName + " on \"" + show(input) + "\"");
  }
};

struct PerProcess {
  Terms ctx;
  ccl::rslang::TokenFilter localsOnly = ccl::rslang::TFFactory::GetFilter({ ccl::rslang::TokenID::ID_LOCAL });
  std::vector<ccl::StrSubstitutes> subst;
  std::vector<std::vector<std::string>> outcomeKeys;  // [map][count]
  PerProcess() {
    for (auto& m : kMaps) subst.push_back(to_subst(m.m));
    for (auto& m : kMaps) { std::vector<std::string> v; for (int n = 0; n <= 8; ++n) v.push_back(std::string(m.name) + ":replaced=" + std::to_string(n)); outcomeKeys.push_back(v); }
  }
};

// lexer <-> model conformance on the word-shaped tokens (binds the model to the code; per string, not per map)
void check_tokens(Checker& ck, const std::string& s, const std::vector<reflex::Token>& toks) {
  std::string rebuilt; for (auto& t : toks) rebuilt += t.text;
  if (rebuilt != s) { fprintf(stderr, "HARNESS-ASSERT model tokens do not cover the input\n"); fflush(stderr); abort(); }
  ccl::rslang::detail::MathLexer lex{ s };
  size_t k = 0; bool ok = true; std::string got, exp;
  auto next_word = [&]() { while (k < toks.size() && toks[k].kind == reflex::kOther) ++k; };
  for (auto t = lex.lex(); t != ccl::rslang::TokenID::END; t = lex.lex()) {
    const unsigned kd = kind_of(t);
    if (kd == reflex::kOther) continue;
    const auto rb = lex.RangeInBytes();
    got += "[" + std::to_string(kd) + ":" + std::to_string(rb.start) + "-" + std::to_string(rb.finish) + "]";
    next_word();
    if (k >= toks.size()) { ok = false; continue; }
    const auto& m = toks[k++];
    if (m.kind != kd || static_cast<long>(m.begin) != rb.start || static_cast<long>(m.end) != rb.finish || lex.Text() != m.text) ok = false;
  }
  next_word();
  if (k != toks.size()) ok = false;
  ++ck.checks;
  if (!ok) {
    for (auto& t : toks) if (t.kind != reflex::kOther) exp += "[" + std::to_string(t.kind) + ":" + std::to_string(t.begin) + "-" + std::to_string(t.end) + "]";
    ck.c.fail("C08:lexer-vs-token-model", "real MATH lexer and reflex.hpp disagree on the word tokens of \"" + show(s) + "\"", got, exp);
  }
  // mention extraction
  {
    const auto g = ccl::rslang::ExtractUGlobals(s); const auto e = reflex::mentioned(s, reflex::kGlobals);
    ck.same("ExtractUGlobals", "set-differs", std::set<std::string>(g.begin(), g.end()) == e);
    const auto l = ccl::rslang::ExtractULocals(s); const auto el = reflex::mentioned(s, reflex::kLocal);
    ck.same("ExtractULocals", "set-differs", std::set<std::string>(l.begin(), l.end()) == el);
  }
}

void check_case(Ctx& c, PerProcess& pp, const std::vector<int>& idx, const std::string& s) {
  using namespace ccl;
  Checker ck{ c, s };
  const auto toks = reflex::tokenize(s);
  check_tokens(ck, s, toks);
  bool anyNontrivial = false;

  for (size_t mi = 0; mi < kMaps.size(); ++mi) {
    const auto& spec = kMaps[mi];
    ck.mapName = spec.name;
    const auto& sub = pp.subst[mi];
    // ---- expectations from the model
    const auto expG = reflex::rename(toks, reflex::kGlobals, spec.m);
    const auto expI = reflex::rename(toks, reflex::kIdentifiers, spec.m);
    const auto expL = reflex::rename(toks, reflex::kLocal, spec.m);
    // managed text: expectation by construction from the alphabet, cross-checked against the scanning model
    std::string expRaw; int expRefs = 0;
    for (int k : idx) {
      const auto& sym = kAlphabet[static_cast<size_t>(k)];
      if (sym.refEntity == nullptr) { expRaw += sym.text; continue; }
      auto it = spec.m.find(sym.refEntity);
      if (it == spec.m.end() || it->second == sym.refEntity) { expRaw += sym.text; continue; }
      expRaw += "@{" + it->second + "|" + sym.refTag + "}"; ++expRefs;
    }
    {
      const auto viaScan = reflex::rename_refs(s, spec.m);
      if (viaScan.text != expRaw || viaScan.count != expRefs) { fprintf(stderr, "HARNESS-ASSERT reflex::rename_refs disagrees with the by-construction expectation\n"); fflush(stderr); abort(); }
    }

    // ---- RS text entry points
    ck.guard("TranslateRS.globals", [&] { std::string t = s; const auto n = rslang::TranslateRS(t, rslang::TFFactory::FilterGlobals(), CreateTranslator(sub));
      ck.text("TranslateRS.globals", t, expG.text); ck.count("TranslateRS.globals", n, expG.count); });
    ck.guard("SubstituteGlobals", [&] { std::string t = s; const auto n = rslang::SubstituteGlobals(t, sub);
      ck.text("SubstituteGlobals", t, expG.text); ck.count("SubstituteGlobals", n, expG.count); });
    ck.guard("TranslateRS.identifiers", [&] { std::string t = s; const auto n = rslang::TranslateRS(t, rslang::TFFactory::FilterIdentifiers(), CreateTranslator(StrSubstitutes{ sub }));
      ck.text("TranslateRS.identifiers", t, expI.text); ck.count("TranslateRS.identifiers", n, expI.count); });
    ck.guard("TranslateRS.locals", [&] { std::string t = s; const auto n = rslang::TranslateRS(t, pp.localsOnly, CreateTranslator(sub));
      ck.text("TranslateRS.locals", t, expL.text); ck.count("TranslateRS.locals", n, expL.count); });
    ck.guard("TranslateRS.transition", [&] { // merge-style translator: whatever GetTransition answers for a name is the requested new name; mapped names must get their image
      const auto tr = rslang::TFFactory::GetTransition(sub);
      for (auto& [k, v] : spec.m) { const auto r = tr(k); ck.same("GetTransition", "mapped-name-not-translated-to-image", r.has_value() && *r == v); }
      const auto expT = reflex::rename_with(toks, reflex::kGlobals, tr);
      std::string t = s; const auto n = rslang::TranslateRS(t, rslang::TFFactory::FilterGlobals(), tr);
      ck.text("TranslateRS.transition", t, expT.text); ck.count("TranslateRS.transition", n, expT.count); });
    ck.guard("RSConcept.Translate", [&] { semantic::RSConcept cst{ 7U, "D7", semantic::CstType::term, s, s };
      cst.Translate(CreateTranslator(sub));
      ck.text("RSConcept.Translate.definition", cst.definition, expG.text);
      ck.text("RSConcept.Translate.convention", cst.convention, expG.text);
      ck.same("RSConcept.Translate", "other-fields-changed", cst.uid == 7U && cst.alias == "D7" && cst.type == semantic::CstType::term); });

    // ---- managed (reference) text entry points
    std::string expResolved;
    { lang::ManagedText fresh{}; fresh.InitFrom(expRaw, pp.ctx); expResolved = fresh.Str(); }
    ck.guard("ManagedText.TranslateRaw", [&] { lang::ManagedText mt{ s }; mt.TranslateRaw(CreateTranslator(sub));
      ck.text("ManagedText.TranslateRaw", mt.Raw(), expRaw); });
    ck.guard("ManagedText.TranslateRefs", [&] { lang::ManagedText mt{ s }; mt.TranslateRefs(CreateTranslator(StrSubstitutes{ sub }), pp.ctx);
      ck.text("ManagedText.TranslateRefs", mt.Raw(), expRaw);
      ck.same("ManagedText.TranslateRefs", "resolved-text-differs-from-fresh-resolution", mt.Str() == expResolved); });
    ck.guard("LexicalTerm.TranslateRaw", [&] { lang::LexicalTerm lt{ s }; lt.TranslateRaw(CreateTranslator(sub));
      ck.text("LexicalTerm.TranslateRaw", lt.Text().Raw(), expRaw); });
    ck.guard("LexicalTerm.TranslateRefs", [&] { lang::LexicalTerm lt{ s }; lt.TranslateRefs(CreateTranslator(sub), pp.ctx);
      ck.text("LexicalTerm.TranslateRefs", lt.Text().Raw(), expRaw);
      ck.same("LexicalTerm.TranslateRefs", "resolved-text-differs-from-fresh-resolution", lt.Nominal() == expResolved); });
    ck.guard("TextConcept.TranslateRaw", [&] { semantic::TextConcept tc{ 7U, "D7", lang::LexicalTerm{ s }, lang::ManagedText{ s } }; tc.TranslateRaw(CreateTranslator(sub));
      ck.text("TextConcept.TranslateRaw.term", tc.term.Text().Raw(), expRaw);
      ck.text("TextConcept.TranslateRaw.definition", tc.definition.Raw(), expRaw);
      ck.same("TextConcept.TranslateRaw", "other-fields-changed", tc.uid == 7U && tc.alias == "D7"); });
    ck.guard("TextConcept.Translate", [&] { semantic::TextConcept tc{ 7U, "D7", lang::LexicalTerm{ s }, lang::ManagedText{ s } }; tc.Translate(CreateTranslator(sub), pp.ctx);
      ck.text("TextConcept.Translate.term", tc.term.Text().Raw(), expRaw);
      ck.text("TextConcept.Translate.definition", tc.definition.Raw(), expRaw);
      ck.same("TextConcept.Translate", "resolved-text-differs-from-fresh-resolution", tc.term.Nominal() == expResolved && tc.definition.Str() == expResolved); });

    const int primary = std::max(expI.count, expL.count);
    if (primary > 0 || expRefs > 0) { anyNontrivial = true; c.rep.count("pairs_nontrivial"); }
    c.rep.count("pairs");
    c.rep.outcome(pp.outcomeKeys[mi][static_cast<size_t>(std::min(primary, 8))]);
    if (expRefs > 0) c.rep.outcome(expRefs == 1 ? "refs-replaced=1" : "refs-replaced>=2");
    if (primary > 0) {
      // three length relations with a multi-byte symbol before / after a replaced token (the offset bookkeeping)
      const auto& r0 = expI.replaced.empty() ? expL.replaced : expI.replaced;
      bool mbBefore = false, mbAfter = false;
      for (size_t i = 0; i < r0.front().begin; ++i) if (static_cast<unsigned char>(s[i]) >= 0x80) mbBefore = true;
      for (size_t i = r0.back().end; i < s.size(); ++i) if (static_cast<unsigned char>(s[i]) >= 0x80) mbAfter = true;
      if (mbBefore) c.rep.count("pairs_multibyte_before_replacement");
      if (mbAfter) c.rep.count("pairs_multibyte_after_replacement");
    }
  }
  c.rep.count("checks", ck.checks);
  c.rep.count("evaluations");
  if (anyNontrivial) c.rep.count("nontrivial");
}

void check_references(Ctx& c) {  // Reference::TranslateEntity on the reference symbols themselves
  using namespace ccl;
  for (const auto& sym : kAlphabet) {
    if (sym.refEntity == nullptr) continue;
    for (const auto& spec : kMaps) {
      if (!c.take()) continue;
      c.begin("Reference " + sym.text + " map " + spec.name);
      Checker ck{ c, sym.text, spec.name };
      auto ref = lang::Reference::Parse(sym.text);
      ck.same("Reference.Parse", "not-an-entity-reference", ref.IsEntity() && ref.GetEntity() == sym.refEntity && ref.ToString() == sym.text);
      if (ref.IsEntity()) {
        const auto it = spec.m.find(sym.refEntity);
        const bool expChange = it != spec.m.end() && it->second != sym.refEntity;
        const bool changed = ref.TranslateEntity(CreateTranslator(to_subst(spec.m)));
        ck.same("Reference.TranslateEntity", "return-value", changed == expChange);
        ck.text("Reference.TranslateEntity", ref.ToString(), expChange ? "@{" + it->second + "|" + sym.refTag + "}" : sym.text);
        ck.same("Reference.TranslateEntity", "entity-field", ref.GetEntity() == (expChange ? it->second : std::string(sym.refEntity)));
        c.rep.outcome(expChange ? "reference-translated" : "reference-untouched");
      }
      c.rep.count("checks", ck.checks); c.rep.count("evaluations"); c.rep.count("reference_cases");
      c.done();
    }
  }
}

void enumerate(Ctx& c, int maxLen) {
  PerProcess pp;
  check_references(c);
  const int A = static_cast<int>(kAlphabet.size());
  std::vector<int> idx;
  for (int len = 0; len <= maxLen && !c.stop(); ++len) {
    idx.assign(static_cast<size_t>(len), 0);
    while (true) {
      if (!redundant(idx)) {
        if (c.take()) {
          std::string s, desc = "seq=";
          for (size_t i = 0; i < idx.size(); ++i) { s += kAlphabet[static_cast<size_t>(idx[i])].text; desc += (i ? "," : "") + std::to_string(idx[i]); }
          desc += " text=\"" + show(s) + "\"";
          c.begin(desc);
          check_case(c, pp, idx, s);
          c.rep.count(("cases_len" + std::to_string(len)).c_str());
          if (c.idx % 400009 == 17 || (len == maxLen && c.idx % 3000017 == 5)) c.rep.sample(desc);
          c.done();
        }
        if (c.stop()) break;
      }
      int p = len - 1;
      while (p >= 0 && ++idx[static_cast<size_t>(p)] == A) { idx[static_cast<size_t>(p)] = 0; --p; }
      if (p < 0) break;
    }
  }
}

// the canonical-sequence rule really gives one sequence per string (checked exhaustively for short sequences at start-up)
void selfcheck_canonical() {
  const int A = static_cast<int>(kAlphabet.size());
  std::set<std::string> seen; std::set<std::string> all;
  for (int len = 0; len <= 3; ++len) {
    std::vector<int> idx(static_cast<size_t>(len), 0);
    while (true) {
      std::string s; for (int k : idx) s += kAlphabet[static_cast<size_t>(k)].text;
      all.insert(s);
      if (!redundant(idx) && !seen.insert(s).second) { fprintf(stderr, "HARNESS-ERROR: two canonical sequences spell %s\n", s.c_str()); exit(2); }
      int p = len - 1;
      while (p >= 0 && ++idx[static_cast<size_t>(p)] == A) { idx[static_cast<size_t>(p)] = 0; --p; }
      if (p < 0) break;
    }
  }
  // re-bracketing never lengthens a sequence, so every string spelt by <= 3 tokens must have its canonical spelling in `seen`
  for (auto& s : all) if (!seen.count(s)) { fprintf(stderr, "HARNESS-ERROR: string %s has no canonical sequence of <= 3 tokens\n", s.c_str()); exit(2); }
}

}  // namespace

int main(int argc, char** argv) {
  Options opt = parse_args(argc, argv);
  const double t0 = now_s();
#if !defined(__has_feature) || !__has_feature(address_sanitizer)
  // every MathLexer allocates (and frees) a 256 KiB reflex buffer; keep those on the heap instead of one mmap/munmap pair per lexer
  mallopt(M_MMAP_THRESHOLD, 8 << 20); mallopt(M_TRIM_THRESHOLD, 512 << 20);
#endif
  Result res; res.property = "C08"; res.harness = "h_rename"; res.mode = opt.mode; res.tier = opt.tier;
  RunInfo ri;
  if (opt.mode == "text" || opt.mode == "text-san") {  // same exploration; text-san = sanitizer build, smaller bound (see registry)
    const bool san = opt.mode == "text-san";
    const int L = static_cast<int>(opt.num("maxlen", san ? (opt.thorough() ? 4 : 3) : (opt.thorough() ? 6 : 5)));
    selfcheck_canonical();
    res.rep = run_sharded(opt, opt.mode, [&](Ctx& c) { enumerate(c, L); }, &ri);
    res.completed_bound = "all token sequences of <= " + std::to_string(L) + " tokens over a 20-token alphabet (one per distinct string) x " + std::to_string(kMaps.size()) + " translation maps x 13 entry-point configurations";
    res.alphabet = "X1 X11 X2 X12 x1 α1 D1 F1 P1 ∪ × ∅ ℬ( ) space newline 1 11 @{X1|nomn} @{X11|sing}, concatenated without separators; maps: ";
    for (auto& m : kMaps) res.alphabet += std::string(m.name) + " ";
    res.rule = "case = one string (canonical token sequence; re-bracketings X1·1=X11, 1·1=11, X1·11=X11·1, 1·11=11·1 spelling the same string are skipped), run through every entry point with every map; "
               "non-trivial = at least one map replaces >= 1 token / reference entity in it (pairs_nontrivial counts (string,map) pairs); "
               "states = distinct strings, transitions = individual comparisons against the model";
  } else { fprintf(stderr, "unknown mode\n"); return 2; }
  res.evaluations = res.rep.counters["evaluations"];
  res.distinct_nontrivial = res.rep.counters["nontrivial"];
  res.states = res.evaluations; res.transitions = res.rep.counters["checks"]; res.traces_validated = res.evaluations;
  res.exhaustive = !ri.deadline_hit && !ri.crash_cap_hit;
  res.assumptions = { "texts are well-formed UTF-8 built from the alphabet; references are flat, canonical single-tag entity references",
                      "TFFactory::GetTransition is treated as a black-box translator (its _ERROR suffix for unmapped short names is the requested new name); only its answers for mapped names are asserted",
                      "default TextProcessor (no inflection); resolved text compared with a fresh resolution of the expected raw text, not with a hand-written value",
                      "clang 14 + libstdc++ 12" };
  res.wall_s = now_s() - t0;
  res.write(opt.out.empty() ? "/dev/stdout" : opt.out);
  return 0;
}
