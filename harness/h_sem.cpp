// C03 (mode types), C01 (mode eval), C02 (mode sound): reference typing / value-class / evaluation semantics
// (model/rssem.hpp) against the real Auditor / Interpreter on a bounded-exhaustive space of expressions.
#include "engine/mc.hpp"
#include "model/rsast.hpp"
#include "model/rssem.hpp"
#include "model/rsgen.hpp"

#include "ccl/rslang/Auditor.h"
#include "ccl/rslang/Interpreter.h"
#include "ccl/rslang/Parser.h"
#include "ccl/rslang/StructuredData.h"

#include <exception>

using namespace mc;
using rsast::K; using rsast::Node; using rsast::mk; using rsast::mkidx; using rsast::leaf; using rsast::integer;
using rsast::Syn; using rsast::RenderOpt; using rsast::Paren;
using rssem::Ty; using rssem::ETy; using rssem::Val; using rssem::VClass;
namespace rl = ccl::rslang;
namespace ob = ccl::object;

namespace {

struct StopEnumeration {};

// ------------------------------------------------------------------------------------------------
// One description -> reference Context + implementation TypeContext / value-class / AST contexts
struct Setup {
  rssem::Context ref;
  std::map<std::string, std::string> defText;   // callable name -> MATH text of "F1:==[...] body"
};

rl::Typification toImpl(const Ty& t) {
  switch (t.kind) {
    case Ty::Base: return rl::Typification(t.name);
    case Ty::Tuple: { std::vector<rl::Typification> c; for (auto& x : t.comp) c.push_back(toImpl(x)); return rl::Typification::Tuple(c); }
    case Ty::Set: return toImpl(t.elem()).Bool();
  }
  return rl::Typification("?");
}

class ImplEnv final : public rl::TypeContext {
 public:
  struct G { std::optional<rl::ExpressionType> type; std::optional<rl::FunctionArguments> args; rl::ValueClass vc{ rl::ValueClass::value }; std::optional<rl::SyntaxTree> ast; };
  std::map<std::string, G> g;
  std::map<std::string, rl::TypeTraits> traits;

  explicit ImplEnv(const Setup& s) {
    for (auto& [name, gl] : s.ref.globals) {
      G x;
      if (gl.type) x.type = gl.type->logic ? rl::ExpressionType{ rl::LogicT{} } : rl::ExpressionType{ toImpl(gl.type->ty) };
      if (gl.args) { rl::FunctionArguments a; for (auto& [n, t] : *gl.args) a.emplace_back(n, toImpl(t)); x.args = a; }
      x.vc = gl.vclass == VClass::value ? rl::ValueClass::value : gl.vclass == VClass::props ? rl::ValueClass::props : rl::ValueClass::invalid;
      auto it = s.defText.find(name);
      if (it != s.defText.end()) { rl::Parser p; if (!p.Parse(it->second, rl::Syntax::MATH)) { fprintf(stderr, "HARNESS-ASSERT: definition of %s does not parse\n", name.c_str()); exit(2); } x.ast = p.AST(); }
      g[name] = std::move(x);
    }
    for (auto& [name, t] : s.ref.traits) traits[name] = rl::TypeTraits{ true, t.ordered, t.operable, t.fromInt };
  }
  const rl::ExpressionType* TypeFor(const std::string& n) const final { auto it = g.find(n); if (it == g.end() || !it->second.type) return nullptr; return &*it->second.type; }
  const rl::FunctionArguments* FunctionArgsFor(const std::string& n) const final { auto it = g.find(n); if (it == g.end() || !it->second.args) return nullptr; return &*it->second.args; }
  std::optional<rl::TypeTraits> TraitsFor(const rl::Typification& t) const final {
    if (!t.IsElement()) return std::nullopt;
    if (t == rl::Typification::Integer()) return rl::TraitsIntegral;
    auto it = traits.find(t.E().baseID); if (it == traits.end()) return std::nullopt; return it->second;
  }
  rl::ValueClassContext vclass() const { return [this](const std::string& n) { auto it = g.find(n); return it == g.end() ? rl::ValueClass::invalid : it->second.vc; }; }
  rl::SyntaxTreeContext asts() const { return [this](const std::string& n) -> const rl::SyntaxTree* { auto it = g.find(n); if (it == g.end() || !it->second.ast) return nullptr; return &*it->second.ast; }; }
};

Setup makeSetup() {
  Setup s; auto& G = s.ref.globals;
  auto base = [&](const std::string& n) { rssem::Global g; g.type = ETy::T(Ty::set(Ty::base(n))); G[n] = g; };
  auto term = [&](const std::string& n, Ty t, VClass vc = VClass::value) { rssem::Global g; g.type = ETy::T(std::move(t)); g.vclass = vc; G[n] = g; };
  const Ty X1 = Ty::base("X1"), C1 = Ty::base("C1");
  base("X1"); base("X2"); base("C1");
  s.ref.traits["X1"] = {}; s.ref.traits["X2"] = {}; s.ref.traits["C1"] = rssem::Traits{ true, true, true };
  term("S1", Ty::set(Ty::tuple({ X1, X1 })));
  term("S2", Ty::set(Ty::set(X1)));
  term("S3", Ty::set(Ty::tuple({ C1, X1 })));
  term("S4", Ty::set(Ty::tuple({ X1, Ty::set(X1) })));
  term("D1", Ty::set(X1));
  term("D2", X1);
  term("D3", Ty::integer());
  term("D4", Ty::set(Ty::set(X1)), VClass::props);   // a property-class term, e.g. defined as ℬ(X1)
  { rssem::Global g; g.type = ETy::L(); G["A1"] = g; }
  // a second integral constant set and element-typed terms of both (only used by the traits family of the type-checker mode)
  base("C2"); s.ref.traits["C2"] = rssem::Traits{ true, true, true };
  term("D5", C1); term("D6", Ty::base("C2"));
  // F1[a∈ℬ(R1)] := a∪a  : ℬ(R1)
  { rssem::Global g; g.type = ETy::T(Ty::set(Ty::base("R1"))); g.args = { { "a", Ty::set(Ty::base("R1")) } };
    g.definition = mk(K::FuncDef, { mk(K::Arguments, { mk(K::ArgDecl, { leaf(K::Local, "a"), mk(K::Boolean, { leaf(K::Radical, "R1") }) }) }), mk(K::Union, { leaf(K::Local, "a"), leaf(K::Local, "a") }) });
    G["F1"] = g; s.defText["F1"] = "F1:==[a\xE2\x88\x88\xE2\x84\xAC(R1)] a\xE2\x88\xAA" "a"; }
  // F2[a∈X1, b∈ℬ(X1)] := D{c∈b | c≠a}  : ℬ(X1)     (callee locals a,b,c collide with the caller's canonical names)
  { rssem::Global g; g.type = ETy::T(Ty::set(X1)); g.args = { { "a", X1 }, { "b", Ty::set(X1) } };
    g.definition = mk(K::FuncDef, { mk(K::Arguments, { mk(K::ArgDecl, { leaf(K::Local, "a"), leaf(K::Global, "X1") }), mk(K::ArgDecl, { leaf(K::Local, "b"), mk(K::Boolean, { leaf(K::Global, "X1") }) }) }),
                                    mk(K::Declarative, { leaf(K::Local, "c"), leaf(K::Local, "b"), mk(K::Ne, { leaf(K::Local, "c"), leaf(K::Local, "a") }) }) });
    G["F2"] = g; s.defText["F2"] = "F2:==[a\xE2\x88\x88X1, b\xE2\x88\x88\xE2\x84\xAC(X1)] D{c\xE2\x88\x88" "b | c\xE2\x89\xA0" "a}"; }
  // F3[a∈R1×R2] := pr2(a) : R2      (template parameters inside a tuple-shaped parameter)
  { rssem::Global g; g.type = ETy::T(Ty::base("R2")); g.args = { { "a", Ty::tuple({ Ty::base("R1"), Ty::base("R2") }) } };
    g.definition = mk(K::FuncDef, { mk(K::Arguments, { mk(K::ArgDecl, { leaf(K::Local, "a"), mk(K::Decart, { leaf(K::Radical, "R1"), leaf(K::Radical, "R2") }) }) }), mkidx(K::SmallPr, { 2 }, { leaf(K::Local, "a") }) });
    G["F3"] = g; s.defText["F3"] = "F3:==[a\xE2\x88\x88R1\xC3\x97R2] pr2(a)"; }
  // F4[a∈ℬ(R1×R2)] := Pr2,1(a) : ℬ(R2×R1)   (converse of a relation)
  { rssem::Global g; g.type = ETy::T(Ty::set(Ty::tuple({ Ty::base("R2"), Ty::base("R1") }))); g.args = { { "a", Ty::set(Ty::tuple({ Ty::base("R1"), Ty::base("R2") })) } };
    g.definition = mk(K::FuncDef, { mk(K::Arguments, { mk(K::ArgDecl, { leaf(K::Local, "a"), mk(K::Boolean, { mk(K::Decart, { leaf(K::Radical, "R1"), leaf(K::Radical, "R2") }) }) }) }), mkidx(K::BigPr, { 2, 1 }, { leaf(K::Local, "a") }) });
    G["F4"] = g; s.defText["F4"] = "F4:==[a\xE2\x88\x88\xE2\x84\xAC(R1\xC3\x97R2)] Pr2,1(a)"; }
  // P1[a∈X1] := a∈D1 : LOGIC
  { rssem::Global g; g.type = ETy::L(); g.args = { { "a", X1 } };
    g.definition = mk(K::FuncDef, { mk(K::Arguments, { mk(K::ArgDecl, { leaf(K::Local, "a"), leaf(K::Global, "X1") }) }), mk(K::In, { leaf(K::Local, "a"), leaf(K::Global, "D1") }) });
    G["P1"] = g; s.defText["P1"] = "P1:==[a\xE2\x88\x88X1] a\xE2\x88\x88" "D1"; }
  // callables whose BODY ROOT is itself a construct the normaliser rewrites (added after a round-8 seed); only called from curated texts
  const Ty PX = Ty::set(Ty::tuple({ X1, X1 }));
  auto argPairs = [&] { return mk(K::Arguments, { mk(K::ArgDecl, { leaf(K::Local, "a"), mk(K::Boolean, { mk(K::Decart, { leaf(K::Global, "X1"), leaf(K::Global, "X1") }) }) }) }); };
  auto argSet = [&] { return mk(K::Arguments, { mk(K::ArgDecl, { leaf(K::Local, "a"), mk(K::Boolean, { leaf(K::Global, "X1") }) }) }); };
  const Node bc = mk(K::TupleDecl, { leaf(K::Local, "b"), leaf(K::Local, "c") });
  // F5[a∈ℬ(X1×X1)] := D{(b,c)∈a | b=c}
  { rssem::Global g; g.type = ETy::T(PX); g.args = { { "a", PX } };
    g.definition = mk(K::FuncDef, { argPairs(), mk(K::Declarative, { bc, leaf(K::Local, "a"), mk(K::Eq, { leaf(K::Local, "b"), leaf(K::Local, "c") }) }) });
    G["F5"] = g; s.defText["F5"] = "F5:==[a\xE2\x88\x88\xE2\x84\xAC(X1\xC3\x97X1)] D{(b,c)\xE2\x88\x88" "a | b=c}"; }
  // F6[a∈ℬ(X1)] := F1[a]     (a call of another function at the root)
  { rssem::Global g; g.type = ETy::T(Ty::set(X1)); g.args = { { "a", Ty::set(X1) } };
    g.definition = mk(K::FuncDef, { argSet(), mk(K::FuncCall, { leaf(K::Function, "F1"), leaf(K::Local, "a") }) });
    G["F6"] = g; s.defText["F6"] = "F6:==[a\xE2\x88\x88\xE2\x84\xAC(X1)] F1[a]"; }
  // F7[a∈ℬ(X1×X1)] := I{(b,c) | (b,c):∈a; b≠c}
  { rssem::Global g; g.type = ETy::T(PX); g.args = { { "a", PX } };
    g.definition = mk(K::FuncDef, { argPairs(), mk(K::Imperative, { mk(K::Tuple, { leaf(K::Local, "b"), leaf(K::Local, "c") }), mk(K::Iterate, { bc, leaf(K::Local, "a") }), mk(K::Ne, { leaf(K::Local, "b"), leaf(K::Local, "c") }) }) });
    G["F7"] = g; s.defText["F7"] = "F7:==[a\xE2\x88\x88\xE2\x84\xAC(X1\xC3\x97X1)] I{(b,c) | (b,c):\xE2\x88\x88" "a; b\xE2\x89\xA0" "c}"; }
  // P2[a∈ℬ(X1×X1)] := ∀(b,c)∈a b=c
  { rssem::Global g; g.type = ETy::L(); g.args = { { "a", PX } };
    g.definition = mk(K::FuncDef, { argPairs(), mk(K::Forall, { bc, leaf(K::Local, "a"), mk(K::Eq, { leaf(K::Local, "b"), leaf(K::Local, "c") }) }) });
    G["P2"] = g; s.defText["P2"] = "P2:==[a\xE2\x88\x88\xE2\x84\xAC(X1\xC3\x97X1)] \xE2\x88\x80(b,c)\xE2\x88\x88" "a b=c"; }
  // P3[a∈ℬ(X1)] := ∀b,c∈a b=c
  { rssem::Global g; g.type = ETy::L(); g.args = { { "a", Ty::set(X1) } };
    g.definition = mk(K::FuncDef, { argSet(), mk(K::Forall, { mk(K::EnumDecl, { leaf(K::Local, "b"), leaf(K::Local, "c") }), leaf(K::Local, "a"), mk(K::Eq, { leaf(K::Local, "b"), leaf(K::Local, "c") }) }) });
    G["P3"] = g; s.defText["P3"] = "P3:==[a\xE2\x88\x88\xE2\x84\xAC(X1)] \xE2\x88\x80" "b,c\xE2\x88\x88" "a b=c"; }
  return s;
}

std::vector<Node> leafPool(bool forEval) {
  std::vector<Node> l;
  for (const char* g : { "X1", "S1", "S2", "S4", "D1", "D2", "C1", "D3" }) l.push_back(leaf(K::Global, g));
  l.push_back(integer(1)); l.push_back(integer(2));
  { Node e; e.k = K::EmptySet; l.push_back(e); }
  if (!forEval) {
    { Node z; z.k = K::IntSet; l.push_back(z); }
    for (const char* g : { "X2", "S3", "A1", "D4", "X9" }) l.push_back(leaf(K::Global, g));   // X9: missing; A1: LOGIC-typed
    l.push_back(leaf(K::Function, "F1")); l.push_back(leaf(K::Local, "x"));                    // callable without args; undeclared local
    l.push_back(leaf(K::Radical, "R1"));
  }
  return l;
}

std::string typeString(const rl::ExpressionType& t) { return std::holds_alternative<rl::LogicT>(t) ? "LOGIC" : std::get<rl::Typification>(t).ToString(); }
int cps(const std::string& s) { int n = 0; for (unsigned char ch : s) if ((ch & 0xC0) != 0x80) ++n; return n; }

// extra closed expressions: function definitions and global declarations over the generated pools (streamed)
template <class Sink>
void streamDefinitions(const rsgen::Generator& gen, Sink&& consider) {
  const rsgen::Env none;
  auto l0 = gen.level0(none);
  std::vector<Node> doms; for (auto& t : l0.S) doms.push_back(t.node);
  doms.push_back(leaf(K::Radical, "R1")); doms.push_back(mk(K::Boolean, { leaf(K::Radical, "R1") })); doms.push_back(mk(K::Decart, { leaf(K::Radical, "R1"), leaf(K::Radical, "R2") })); doms.push_back(mk(K::Boolean, { leaf(K::Global, "X1") }));
  std::vector<Node> someBodies;
  for (auto& d : doms) {
    rssem::Typer t(gen.ctx); auto r = t.check(mk(K::FuncDef, { mk(K::Arguments, { mk(K::ArgDecl, { leaf(K::Local, "a"), d }) }), leaf(K::Local, "a") }));
    if (!r.ok) { consider(mk(K::FuncDef, { mk(K::Arguments, { mk(K::ArgDecl, { leaf(K::Local, "a"), d }) }), leaf(K::Local, "a") })); continue; }
    rsgen::Env e; e.emplace_back("a", r.args[0].second);
    auto body = gen.bodies(e, 1);
    std::vector<Node> bs; for (auto& x : body.S) bs.push_back(x.node); for (auto& x : body.L) bs.push_back(x.node);
    for (auto& b : bs) consider(mk(K::FuncDef, { mk(K::Arguments, { mk(K::ArgDecl, { leaf(K::Local, "a"), d }) }), b }));
    consider(mk(K::FuncDef, { mk(K::Arguments, { mk(K::ArgDecl, { leaf(K::Local, "a"), d }), mk(K::ArgDecl, { leaf(K::Local, "b"), leaf(K::Global, "X1") }) }), mk(K::Tuple, { leaf(K::Local, "a"), leaf(K::Local, "b") }) }));
    consider(mk(K::FuncDef, { mk(K::Arguments, { mk(K::ArgDecl, { leaf(K::Local, "a"), d }), mk(K::ArgDecl, { leaf(K::Local, "b"), leaf(K::Local, "a") }) }), leaf(K::Local, "b") }));
    consider(mk(K::FuncDef, { mk(K::Arguments, { mk(K::ArgDecl, { leaf(K::Local, "a"), d }), mk(K::ArgDecl, { leaf(K::Local, "a"), d }) }), leaf(K::Local, "a") }));   // duplicate parameter
  }
  // global declarations over the closed depth-1 pool
  { auto l1 = gen.over(none, l0.S, l0.L, 1);
    size_t k = 0; for (auto& t : l1.ok) if (k++ % 7 == 0) { consider(mk(K::Define, { leaf(K::Global, "D9"), t.node })); consider(mk(K::Struct, { leaf(K::Global, "S9"), t.node })); }
    k = 0; for (auto& n : l1.bad) if (k++ % 97 == 0) consider(mk(K::Define, { leaf(K::Global, "D9"), n })); }
  consider(mk(K::Define, { leaf(K::Global, "X7") }));
  for (auto& n : std::vector<Node>{ mk(K::Boolean, { leaf(K::Global, "X1") }), mk(K::Decart, { leaf(K::Global, "X1"), mk(K::Boolean, { leaf(K::Global, "X1") }) }), leaf(K::Global, "D2"), leaf(K::Global, "X1"), mk(K::Enumeration, { leaf(K::Global, "X1") }), mk(K::Union, { leaf(K::Global, "X1"), leaf(K::Global, "X1") }), mk(K::Boolean, { leaf(K::Global, "D2") }) })
    consider(mk(K::Struct, { leaf(K::Global, "S9"), n }));
}

bool hasRadical(const Ty& t) { if (t.kind == Ty::Base) return rssem::isRadicalName(t.name); for (auto& c : t.comp) if (hasRadical(c)) return true; return false; }
bool containsCall(const Node& n) { if (n.k == K::FuncCall) return true; for (auto& c : n.ch) if (containsCall(c)) return true; return false; }

// ------------------------------------------------------------------------------------------------
// C03
std::vector<Node> arityFamily(); std::vector<Node> enumFamily(); std::vector<Node> siblingFamily(); std::vector<Node> vclassFamily(); std::vector<Node> recursionFamily(); std::vector<Node> traitsFamily(); std::vector<Node> curated();
void run_types(Ctx& c, const Setup& setup, const rsgen::Generator& gen, int depth) {
  ImplEnv env(setup);
  uint64_t i = 0;
  auto one = [&](Node&& Tn) {
    ++i;
    if (c.stop()) throw StopEnumeration{};
    if (!c.take()) return;
    const Node& T = Tn;
    const std::string d = rsast::dump(T);
    c.begin(d);
    // narrowing (DESIGN C03): a LOGIC-typed global standing alone as the whole expression (or as the whole right-hand side of
    // a declaration) is neither documented as a formula nor as an error upstream - not asserted
    { const Node* core = &T; if (core->k == K::Define && core->ch.size() == 2) core = &core->ch[1];
      if (core->ch.empty() && (core->k == K::Global || core->k == K::Function || core->k == K::Predicate)) { auto it = setup.ref.globals.find(core->text); if (it != setup.ref.globals.end() && it->second.type && it->second.type->logic && !it->second.args) { c.rep.count("unasserted_logic_global_at_root"); c.done(); return; } } }
    rssem::Typer typer(setup.ref); const auto mr = typer.check(T);
    const bool modelOk = mr.ok;
    rssem::Valuer valuer(setup.ref); const VClass mv = modelOk ? valuer.check(T) : VClass::invalid;
    for (Syn syn : { Syn::MATH, Syn::ASCII }) {
      RenderOpt o; o.syn = syn; const std::string text = rsast::render(T, o).text;
      const std::string sname = syn == Syn::MATH ? "MATH" : "ASCII";
      rl::Auditor a(env, env.vclass(), env.asts());
      bool implOk = false; bool threw = false; std::string what;
      try { implOk = a.CheckType(text, syn == Syn::MATH ? rl::Syntax::MATH : rl::Syntax::ASCII); }
      catch (const std::exception& e) { threw = true; what = e.what(); }
      c.rep.count("checks");
      if (threw) { c.fail("C03:exception-escapes-checker", sname + " CheckType threw " + what + " on: " + text, "exception", modelOk ? mr.type.str() : "rejection with a critical error"); continue; }
      if (!a.isParsed) { c.fail("C03:rendered-text-does-not-parse", sname + ": " + text); continue; }
      if (implOk != modelOk) {
        c.fail(std::string("C03:verdict:") + (modelOk ? "model-accepts-impl-rejects" : "model-rejects-impl-accepts") + ":" + rsast::nodeLabel(T), sname + ": " + text + (modelOk ? "" : "   model: " + mr.why),
               implOk ? "accepted as " + typeString(a.GetType()) : "rejected", modelOk ? "accepted as " + mr.type.str() : "rejected");
        continue;
      }
      if (implOk) {
        const std::string it = typeString(a.GetType());
        // narrowing: a template parameter that stays unbound because the actual argument is any-typed (element of ∅) has no documented instantiation
        const bool unboundRadical = !mr.type.logic && hasRadical(mr.type.ty) && containsCall(T);
        if (unboundRadical) c.rep.count("unasserted_unbound_radical");
        else if (it != mr.type.str()) c.fail("C03:type:" + rsast::nodeLabel(T), sname + ": " + text, it, mr.type.str());
        const auto& args = a.GetDeclarationArgs();
        bool same = args.size() == mr.args.size();
        for (size_t k = 0; same && k < args.size(); ++k) same = args[k].name == mr.args[k].first && args[k].type.ToString() == mr.args[k].second.str();
        if (!same) { std::string ia, ma; for (auto& x : args) ia += x.name + ":" + x.type.ToString() + " "; for (auto& x : mr.args) ma += x.first + ":" + x.second.str() + " "; c.fail("C03:declared-args", sname + ": " + text, ia, ma); }
        bool vok = false; try { vok = a.CheckValue(); } catch (const std::exception& e) { c.fail("C03:exception-escapes-value-audit", sname + " CheckValue threw on: " + text); }
        const auto ivc = a.GetValueClass();
        const VClass iv = ivc == rl::ValueClass::value ? VClass::value : ivc == rl::ValueClass::props ? VClass::props : VClass::invalid;
        if ((iv != VClass::invalid) != vok) c.fail("C03:valueclass-verdict-mismatch", sname + ": " + text);
        if (iv != mv) c.fail("C03:valueclass:" + rsast::nodeLabel(T), sname + ": " + text, iv == VClass::value ? "value" : iv == VClass::props ? "props" : "invalid", mv == VClass::value ? "value" : mv == VClass::props ? "props" : "invalid");
        if (!vok && !a.Errors().HasCriticalErrors()) c.fail("C03:value-audit-silent-reject", sname + ": " + text);
      } else {
        // rejected: at least one critical error whose position lies inside the expression
        const int len = syn == Syn::MATH ? cps(text) : static_cast<int>(text.size());
        bool critical = false;
        for (auto& e : a.Errors().All()) { if (e.IsCritical()) critical = true; if (e.position < 0 || e.position > len) c.fail("C03:error-position-outside", sname + ": " + text, std::to_string(e.position), "0.." + std::to_string(len)); }
        if (!critical) c.fail("C03:silent-reject:" + rsast::nodeLabel(T), sname + " rejected without a critical error: " + text);
      }
    }
    c.rep.count("evaluations");
    if (modelOk) c.rep.count("nontrivial");   // well-typed: type, args and value class were all compared
    c.rep.outcome(modelOk ? "accept:" + mr.type.str() : "reject");
    if (i % 7919 == 5) c.rep.sample(rsast::render(T, RenderOpt{}).text + (modelOk ? "  :  " + mr.type.str() : "  :  ill-typed (" + mr.why + ")"));
    c.done();
  };
  try { for (auto& n : arityFamily()) one(Node(n)); for (auto& n : enumFamily()) one(Node(n)); for (auto& n : siblingFamily()) one(Node(n)); for (auto& n : vclassFamily()) one(Node(n)); for (auto& n : recursionFamily()) one(Node(n)); for (auto& n : traitsFamily()) one(Node(n)); for (auto& n : curated()) one(Node(n)); gen.scopeSkeletons(static_cast<int>(c.opt->num("scopebudget", 6)), one); gen.closedStream(depth, one); gen.imperativeChains(one, 2); streamDefinitions(gen, one); } catch (const StopEnumeration&) {}
}


// ------------------------------------------------------------------------------------------------
// C01 / C02: evaluation
Ty fromImpl(const rl::Typification& t) {
  if (t.IsElement()) return Ty::base(t.E().baseID);
  if (t.IsCollection()) return Ty::set(fromImpl(t.B().Base()));
  std::vector<Ty> c; for (auto& x : t.T()) c.push_back(fromImpl(x)); return Ty::tuple(c);
}
ob::StructuredData toImplData(const Val& v) {
  switch (v.kind) {
    case Val::Int: return ob::Factory::Val(static_cast<ob::DataID>(v.i));
    case Val::Tuple: { std::vector<ob::StructuredData> c; for (auto& x : v.items) c.push_back(toImplData(x)); return ob::Factory::Tuple(c); }
    case Val::Set: { std::vector<ob::StructuredData> c; for (auto it = v.items.rbegin(); it != v.items.rend(); ++it) c.push_back(toImplData(*it)); return ob::Factory::Set(c); }   // inserted in reverse order on purpose
  }
  return ob::Factory::EmptySet();
}
bool fromImplData(const ob::StructuredData& d, Val& out, int depth = 0) {
  if (depth > 12) return false;
  if (d.IsElement()) { out = Val::integer(d.E().Value()); return true; }
  if (d.IsTuple()) { std::vector<Val> c; for (rl::Index i = 1; i <= d.T().Arity(); ++i) { Val x; if (!fromImplData(d.T().Component(i), x, depth + 1)) return false; c.push_back(x); } out.kind = Val::Tuple; out.i = 0; out.items = c; return true; }
  std::vector<Val> c; size_t n = 0;
  for (const auto& e : d.B()) { Val x; if (!fromImplData(e, x, depth + 1)) return false; c.push_back(x); if (++n > 70000) return false; }
  const size_t raw = c.size(); out = Val::set(c);
  return raw == out.items.size() && static_cast<size_t>(d.B().Cardinality()) == raw;   // iteration yields each element once; cardinality agrees
}

void mentioned(const Node& n, const rssem::Context& ctx, std::set<std::string>& out) {
  if (n.k == K::Global || n.k == K::Function || n.k == K::Predicate) {
    if (out.insert(n.text).second) { auto it = ctx.globals.find(n.text); if (it != ctx.globals.end() && it->second.definition) mentioned(*it->second.definition, ctx, out); }
  }
  for (auto& c : n.ch) mentioned(c, ctx, out);
}

std::vector<Val> subsetsOf(const std::vector<Val>& u) { std::vector<Val> r; for (size_t m = 0; m < (size_t{ 1 } << u.size()); ++m) { std::vector<Val> s; for (size_t i = 0; i < u.size(); ++i) if (m & (size_t{ 1 } << i)) s.push_back(u[i]); r.push_back(Val::set(s)); } return r; }

// all interpretations of the globals a term mentions (carrier sets forced to agree); lazy: which globals get a lazy representation
struct Interp { rssem::Data data; std::map<std::string, ob::StructuredData> lazy; };
void interpretations(const std::set<std::string>& names, int maxBase, bool fullProduct, const std::function<void(const Interp&)>& fn) {
  std::vector<std::vector<Val>> bases;   // candidate X1 values
  { std::vector<Val> e; bases.push_back(e); for (int n = 1; n <= maxBase; ++n) { e.push_back(Val::integer(n)); bases.push_back(e); } }
  const bool varyX1 = names.count("X1") != 0;
  for (size_t bi = 0; bi < bases.size(); ++bi) {
    if (!varyX1 && bi + 1 != bases.size() && bi != 0) continue;    // carrier not mentioned: only the empty and the full carrier
    const auto& x1 = bases[bi];
    if (names.count("D2") && x1.empty()) continue;                 // an element-typed term needs an element
    std::vector<std::pair<std::string, std::vector<Val>>> dims;
    std::vector<Val> pairs; for (auto& a : x1) for (auto& b : x1) pairs.push_back(Val::tuple({ a, b }));
    if (names.count("S1")) dims.push_back({ "S1", subsetsOf(pairs) });
    if (names.count("S2")) dims.push_back({ "S2", subsetsOf(subsetsOf(x1)) });
    if (names.count("S4")) { std::vector<Val> u; const auto subs = subsetsOf(x1);   // S4 ⊆ X1×ℬ(X1): all subsets of a 4-element sub-universe
      for (size_t i = 0; i < x1.size(); ++i) { u.push_back(Val::tuple({ x1[i], subs.front() })); u.push_back(Val::tuple({ x1[i], subs.back() })); }
      if (u.size() > 4) u.resize(4);
      dims.push_back({ "S4", subsetsOf(u) }); }
    if (names.count("D1")) dims.push_back({ "D1", subsetsOf(x1) });
    if (names.count("D2")) dims.push_back({ "D2", x1 });
    if (names.count("D3")) dims.push_back({ "D3", { Val::integer(0), Val::integer(2) } });
    if (names.count("C1")) dims.push_back({ "C1", { Val::set({ Val::integer(1), Val::integer(2) }), Val::set({}) } });
    std::vector<size_t> at(dims.size(), 0);
    size_t product = 1; for (auto& d : dims) product *= d.second.size();
    const bool bounded = !fullProduct && product > 64;   // deviation bound 1: one global varies over ALL its values, the others hold their last (fullest) value; plus all-first
    for (;;) {
      if (bounded) { size_t dev = 0; bool allFirst = true; for (size_t d = 0; d < dims.size(); ++d) { if (at[d] + 1 != dims[d].second.size()) ++dev; if (at[d] != 0) allFirst = false; }
        if (dev > 1 && !allFirst) { size_t d = 0; while (d < dims.size() && ++at[d] == dims[d].second.size()) { at[d] = 0; ++d; } if (d == dims.size()) break; continue; } }
      Interp in; in.data.globals["X1"] = Val::set(x1);
      for (size_t d = 0; d < dims.size(); ++d) in.data.globals[dims[d].first] = dims[d].second[at[d]];
      // lazy representations where the value happens to be a full power set / product
      if (names.count("S2") && in.data.globals["S2"] == Val::set(subsetsOf(x1))) in.lazy.emplace("S2", ob::Factory::Boolean(toImplData(Val::set(x1))));
      if (names.count("S1") && !x1.empty() && in.data.globals["S1"] == Val::set(pairs)) in.lazy.emplace("S1", ob::Factory::Decartian({ toImplData(Val::set(x1)), toImplData(Val::set(x1)) }));
      fn(in);
      size_t d = 0; while (d < dims.size() && ++at[d] == dims[d].second.size()) { at[d] = 0; ++d; }
      if (d == dims.size()) break;
    }
  }
}

// ---- curated expressions (one per shortcut visible in normaliser / interpreter; DESIGN C01 "explicitly") ----------
// Texts are turned into abstract trees with the implementation's parser (validated against the abstract syntax by C06).
K kindOf(rl::TokenID id) {
  using T = rl::TokenID;
  switch (id) {
    case T::ID_LOCAL: return K::Local; case T::ID_GLOBAL: return K::Global; case T::ID_FUNCTION: return K::Function; case T::ID_PREDICATE: return K::Predicate; case T::ID_RADICAL: return K::Radical;
    case T::LIT_INTEGER: return K::Int; case T::LIT_INTSET: return K::IntSet; case T::LIT_EMPTYSET: return K::EmptySet;
    case T::PLUS: return K::Plus; case T::MINUS: return K::Minus; case T::MULTIPLY: return K::Mult;
    case T::GREATER: return K::Gr; case T::LESSER: return K::Ls; case T::GREATER_OR_EQ: return K::Ge; case T::LESSER_OR_EQ: return K::Le; case T::EQUAL: return K::Eq; case T::NOTEQUAL: return K::Ne;
    case T::FORALL: return K::Forall; case T::EXISTS: return K::Exists; case T::NOT: return K::Not; case T::EQUIVALENT: return K::Equiv; case T::IMPLICATION: return K::Impl; case T::OR: return K::Or; case T::AND: return K::And;
    case T::IN: return K::In; case T::NOTIN: return K::NotIn; case T::SUBSET: return K::Subset; case T::SUBSET_OR_EQ: return K::SubsetEq; case T::NOTSUBSET: return K::NotSubset;
    case T::DECART: return K::Decart; case T::UNION: return K::Union; case T::INTERSECTION: return K::Intersect; case T::SET_MINUS: return K::SetMinus; case T::SYMMINUS: return K::SymMinus; case T::BOOLEAN: return K::Boolean;
    case T::BIGPR: return K::BigPr; case T::SMALLPR: return K::SmallPr; case T::FILTER: return K::Filter; case T::CARD: return K::Card; case T::BOOL: return K::Bool; case T::DEBOOL: return K::Debool; case T::REDUCE: return K::Reduce;
    case T::ITERATE: return K::Iterate; case T::ASSIGN: return K::Assign;
    case T::NT_ENUM_DECL: return K::EnumDecl; case T::NT_TUPLE: return K::Tuple; case T::NT_ENUMERATION: return K::Enumeration; case T::NT_TUPLE_DECL: return K::TupleDecl; case T::NT_ARG_DECL: return K::ArgDecl;
    case T::NT_FUNC_DEFINITION: return K::FuncDef; case T::NT_ARGUMENTS: return K::Arguments; case T::NT_FUNC_CALL: return K::FuncCall; case T::NT_DECLARATIVE_EXPR: return K::Declarative;
    case T::NT_IMPERATIVE_EXPR: return K::Imperative; case T::NT_RECURSIVE_FULL: return K::RecFull; case T::NT_RECURSIVE_SHORT: return K::RecShort; case T::PUNC_DEFINE: return K::Define; case T::PUNC_STRUCT: return K::Struct;
    default: fprintf(stderr, "HARNESS-ASSERT: unexpected token in curated tree\n"); exit(2);
  }
}
Node fromImplTree(rl::SyntaxTree::Cursor cur) {
  Node n; n.k = kindOf(cur->id);
  if (cur->data.IsText()) n.text = cur->data.ToText();
  if (cur->data.IsInt()) n.ival = cur->data.ToInt();
  if (cur->data.IsTuple()) for (auto i : cur->data.ToTuple()) n.idx.push_back(i);
  for (rl::Index i = 0; i < cur.ChildrenCount(); ++i) n.ch.push_back(fromImplTree(cur.Child(i)));
  return n;
}
std::vector<Node> curated() {
  static const char* texts[] = {
    // tuple patterns whose variable names concatenate to the same string
    "D{(a,bc)\xE2\x88\x88S1 | \xE2\x88\x83(ab,c)\xE2\x88\x88S1 ab\xE2\x89\xA0" "a}",
    "\xE2\x88\x80(a,bc)\xE2\x88\x88S1 \xE2\x88\x83(ab,c)\xE2\x88\x88S1 (ab=bc & a=c)",
    "D{(a,b)\xE2\x88\x88S1 | \xE2\x88\x83(b1,a1)\xE2\x88\x88S1 (a=a1 & b=b1)}",
    // tuple pattern inside an enumerated declaration, enumerated declarations
    "\xE2\x88\x80(a,b),c\xE2\x88\x88S1 pr1(c)=a",
    "\xE2\x88\x83" "c,(a,b)\xE2\x88\x88S1 pr2(c)\xE2\x89\xA0" "b",
    "\xE2\x88\x80" "a,b,c\xE2\x88\x88X1 (a=b \xE2\x88\xA8 b=c \xE2\x88\xA8 a=c)",
    "\xE2\x88\x83" "a,b\xE2\x88\x88X1 a\xE2\x89\xA0" "b",
    // nested tuple patterns
    "\xE2\x88\x80((a,b),c)\xE2\x88\x88S1\xC3\x97X1 (a=c \xE2\x88\xA8 b=c)",
    "D{(a,(b,c))\xE2\x88\x88X1\xC3\x97S1 | a=b & b\xE2\x89\xA0" "c}",
    // function inlining: callee locals collide with caller's bound variables
    "D{c\xE2\x88\x88X1 | F2[c, D1]=D1}",
    "\xE2\x88\x80" "a\xE2\x88\x88X1 F2[a, X1]\xE2\x8A\x86X1",
    "D{b\xE2\x88\x88X1 | \xE2\x88\x83" "a\xE2\x88\x88X1 F2[a, {a, b}]={b}}",
    "F2[D2, F2[D2, X1]]",
    "F1[F1[D1]]\\F2[D2, D1]",
    "\xE2\x88\x80" "a\xE2\x88\x88X1 (P1[a] \xE2\x87\x94 a\xE2\x88\x88" "D1)",
    "I{(a, F2[a, D1]) | a:\xE2\x88\x88X1}",
    // imperative: tuple iterate / assign, guards between blocks
    "I{a | (a,b):\xE2\x88\x88S1; a\xE2\x89\xA0" "b}",
    "I{(b,c) | a:\xE2\x88\x88X1; (b,c):=(a,a)}",
    "I{(a,b) | a:\xE2\x88\x88X1; b:\xE2\x88\x88X1; a\xE2\x89\xA0" "b}",
    "I{(a,c) | a:\xE2\x88\x88X1; a\xE2\x88\x88" "D1; c:=card(D1)}",
    "I{a | a:\xE2\x88\x88X1; b:=a; b\xE2\x88\x88" "D1}",
    // recursion needing several rounds (reachability closure), with condition, with tuple pattern
    "R{a:=D1 | a\xE2\x88\xAAPr2(Fi1[a](S1))}",
    "R{a:=D1 | card(a)<2 | a\xE2\x88\xAAPr2(Fi1[a](S1))}",
    "R{(a,b):=(D1,D1) | (a\xE2\x88\xAA" "b, a\xE2\x88\xA9" "b)}",
    "R{a:=0 | a<3 | a+1}",
    // short circuit with an erroring right operand; debool of 0/1/2-element sets
    "D3<1 \xE2\x88\xA8 debool(D1)\xE2\x88\x88" "D1",
    "D3<1 & debool(D1)\xE2\x88\x88" "D1",
    "D3<1 \xE2\x87\x92 debool(D1)\xE2\x88\x88" "D1",
    "debool(D1)",
    "\xE2\x88\x83" "a\xE2\x88\x88S2 debool(a)\xE2\x88\x88" "D1",
    // lazy power set iterated by two nested binders over the same object
    "\xE2\x88\x80" "a\xE2\x88\x88\xE2\x84\xAC(X1) \xE2\x88\x80" "b\xE2\x88\x88\xE2\x84\xAC(X1) a\xE2\x88\xAA" "b\xE2\x88\x88\xE2\x84\xAC(X1)",
    "\xE2\x88\x80" "a\xE2\x88\x88S2 \xE2\x88\x80" "b\xE2\x88\x88S2 (a\xE2\x88\xA9" "b\xE2\x88\x88S2 \xE2\x88\xA8 a=b \xE2\x88\xA8 a\xE2\x89\xA0" "b)",
    "D{a\xE2\x88\x88S2 | \xE2\x88\x83" "b\xE2\x88\x88S2 (a\xE2\x8A\x82" "b)}",
    "card(\xE2\x84\xAC(X1\xC3\x97X1))",
    "\xE2\x84\xAC(X1)\\S2",
    "S1\xE2\x88\x86(X1\xC3\x97X1)",
    "D{a\xE2\x88\x88X1\xC3\x97X1 | a\xE2\x88\x89S1}",
    // set operations with a LAZY operand (product / power set built by the expression itself) and elements outside it
    "(D1\xC3\x97" "D1)\xE2\x88\xAAS1", "S1\xE2\x88\xAA(D1\xC3\x97" "D1)", "\xE2\x84\xAC(D1)\xE2\x88\xAAS2", "S2\xE2\x88\xAA\xE2\x84\xAC(D1)",
    "(D1\xC3\x97" "D1)\xE2\x88\x86S1", "S1\\(D1\xC3\x97" "D1)", "(D1\xC3\x97" "D1)\\S1", "(D1\xC3\x97" "D1)\xE2\x88\xA9S1", "S2\xE2\x88\xA9\xE2\x84\xAC(D1)", "\xE2\x84\xAC(D1)\\S2", "S2\xE2\x88\x86\xE2\x84\xAC(D1)",
    "S1\xE2\x8A\x86" "D1\xC3\x97" "D1", "D1\xC3\x97" "D1\xE2\x8A\x86S1", "\xE2\x84\xAC(D1)\xE2\x8A\x82S2", "card((D1\xC3\x97" "D1)\xE2\x88\xAAS1)", "R{a:=D1\xC3\x97" "D1 | a\xE2\x88\xAAS1}", "red(\xE2\x84\xAC(D1)\xE2\x88\xAAS2)", "Pr1((D1\xC3\x97X1)\xE2\x88\xAAS1)",
    // sets of sets mixing lazy and enumerated representations of their members (the inner order must not depend on representation)
    "D{a\xE2\x88\x88X1\xC3\x97" "D1 | 1=1}\xE2\x88\x88{X1\xC3\x97" "D1, D1\xC3\x97X1}", "D{a\xE2\x88\x88" "D1\xC3\x97X1 | 1=1}\xE2\x88\x88{X1\xC3\x97" "D1, D1\xC3\x97X1}",
    "{X1\xC3\x97" "D1, D1\xC3\x97X1}={D{a\xE2\x88\x88X1\xC3\x97" "D1 | 1=1}, D{a\xE2\x88\x88" "D1\xC3\x97X1 | 1=1}}",
    "card({X1\xC3\x97" "D1, D1\xC3\x97X1}\xE2\x88\xAA{D{a\xE2\x88\x88X1\xC3\x97" "D1 | 1=1}})", "{D1\xC3\x97X1, X1\xC3\x97" "D1}\xE2\x8A\x86{D{a\xE2\x88\x88X1\xC3\x97" "D1 | 1=1}, D{a\xE2\x88\x88" "D1\xC3\x97X1 | 1=1}}",
    "D{a\xE2\x88\x88\xE2\x84\xAC(D1) | 1=1}\xE2\x88\x88{\xE2\x84\xAC(D1), \xE2\x84\xAC(X1\\D1)}", "card({\xE2\x84\xAC(D1), \xE2\x84\xAC(X1\\D1)}\xE2\x88\xAA{D{a\xE2\x88\x88\xE2\x84\xAC(X1\\D1) | 1=1}})",
    "{\xE2\x84\xAC(D1), \xE2\x84\xAC(X1\\D1)}\\{D{a\xE2\x88\x88\xE2\x84\xAC(D1) | 1=1}}",
    // calls of functions whose body root is rewritten by the normaliser (tuple pattern, enumerated declaration, chained call)
    "F5[S1]", "card(F5[S1])", "F7[S1]", "F5[S1]\xE2\x88\xAA" "F7[S1]=S1", "P2[S1]", "P2[F5[S1]]", "P3[D1]", "\xE2\x88\x80" "a\xE2\x88\x88S2 P3[a]", "F6[D1]", "F6[F6[D1]]\\D1", "D{a\xE2\x88\x88S2 | F6[a]=a & P3[a]}",
    // a call of another function inside the SECOND argument of a two-parameter function (substitutes of earlier parameters must survive)
    "F2[D2, F1[X1]]", "F2[D2, F1[D1]\xE2\x88\xAA" "D1]", "F2[D2, X1\\F1[D1]]", "D{c\xE2\x88\x88X1 | F2[c, F1[X1]]=X1}", "F2[D2, F6[X1]]",
    // the same local reused in sibling scopes
    "\xE2\x88\x80" "a\xE2\x88\x88X1 a\xE2\x88\x88" "D1 & \xE2\x88\x83" "a\xE2\x88\x88X1 a\xE2\x88\x88" "D1",
    "D{a\xE2\x88\x88X1 | a\xE2\x88\x88" "D1}\xE2\x88\xAA" "D{a\xE2\x88\x88X1 | a\xE2\x88\x89" "D1}",
    "\xE2\x88\x80(a,b)\xE2\x88\x88S1 a=b \xE2\x88\xA8 \xE2\x88\x83(b,a)\xE2\x88\x88S1 a\xE2\x89\xA0" "b",
    // structure operations
    "Pr2,1(S1)", "Pr1(S1)\xE2\x88\xAAPr2(S1)", "red(S2)", "bool(D1)\xE2\x88\xAAS2", "Fi1,2[D1, D1](S1)", "Fi2,1[S1](S1)", "Fi1[D1](S1)\xC3\x97" "D1",
    "pr1(debool(S1))", "{(D2,D2)}\xE2\x88\xA9S1", "card(S1)*card(D1)-card(S2)", "card(D1)+D3>2",
  };
  std::vector<Node> out; rl::Parser p;
  for (const char* t : texts) { if (!p.Parse(t, rl::Syntax::MATH)) { fprintf(stderr, "HARNESS-ASSERT: curated text does not parse: %s\n", t); exit(2); } out.push_back(fromImplTree(p.AST().Root())); }
  return out;
}

// Arity family (added after the round-4 seeds): tuples and products of arity 2 and 3 (flat and nested) meeting each other in every
// binary position, and filters with EVERY index list of length <= 3 over {1,2,3} - single-parameter and per-component forms - over
// arguments whose components have different structures. Most members are ill-typed in exactly one premise (arity or component).
std::vector<Node> arityFamily() {
  const std::string x = "\xC3\x97", B = "\xE2\x84\xAC";
  const std::vector<std::string> tup = { "(D2, D2)", "(D2, D2, D2)", "(D2, D1)", "(D2, D1, D2)", "(1, 2)", "(1, 2, 3)", "((D2, D2), D2)", "(D2, (D2, D2))" };
  const std::vector<std::string> sets = { "S1", "X1" + x + "X1", "X1" + x + "X1" + x + "X1", "(X1" + x + "X1)" + x + "X1", "X1" + x + "(X1" + x + "X1)", "S4", "X1" + x + B + "(X1)", B + "(X1)" + x + "X1",
                                          "X1" + x + B + "(X1)" + x + "X1", "{(1, 2)}", "{(1, 2, 3)}", "X1", B + "(X1)", "D1", "S2", "{(D2, D1)}" };
  const std::vector<std::string> fargs = { "S1", "X1" + x + "X1" + x + "X1", "(X1" + x + "X1)" + x + "X1", "S4", "X1" + x + B + "(X1)" + x + "X1", "{(1, 2, 3)}", B + "(X1)" + x + "X1" };
  const std::vector<std::string> p2 = { "X1", B + "(X1)", "D1", "S1", "S2" }, p3 = { "X1", B + "(X1)", "D1" };
  std::vector<std::string> texts;
  for (auto& a : tup) for (auto& b : tup) { texts.push_back(a + "=" + b); texts.push_back(a + "\xE2\x89\xA0" + b); texts.push_back("{" + a + ", " + b + "}"); texts.push_back("R{a:=" + a + " | " + b + "}"); }
  for (auto& a : tup) { texts.push_back("R{a:=" + a + " | (pr1(a), pr2(a))}"); texts.push_back("R{a:=" + a + " | (pr1(a), pr2(a), pr1(a))}"); }
  for (auto& a : tup) for (auto& s : sets) { texts.push_back(a + "\xE2\x88\x88" + s); texts.push_back(a + "\xE2\x88\x89" + s); }
  for (const char* op : { "=", "\xE2\x89\xA0", "\xE2\x8A\x86", "\xE2\x8A\x82", "\xE2\x8A\x84", "\xE2\x88\xAA", "\xE2\x88\xA9", "\\", "\xE2\x88\x86" })
    for (auto& a : sets) for (auto& b : sets) texts.push_back((a.find(x) != std::string::npos ? "(" + a + ")" : a) + op + (b.find(x) != std::string::npos ? "(" + b + ")" : b));
  std::vector<std::vector<int>> idx;
  for (int a = 1; a <= 3; ++a) { idx.push_back({ a }); for (int b = 1; b <= 3; ++b) { idx.push_back({ a, b }); for (int c2 = 1; c2 <= 3; ++c2) idx.push_back({ a, b, c2 }); } }
  for (auto& ix : idx) {
    std::string head = "Fi"; for (size_t k = 0; k < ix.size(); ++k) head += (k ? "," : "") + std::to_string(ix[k]);
    for (auto& arg : fargs) {
      for (auto& p : sets) texts.push_back(head + "[" + p + "](" + arg + ")");
      if (ix.size() == 2) for (auto& p : p2) for (auto& q : p2) texts.push_back(head + "[" + p + ", " + q + "](" + arg + ")");
      if (ix.size() == 3) for (auto& p : p3) for (auto& q : p3) for (auto& r : p3) texts.push_back(head + "[" + p + ", " + q + ", " + r + "](" + arg + ")");
    }
  }
  std::vector<Node> out; rl::Parser p;
  for (auto& t : texts) { if (!p.Parse(t, rl::Syntax::MATH)) { fprintf(stderr, "HARNESS-ASSERT: arity-family text does not parse: %s\n", t.c_str()); exit(2); } out.push_back(fromImplTree(p.AST().Root())); }
  return out;
}

// Value-class family (added after a round-8 seed): products of 2 and 3 factors over property-class, value-class and
// individually unauditable terms in every order (a property factor must not hide a later factor's verdict), also under ℬ( ).
std::vector<Node> vclassFamily() {
  const std::string x = "\xC3\x97", B = "\xE2\x84\xAC";
  const std::vector<std::string> f = { B + "(X1)", "D4", B + "(D1)", "X1", "D1", "S1", "{" + B + "(X1)}", "{D4}", "red(" + B + "(D4))", "Pr1(D4" + x + "D1)", "bool(D4)", "card(D4)", "debool({D4})" };
  std::vector<std::string> texts;
  for (auto& a : f) for (auto& b : f) { texts.push_back(a + x + b); texts.push_back(B + "(" + a + x + b + ")"); for (auto& c2 : f) texts.push_back(a + x + b + x + c2); }
  std::vector<Node> out; rl::Parser p;
  for (auto& t : texts) { if (!p.Parse(t, rl::Syntax::MATH)) { fprintf(stderr, "HARNESS-ASSERT: vclass-family text does not parse: %s\n", t.c_str()); exit(2); } out.push_back(fromImplTree(p.AST().Root())); }
  return out;
}

// Recursion re-check family (added after a round-7 seed): the step is typed twice - with the initial type and with the deduced one;
// steps that are well-typed for an initial EMPTY set only, with and without a condition (type checker only: some would diverge)
std::vector<Node> recursionFamily() {
  const std::string U = "\xE2\x88\xAA", E = "\xE2\x88\x85";
  const std::vector<std::string> inits = { E, "{" + E + "}", "D1", "S2", "(" + E + ", " + E + ")" };
  const std::vector<std::string> steps = { "red(a)" + U + "X1", "debool(a)" + U + "X1", "bool(a)", "{a}", "a" + U + "{a}", "\xE2\x84\xAC(a)", "a\xC3\x97" "a", "Pr1(a)" + U + "X1", "pr1(a)", "(a, a)", "a" + U + "X1", "a" + U + "S2", "red(a)", "card(a)", "{card(a)}" + U + "a", "a\\X1", "F1[a]", "F1[a]" + U + "X1" };
  std::vector<std::string> texts;
  for (auto& i : inits) for (auto& st : steps) { texts.push_back("R{a:=" + i + " | " + st + "}"); texts.push_back("R{a:=" + i + " | 1=1 | " + st + "}"); texts.push_back("R{a:=" + i + " | card(a)<2 | " + st + "}"); }
  std::vector<Node> out; rl::Parser p;
  for (auto& t : texts) { if (!p.Parse(t, rl::Syntax::MATH)) { fprintf(stderr, "HARNESS-ASSERT: recursion-family text does not parse: %s\n", t.c_str()); exit(2); } out.push_back(fromImplTree(p.AST().Root())); }
  return out;
}

// Traits family (added after a round-10 seed): two DIFFERENT integer-convertible constant sets, the integers and a nominal set meeting
// in every position that compares or merges basic types (type checker only)
std::vector<Node> traitsFamily() {
  const std::vector<std::string> el = { "D5", "D6", "D3", "1", "D2" };          // elements of C1, C2, Z, Z, X1
  const std::vector<std::string> st = { "C1", "C2", "Z", "X1" };
  std::vector<std::string> texts;
  for (auto& a : el) for (auto& b : el) {
    for (const char* op : { "=", "\xE2\x89\xA0", "<", "\xE2\x89\xA4", "+", "-", "*" }) texts.push_back(a + op + b);
    texts.push_back("{" + a + ", " + b + "}"); texts.push_back("(" + a + ", D2)=(" + b + ", D2)"); texts.push_back("{(" + a + ", 1)}\xE2\x88\xAA{(" + b + ", 1)}");
    texts.push_back("F2[D2, X1]\xE2\x88\xAA{" + a + "}"); texts.push_back("R{a:=" + a + " | a+" + b + "}");
  }
  for (auto& a : el) for (auto& t : st) { texts.push_back(a + "\xE2\x88\x88" + t); texts.push_back("{" + a + "}\xE2\x8A\x86" + t); texts.push_back("card(" + t + ")+" + a); }
  for (auto& t : st) for (auto& u : st) for (const char* op : { "=", "\xE2\x8A\x86", "\xE2\x88\xAA", "\xE2\x88\xA9", "\\", "\xC3\x97" }) texts.push_back(t + op + u);
  for (auto& t : st) for (auto& u : st) { texts.push_back("F1[" + t + "]\xE2\x88\xAA" + u); texts.push_back("\xE2\x84\xAC(" + t + ")=\xE2\x84\xAC(" + u + ")"); texts.push_back("\xE2\x88\x80" "a\xE2\x88\x88" + t + " a\xE2\x88\x88" + u); }
  std::vector<Node> out; rl::Parser p;
  for (auto& t : texts) { if (!p.Parse(t, rl::Syntax::MATH)) { fprintf(stderr, "HARNESS-ASSERT: traits-family text does not parse: %s\n", t.c_str()); exit(2); } out.push_back(fromImplTree(p.AST().Root())); }
  return out;
}

// Enumeration family (added after a round-11 seed): every enumeration of THREE elements over terms whose types are partly open
// (empty sets), sets of different structure, tuples of those, elements and integers - all elements must merge into one type
std::vector<Node> enumFamily() {
  const std::string E = "\xE2\x88\x85";
  const std::vector<std::string> el = { E, "{" + E + "}", "X1", "S1", "D1", "S2", "(" + E + ", 1)", "(X1, 2)", "(S2, 3)", "1", "D2", "D3" };
  std::vector<Node> out; rl::Parser p;
  for (auto& a : el) for (auto& b : el) for (auto& c2 : el) {
    const std::string t = "{" + a + ", " + b + ", " + c2 + "}";
    if (!p.Parse(t, rl::Syntax::MATH)) { fprintf(stderr, "HARNESS-ASSERT: enum-family text does not parse: %s\n", t.c_str()); exit(2); }
    out.push_back(fromImplTree(p.AST().Root()));
  }
  return out;
}

// Sibling-scope family (added after a round-6 seed): the SAME local name bound twice in sibling scopes over domains of different
// structure, each body using the variable according to one of the structures - every (domain, body) x (domain, body) combination.
std::vector<Node> siblingFamily() {
  const std::vector<std::string> doms = { "X1", "S1", "S2", "S4" };
  const std::vector<std::string> bodies = { "a\xE2\x88\x88" "D1", "pr1(a)\xE2\x88\x88" "D1", "pr2(a)=pr2(a)", "a\xE2\x8A\x86X1", "card(a)=1", "a=a", "pr2(a)\xE2\x8A\x86X1", "a\xE2\x88\x88S1" };
  std::vector<std::string> texts;
  for (auto& da : doms) for (auto& db : doms) for (auto& ba : bodies) for (auto& bb : bodies) {
    texts.push_back("\xE2\x88\x80" "a\xE2\x88\x88" + da + " " + ba + " & \xE2\x88\x80" "a\xE2\x88\x88" + db + " " + bb);
    texts.push_back("\xE2\x88\x83" "a\xE2\x88\x88" + da + " " + ba + " \xE2\x88\xA8 \xE2\x88\x83" "a\xE2\x88\x88" + db + " " + bb);
    texts.push_back("card(D{a\xE2\x88\x88" + da + " | " + ba + "})+card(D{a\xE2\x88\x88" + db + " | " + bb + "})");
  }
  std::vector<Node> out; rl::Parser p;
  for (auto& t : texts) { if (!p.Parse(t, rl::Syntax::MATH)) { fprintf(stderr, "HARNESS-ASSERT: sibling-family text does not parse: %s\n", t.c_str()); exit(2); } out.push_back(fromImplTree(p.AST().Root())); }
  return out;
}

bool isDeclaration(const Node& n) { return n.k == K::FuncDef || n.k == K::Define || n.k == K::Struct; }

const char* errName(uint32_t eid) {
  switch (eid) { case 0x8A00: return "unknownError"; case 0x8A01: return "typedOverflow"; case 0x8A02: return "booleanLimit"; case 0x8A03: return "globalMissingValue"; case 0x8A04: return "iterationsLimit"; case 0x8A05: return "invalidDebool"; case 0x8A06: return "iterateInfinity"; default: return "other"; }
}

// compareModel: C01 (value equality, independence of syntax / parentheses / representation); always: C02 clauses
void run_eval(Ctx& c, const Setup& setup, const rsgen::Generator& gen, int depth, bool compareModel, int maxBase, bool fullProduct) {
  ImplEnv env(setup);
  const std::string P = compareModel ? "C01" : "C02";
  uint64_t i = 0;
  auto one = [&](Node&& Tn) {
    ++i;
    if (c.stop()) throw StopEnumeration{};
    const Node& T = Tn;
    if (isDeclaration(T)) return;
    rssem::Typer typer(setup.ref); const auto mr = typer.check(T);
    if (c.opt->kv.count("only") && rsast::dump(T) != c.opt->kv.at("only")) return;   // debugging aid
    if (compareModel && !mr.ok) return;                 // C01 quantifies over what the checker accepts; model-rejected terms are C03's business
    if (!c.take()) return;
    const std::string d = rsast::dump(T);
    c.begin(d);
    const std::string text = rsast::render(T, RenderOpt{}).text;
    // does the implementation accept it?
    rl::Auditor a(env, env.vclass(), env.asts());
    bool implOk = false; try { implOk = a.CheckType(text, rl::Syntax::MATH); } catch (const std::exception&) { implOk = false; }
    if (!implOk) { c.rep.outcome("not-accepted-by-checker"); c.rep.count("evaluations"); c.done(); return; }
    const bool implLogic = std::holds_alternative<rl::LogicT>(a.GetType());
    const Ty implTy = implLogic ? Ty::any() : fromImpl(std::get<rl::Typification>(a.GetType()));
    std::set<std::string> names; mentioned(T, setup.ref, names);
    std::vector<std::pair<std::string, rl::Syntax>> variants;
    variants.push_back({ text, rl::Syntax::MATH });
    if (compareModel) {   // independence of syntax variant and redundant parentheses is a C01 clause; C02 evaluates the MATH text only
      { RenderOpt o; o.syn = Syn::ASCII; variants.push_back({ rsast::render(T, o).text, rl::Syntax::ASCII }); }
      { RenderOpt o; o.paren = Paren::MAX; auto r = rsast::render(T, o); if (r.optionalPairs > 0) variants.push_back({ r.text, rl::Syntax::MATH }); }
    }
    uint64_t interps = 0; bool anyValue = false;
    interpretations(names, maxBase, fullProduct, [&](const Interp& in) {
      ++interps;
      std::optional<rssem::EVal> mv; rssem::EvalErr merr = rssem::EvalErr::none;
      if (mr.ok) { rssem::Evaluator ev(setup.ref, in.data, 20000); mv = ev.run(T); merr = ev.err; }
      // divergence guard: a recursion that never reaches a fixpoint builds unboundedly deep data; the implementation then runs into its
      // iteration limit only after minutes (and recursion depth in comparisons) - resource territory (C04 ladders), not evaluated here
      if (merr == rssem::EvalErr::limit) { c.rep.count("skipped_divergent_or_huge"); return; }
      for (int lazy = 0; lazy < (in.lazy.empty() ? 1 : 2); ++lazy) {
        rl::DataContext dc = [&in, lazy](const std::string& n) -> std::optional<ob::StructuredData> {
          if (lazy) { auto l = in.lazy.find(n); if (l != in.lazy.end()) return l->second; }
          auto it = in.data.globals.find(n); if (it == in.data.globals.end()) return std::nullopt; return toImplData(it->second);
        };
        for (size_t vi = 0; vi < variants.size(); ++vi) {
          rl::Interpreter interp(env, env.asts(), dc);
          std::optional<rl::ExpressionValue> iv; bool threw = false; std::string what;
          const double tEval = now_s();
          try { iv = interp.Evaluate(variants[vi].first, variants[vi].second); } catch (const std::exception& e) { threw = true; what = e.what(); }
          c.rep.count("checks");
          if (now_s() - tEval > 2.0) c.rep.notes.push_back("slow evaluation (" + std::to_string(now_s() - tEval) + " s): " + variants[vi].first);
          const std::string where = variants[vi].first + "   with " + [&] { std::string s; for (auto& [k, v] : in.data.globals) if (names.count(k)) s += k + "=" + v.str() + " "; return s + (lazy ? "(lazy)" : ""); }();
          if (threw) { c.fail("C02:exception-escapes-evaluation", what + " on " + where); continue; }
          if (!iv.has_value()) {
            uint32_t eid = 0; for (auto& e : interp.Errors().All()) if (e.IsCritical()) { eid = e.eid; break; }
            const std::string en = errName(eid);
            c.rep.outcome("error:" + en);
            if (eid == 0) { c.fail("C02:evaluation-fails-without-error", where); continue; }
            if (en == "unknownError" || en == "other") { c.fail("C02:" + en, where + "  eid=" + std::to_string(eid)); continue; }
            if (compareModel && mv.has_value()) {
              // the model computed a value: a documented failure is only legitimate if some evaluation order can meet that condition
              bool explained = false;
              if (en == "booleanLimit" || en == "typedOverflow" || en == "iterationsLimit") explained = false;   // data are tiny: limits are out of reach
              if (en == "invalidDebool" || en == "iterateInfinity" || en == "globalMissingValue") { rssem::Evaluator eager(setup.ref, in.data); eager.eager = true; eager.run(T); explained = eager.err != rssem::EvalErr::none; }
              if (!explained) c.fail("C01:spurious-failure:" + en, where, en, mv->isBool ? (mv->b ? "true" : "false") : mv->v.str());
            }
            continue;
          }
          anyValue = true;
          // C02: truth value exactly when LOGIC; otherwise the structure of the reported typification
          const bool isBool = std::holds_alternative<bool>(*iv);
          if (isBool != implLogic) { c.fail("C02:value-kind-vs-type", where, isBool ? "truth value" : "data", a.GetType().index() == 0 ? "LOGIC" : implTy.str()); continue; }
          Val got;
          if (!isBool) {
            if (!fromImplData(std::get<ob::StructuredData>(*iv), got)) { c.fail("C02:malformed-value", where); continue; }
            if (!rssem::hasShape(got, implTy)) c.fail("C02:value-shape-vs-type", where, got.str(), implTy.str());
          }
          c.rep.outcome(isBool ? "bool" : "value");
          if (compareModel) {
            if (!mv.has_value()) { c.rep.count("unasserted_model_error_impl_value"); continue; }
            if (mv->isBool != isBool) { c.fail("C01:kind", where); continue; }
            if (isBool ? (mv->b != std::get<bool>(*iv)) : (mv->v != got))
              c.fail(std::string("C01:wrong-value:") + rsast::nodeLabel(T), where, isBool ? (std::get<bool>(*iv) ? "true" : "false") : got.str(), mv->isBool ? (mv->b ? "true" : "false") : mv->v.str());
          }
        }
      }
    });
    c.rep.count("evaluations"); c.rep.count("interpretations", interps);
    if (anyValue) c.rep.count("nontrivial");
    if (i % 4001 == 3) c.rep.sample(text + "  under " + std::to_string(interps) + " interpretations");
    c.done();
  };
  try { for (auto& n : curated()) one(Node(n)); for (auto& n : arityFamily()) one(Node(n)); for (auto& n : enumFamily()) one(Node(n)); for (auto& n : siblingFamily()) one(Node(n)); gen.imperativeChains(one, static_cast<size_t>(c.opt->num("impblocks", compareModel ? 3 : 2)), static_cast<size_t>(c.opt->num("impcap", compareModel ? 5 : 3))); gen.closedStream(depth, one); } catch (const StopEnumeration&) {}
}

}  // namespace

int main(int argc, char** argv) {
  Options opt = parse_args(argc, argv);
  const double t0 = now_s();
  Result res; res.harness = "h_sem"; res.mode = opt.mode; res.tier = opt.tier;
  RunInfo ri;
  const Setup setup = makeSetup();
  const int depth = static_cast<int>(opt.num("depth", 2));
  if (depth >= 2) {   // the depth-2 spaces need several GB per worker: never start more workers than the memory available now can carry
    long availKb = 0; if (FILE* f = fopen("/proc/meminfo", "r")) { char line[256]; while (fgets(line, sizeof line, f)) if (sscanf(line, "MemAvailable: %ld kB", &availKb) == 1) break; fclose(f); }
    const long perWorkerGb = opt.num("gb-per-worker", 8);   // measured plateau: ~7 GB resident per worker at depth 2
    const int cap = availKb > 0 ? static_cast<int>(std::min(8L, std::max(2L, (availKb / (1024 * 1024)) * 9 / 10 / perWorkerGb))) : opt.workers;
    if (cap < opt.workers) { fprintf(stderr, "h_sem: %d workers -> %d (MemAvailable %ld GB, %ld GB per worker at depth 2)\n", opt.workers, cap, availKb / (1024 * 1024), perWorkerGb); opt.workers = cap; }
  }
  if (opt.mode == "types") {
    res.property = "C03";
    rsgen::Generator gen(setup.ref); gen.leaves = leafPool(false); gen.repsPerKey = static_cast<size_t>(opt.num("reps", 2)); gen.bodyReps = static_cast<size_t>(opt.num("bodyreps", 3)); gen.bothDeep = opt.num("bothdeep", 1) != 0; if (depth >= 2) gen.bodyCacheMax = 48;
    if (depth >= 2) gen.prepareDepth2();   // in the parent: shared by all workers
    res.rep = run_sharded(opt, "types", [&](Ctx& c) { run_types(c, setup, gen, depth); }, &ri);
    res.states = res.rep.counters["evaluations"] + res.rep.counters["unasserted_logic_global_at_root"];
    res.completed_bound = "every constructor over all leaves (depth 1) and over leaves + " + std::to_string(gen.repsPerKey) + " representatives per (constructor,type) of depth 1 (depth " + std::to_string(depth) + "), binders with bodies one level deep in the extended environment; function definitions and global declarations on top";
    res.rule = "case = one expression in both syntaxes; model verdict/type/declared args/value class vs Auditor; ill-typed cases have all sub-terms well-typed (exactly one violated premise) and must be rejected with >=1 critical error positioned inside the text; non-trivial = well-typed";
  } else if (opt.mode == "eval" || opt.mode == "sound") {
    const bool cmp = opt.mode == "eval";
    res.property = cmp ? "C01" : "C02";
    rsgen::Generator gen(setup.ref); gen.leaves = leafPool(cmp); gen.repsPerKey = static_cast<size_t>(opt.num("reps", 1));
    const int maxBase = static_cast<int>(opt.num("base", 2));
    gen.bodyReps = static_cast<size_t>(opt.num("bodyreps", 1)); gen.bothDeep = opt.num("bothdeep", 1) != 0;
    const bool fullProduct = opt.num("fullproduct", 0) != 0;
    if (depth >= 2) { gen.bodyCacheMax = 48; gen.prepareDepth2(); }
    res.rep = run_sharded(opt, opt.mode, [&](Ctx& c) { run_eval(c, setup, gen, depth, cmp, maxBase, fullProduct); }, &ri);
    res.states = res.rep.counters["evaluations"];
    res.completed_bound = "expressions: every constructor over all leaves (depth 1)" + std::string(depth >= 2 ? " and over leaves + representatives of depth 1 (depth 2)" : "") + "; data: every interpretation of the mentioned globals over base sets of <= " + std::to_string(maxBase) + " elements (all subsets for S1 S2 D1, all elements for D2)" + std::string(fullProduct ? ", full product" : "; when the product exceeds 64 interpretations: one global varies over all its values while the others hold their fullest value, plus the all-empty interpretation");
    res.rule = cmp ? "case = well-typed expression; per interpretation x {MATH, ASCII, max parentheses} x {enumerated, lazy power set / product}: Interpreter::Evaluate must equal the reference evaluator's value; documented failures only where some evaluation order meets the condition; non-trivial = produced a value under some interpretation"
                   : "case = any generated expression the implementation's checker accepts (well-typed ones and one-premise-violations alike); per interpretation: no fault (ASan/UBSan), no exception, no unknownError, truth value iff LOGIC, value has the deep structure of the reported typification";
  } else { fprintf(stderr, "unknown mode\n"); return 2; }
  res.alphabet = "context: X1 X2 (nominal bases), C1 (integral constant set), S1:ℬ(X1×X1) S2:ℬℬ(X1) S3:ℬ(C1×X1) S4:ℬ(X1×ℬ(X1)) D1:ℬ(X1) D2:X1 D3:Z D4:props, A1:LOGIC, F1[a∈ℬ(R1)] F2[a∈X1,b∈ℬ(X1)] F3[a∈R1×R2] F4[a∈ℬ(R1×R2)] P1[a∈X1]; literals 1 2 ∅ Z; missing X9; all node constructors";
  res.evaluations = res.rep.counters["evaluations"]; res.transitions = res.rep.counters["checks"]; res.traces_validated = res.evaluations;
  res.distinct_nontrivial = res.rep.counters["nontrivial"];
  res.exhaustive = !ri.deadline_hit && !ri.crash_cap_hit;
  res.assumptions = { "typing and value-class rules as written in DESIGN.md appendix A (model/rssem.hpp)", "expressions rendered by model/rsast.hpp (validated against the parser by C06)" };
  res.wall_s = now_s() - t0;
  res.write(opt.out.empty() ? "/dev/stdout" : opt.out);
  return 0;
}
