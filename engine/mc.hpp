// Bounded-exhaustive exploration engines for the ConceptCore verification harnesses.
//   E1  sharded exhaustive enumeration of cases (Ctx::take / begin / done) over forked workers
//   E2  level-synchronous explicit-state BFS over operation histories (state = history replayed on a
//       fresh real object, exact canonical key, canon-on-replay assertion)
//   E3  fork isolation: a worker that dies (signal / sanitizer abort / uncaught exception / alarm)
//       is attributed to the single case it was executing, re-run solo to confirm, and the shard resumes.
// Output: one JSON result file consumed by /verif/check (evidence, known findings, VIOLATION lines).
#pragma once
#include <sys/mman.h>
#include <sys/wait.h>
#include <sys/stat.h>
#include <sys/types.h>
#include <unistd.h>
#include <fcntl.h>
#include <signal.h>
#include <time.h>

#include <algorithm>
#include <cstdint>
#include <cstdio>
#include <cstdlib>
#include <cstring>
#include <functional>
#include <map>
#include <set>
#include <sstream>
#include <memory>
#include <string>
#include <tuple>
#include <unordered_set>
#include <utility>
#include <vector>

namespace mc {

// ---------------------------------------------------------------------------------------------
// small utilities
inline double now_s() {
  timespec ts{}; clock_gettime(CLOCK_MONOTONIC, &ts);
  return static_cast<double>(ts.tv_sec) + 1e-9 * static_cast<double>(ts.tv_nsec);
}

inline std::string jstr(const std::string& s) {  // JSON string literal (bytes >= 0x80 passed through if valid UTF-8, else \u00XX)
  std::string out = "\"";
  const auto n = s.size();
  for (size_t i = 0; i < n; ++i) {
    const auto c = static_cast<unsigned char>(s[i]);
    if (c == '"') out += "\\\"";
    else if (c == '\\') out += "\\\\";
    else if (c == '\n') out += "\\n";
    else if (c == '\t') out += "\\t";
    else if (c == '\r') out += "\\r";
    else if (c < 0x20 || c == 0x7f) { char b[8]; snprintf(b, sizeof b, "\\u%04x", c); out += b; }
    else if (c < 0x80) out += static_cast<char>(c);
    else {
      size_t len = (c >= 0xF0 && c <= 0xF4) ? 4 : (c >= 0xE0) ? 3 : (c >= 0xC2 && c < 0xE0) ? 2 : 0;
      bool ok = len != 0 && i + len <= n;
      for (size_t k = 1; ok && k < len; ++k) ok = (static_cast<unsigned char>(s[i + k]) & 0xC0) == 0x80;
      if (ok) { out.append(s, i, len); i += len - 1; }
      else { char b[8]; snprintf(b, sizeof b, "\\u%04x", c); out += b; }  // invalid byte shown as U+00XX
    }
  }
  return out + "\"";
}

inline std::string esc_line(const std::string& s) {  // for the worker->parent line protocol
  std::string o; o.reserve(s.size());
  for (char c : s) { if (c == '\\') o += "\\\\"; else if (c == '\n') o += "\\n"; else if (c == '\t') o += "\\t"; else if (c == '\0') o += "\\0"; else o += c; }
  return o;
}
inline std::string unesc_line(const std::string& s) {
  std::string o; o.reserve(s.size());
  for (size_t i = 0; i < s.size(); ++i) {
    if (s[i] == '\\' && i + 1 < s.size()) { ++i; o += (s[i] == 'n') ? '\n' : (s[i] == 't') ? '\t' : (s[i] == '0') ? '\0' : s[i]; }
    else o += s[i];
  }
  return o;
}

struct Hash128 {
  uint64_t a{ 0xcbf29ce484222325ULL }, b{ 0x9ae16a3b2f90404fULL };
  void add(const void* p, size_t n) {
    const auto* s = static_cast<const unsigned char*>(p);
    for (size_t i = 0; i < n; ++i) {
      a = (a ^ s[i]) * 0x100000001b3ULL;
      b = (b + s[i] + 0x9e3779b97f4a7c15ULL); b ^= b >> 29; b *= 0xbf58476d1ce4e5b9ULL; b ^= b >> 32;
    }
  }
  void add(const std::string& s) { uint64_t n = s.size(); add(&n, sizeof n); add(s.data(), s.size()); }
  bool operator==(const Hash128& o) const { return a == o.a && b == o.b; }
  bool operator<(const Hash128& o) const { return a != o.a ? a < o.a : b < o.b; }
};
inline Hash128 hash_of(const std::string& s) { Hash128 h; h.add(s); return h; }
struct Hash128Hasher { size_t operator()(const Hash128& h) const { return static_cast<size_t>(h.a ^ (h.b * 31)); } };
inline std::string hex(const Hash128& h) { char b[40]; snprintf(b, sizeof b, "%016llx%016llx", (unsigned long long)h.a, (unsigned long long)h.b); return b; }

// ---------------------------------------------------------------------------------------------
// Report: what a worker (and finally the run) observed
struct VioRec { uint64_t count{ 0 }; std::vector<std::string> details; };  // details: JSON objects (strings)

struct Report {
  std::map<std::string, uint64_t> counters;     // evaluations, nontrivial, ... (summed on merge)
  std::map<std::string, uint64_t> outcomes;     // distinct observable outcome classes -> count
  std::map<std::string, VioRec> violations;     // signature -> record
  std::vector<std::string> samples;             // actual cases (strings)
  std::unordered_set<Hash128, Hash128Hasher> distinct;  // hashes of distinct non-trivial cases (optional)
  std::vector<std::string> notes;
  static constexpr size_t kMaxDetails = 3, kMaxSamples = 6, kMaxSigs = 400;

  void count(const std::string& k, uint64_t n = 1) { counters[k] += n; }
  void outcome(const std::string& k, uint64_t n = 1) { outcomes[k] += n; }
  void nontrivial(const Hash128& h) { distinct.insert(h); }
  void sample(const std::string& s) { if (samples.size() < kMaxSamples) samples.push_back(s); }
  // sig: stable short signature (used for de-duplication and known-finding matching); detailJson: JSON object text
  void violation(const std::string& sig, const std::string& detailJson) {
    if (violations.size() >= kMaxSigs && !violations.count(sig)) { counters["violations_dropped"]++; return; }
    auto& v = violations[sig]; v.count++;
    if (v.details.size() < kMaxDetails) v.details.push_back(detailJson);
  }
  void merge(const Report& o) {
    for (auto& [k, v] : o.counters) counters[k] += v;
    for (auto& [k, v] : o.outcomes) outcomes[k] += v;
    for (auto& [k, v] : o.violations) {
      auto& m = violations[k]; m.count += v.count;
      for (auto& d : v.details) if (m.details.size() < kMaxDetails) m.details.push_back(d);
    }
    // interleave samples so that first / later shards are all represented
    for (auto& s : o.samples) if (samples.size() < kMaxSamples) samples.push_back(s);
    for (auto& h : o.distinct) distinct.insert(h);
    for (auto& n : o.notes) notes.push_back(n);
  }
  void write(FILE* f) const {
    for (auto& [k, v] : counters) fprintf(f, "C\t%s\t%llu\n", esc_line(k).c_str(), (unsigned long long)v);
    for (auto& [k, v] : outcomes) fprintf(f, "O\t%s\t%llu\n", esc_line(k).c_str(), (unsigned long long)v);
    for (auto& [k, v] : violations) {
      fprintf(f, "V\t%s\t%llu\n", esc_line(k).c_str(), (unsigned long long)v.count);
      for (auto& d : v.details) fprintf(f, "D\t%s\t%s\n", esc_line(k).c_str(), esc_line(d).c_str());
    }
    for (auto& s : samples) fprintf(f, "S\t%s\n", esc_line(s).c_str());
    for (auto& n : notes) fprintf(f, "N\t%s\n", esc_line(n).c_str());
    for (auto& h : distinct) fprintf(f, "H\t%llx\t%llx\n", (unsigned long long)h.a, (unsigned long long)h.b);
    fprintf(f, "E\n");
  }
  bool read(FILE* f) {  // returns true iff the terminating E record was seen
    char* line = nullptr; size_t cap = 0; ssize_t n; bool complete = false;
    while ((n = getline(&line, &cap, f)) > 0) {
      if (line[n - 1] == '\n') line[--n] = 0;
      std::vector<std::string> parts; { std::string cur; for (ssize_t i = 0; i < n; ++i) { if (line[i] == '\t') { parts.push_back(cur); cur.clear(); } else cur += line[i]; } parts.push_back(cur); }
      const auto& t = parts[0];
      if (t == "E") { complete = true; break; }
      if (t == "C" && parts.size() == 3) counters[unesc_line(parts[1])] += strtoull(parts[2].c_str(), nullptr, 10);
      else if (t == "O" && parts.size() == 3) outcomes[unesc_line(parts[1])] += strtoull(parts[2].c_str(), nullptr, 10);
      else if (t == "V" && parts.size() == 3) violations[unesc_line(parts[1])].count += strtoull(parts[2].c_str(), nullptr, 10);
      else if (t == "D" && parts.size() == 3) { auto& v = violations[unesc_line(parts[1])]; if (v.details.size() < kMaxDetails) v.details.push_back(unesc_line(parts[2])); }
      else if (t == "S" && parts.size() == 2) { if (samples.size() < kMaxSamples) samples.push_back(unesc_line(parts[1])); }
      else if (t == "N" && parts.size() == 2) notes.push_back(unesc_line(parts[1]));
      else if (t == "H" && parts.size() == 3) { Hash128 h; h.a = strtoull(parts[1].c_str(), nullptr, 16); h.b = strtoull(parts[2].c_str(), nullptr, 16); distinct.insert(h); }
    }
    free(line);
    return complete;
  }
};

// ---------------------------------------------------------------------------------------------
// Options (from argv / env)
struct Options {
  std::string mode;          // harness-specific mode name
  std::string tier{ "quick" };
  std::string out;           // result JSON path
  std::string replay;        // replay file path (optional)
  int workers{ 16 };
  int64_t seed{ 0 };
  double deadline_s{ 300 };  // global deadline: stop between levels / cases, exhaustive:false
  int case_timeout_s{ 20 };
  int max_crashes_per_shard{ 6 };
  std::map<std::string, std::string> kv;  // extra --key value pairs
  bool thorough() const { return tier == "thorough"; }
  long num(const std::string& k, long dflt) const { auto it = kv.find(k); return it == kv.end() ? dflt : atol(it->second.c_str()); }
  std::string str(const std::string& k, const std::string& dflt) const { auto it = kv.find(k); return it == kv.end() ? dflt : it->second; }
};

inline Options parse_args(int argc, char** argv) {
  Options o;
  for (int i = 1; i < argc; ++i) {
    std::string a = argv[i];
    auto next = [&]() -> std::string { if (i + 1 >= argc) { fprintf(stderr, "missing value for %s\n", a.c_str()); exit(2); } return argv[++i]; };
    if (a == "--mode") o.mode = next();
    else if (a == "--tier") o.tier = next();
    else if (a == "--out") o.out = next();
    else if (a == "--replay") o.replay = next();
    else if (a == "--workers") o.workers = atoi(next().c_str());
    else if (a == "--seed") o.seed = atoll(next().c_str());
    else if (a == "--deadline") o.deadline_s = atof(next().c_str());
    else if (a == "--case-timeout") o.case_timeout_s = atoi(next().c_str());
    else if (a.rfind("--", 0) == 0) o.kv[a.substr(2)] = next();
    else { fprintf(stderr, "bad arg %s\n", a.c_str()); exit(2); }
  }
  if (o.workers < 1) o.workers = 1;
  return o;
}

// ---------------------------------------------------------------------------------------------
// E1/E3: sharded enumeration with crash attribution
struct Progress {  // lives in MAP_SHARED memory, one per worker
  volatile uint64_t idx;      // case index being executed (0 = none)
  volatile int in_case;
  char desc[8192];            // description (replayable text) of the case being executed
};

struct Ctx {
  int shard{ 0 }, nshards{ 1 };
  uint64_t idx{ 0 };                 // global case counter of the enumeration (same in all shards)
  std::set<uint64_t> skip;           // cases already attributed to a crash (do not run again)
  int64_t solo{ -1 };                // >=0: run only this case
  Progress* prog{ nullptr };
  Report rep;
  double t_deadline{ 0 };
  bool expired{ false };
  int case_timeout_s{ 20 };
  const Options* opt{ nullptr };
  uint64_t taken{ 0 };
  std::string cur_desc;              // description of the case being executed
  std::string bfs_replay;            // set by the BFS engine: "seed k a b c k a b c ..." of the current history
  std::string label;

  // Report an oracle violation for the current case. sig must be stable and short (dedupe / known-finding key).
  void fail(const std::string& sig, const std::string& message, const std::string& observed = "", const std::string& expected = "") {
    std::string d = "{\"kind\":\"oracle\",\"label\":" + jstr(label) + ",\"case_index\":" + std::to_string(idx) + ",\"case\":" + jstr(cur_desc) +
                    ",\"message\":" + jstr(message);
    if (!observed.empty()) d += ",\"observed\":" + jstr(observed);
    if (!expected.empty()) d += ",\"expected\":" + jstr(expected);
    if (!bfs_replay.empty()) d += ",\"bfs_replay\":" + jstr(bfs_replay);
    d += "}";
    rep.violation(sig, d);
  }

  // Call once per enumerated case, in the same deterministic order in every shard.
  bool take() {
    ++idx;
    if (solo >= 0) return static_cast<int64_t>(idx) == solo;
    if (expired) return false;
    if (idx % static_cast<uint64_t>(nshards) != static_cast<uint64_t>(shard)) return false;
    if (skip.count(idx)) return false;
    if ((++taken & 0x3f) == 0 && now_s() > t_deadline) { expired = true; rep.counters["deadline_hit"] = 1; return false; }
    return true;
  }
  bool stop() const { return expired; }  // harness may break out of its enumeration loops
  void begin(const std::string& desc) {
    cur_desc = desc;
    if (prog != nullptr) {
      prog->idx = idx; const auto n = std::min(desc.size(), sizeof(prog->desc) - 1);
      memcpy(prog->desc, desc.data(), n); prog->desc[n] = 0; prog->in_case = 1;
    }
    if (case_timeout_s > 0) alarm(static_cast<unsigned>(case_timeout_s));
  }
  void done() { alarm(0); if (prog != nullptr) prog->in_case = 0; }
};

inline std::string tail_of_file(const std::string& path, size_t maxBytes) {
  FILE* f = fopen(path.c_str(), "rb"); if (!f) return {};
  fseek(f, 0, SEEK_END); long sz = ftell(f); long from = sz > static_cast<long>(maxBytes) ? sz - static_cast<long>(maxBytes) : 0;
  fseek(f, from, SEEK_SET); std::string s(static_cast<size_t>(sz - from), 0); auto r = fread(s.data(), 1, s.size(), f); s.resize(r); fclose(f); return s;
}
inline std::string head_of_file(const std::string& path, size_t maxBytes) {
  FILE* f = fopen(path.c_str(), "rb"); if (!f) return {};
  std::string s(maxBytes, 0); auto r = fread(s.data(), 1, s.size(), f); s.resize(r);
  // long reports (deep stacks): append the tail as well, the sanitizer SUMMARY line is printed last
  fseek(f, 0, SEEK_END); const long sz = ftell(f);
  if (sz > static_cast<long>(maxBytes)) { const long from = std::max<long>(static_cast<long>(maxBytes), sz - 3000); fseek(f, from, SEEK_SET); std::string t(static_cast<size_t>(sz - from), 0); auto r2 = fread(t.data(), 1, t.size(), f); t.resize(r2); s += "\n...\n" + t; }
  fclose(f); return s;
}

// Derive a stable failure signature from a dead worker's stderr + wait status.
inline std::string crash_signature(int status, const std::string& err) {
  std::string kind;
  if (WIFSIGNALED(status)) {
    int sg = WTERMSIG(status);
    kind = sg == SIGALRM ? "hang" : sg == SIGSEGV ? "SIGSEGV" : sg == SIGABRT ? "SIGABRT" : sg == SIGBUS ? "SIGBUS" : sg == SIGFPE ? "SIGFPE" : sg == SIGILL ? "SIGILL" : ("signal" + std::to_string(sg));
  } else kind = "exit" + std::to_string(WEXITSTATUS(status));
  std::string what;
  auto grab = [&](const char* key) -> std::string {
    auto p = err.find(key); if (p == std::string::npos) return {};
    auto e = err.find('\n', p); return err.substr(p, e == std::string::npos ? std::string::npos : e - p);
  };
  std::string s;
  if (!(s = grab("SUMMARY: ")).empty()) {
    // "SUMMARY: AddressSanitizer: heap-buffer-overflow /path/file.cpp:123:4 in func" -> keep tool, kind, func
    std::istringstream is(s); std::string w; std::vector<std::string> ws; while (is >> w) ws.push_back(w);
    std::string fn; for (size_t i = 0; i + 1 < ws.size(); ++i) if (ws[i] == "in") { fn = ws[i + 1]; for (size_t j = i + 2; j < ws.size(); ++j) fn += " " + ws[j]; }
    what = (ws.size() > 2 ? ws[1] + ws[2] : s) + (fn.empty() ? "" : "@" + fn);
  } else if (!(s = grab("runtime error: ")).empty()) what = s.substr(0, 90);
  else if (!(s = grab("terminate called after throwing an instance of ")).empty()) what = "uncaught:" + s.substr(strlen("terminate called after throwing an instance of "));
  else if (!(s = grab("terminate called")).empty()) what = "terminate";
  else if (!(s = grab("Assertion")).empty()) what = s.substr(0, 100);
  else if (!(s = grab("HARNESS-ASSERT")).empty()) what = s.substr(0, 120);
  // strip addresses / template noise
  std::string clean; for (char c : what) { if (c == '\'' || c == '"') continue; clean += c; }
  if (clean.size() > 140) clean.resize(140);
  return "crash:" + kind + (clean.empty() ? "" : ":" + clean);
}

using Body = std::function<void(Ctx&)>;

struct RunInfo { bool deadline_hit{ false }; bool crash_cap_hit{ false }; uint64_t cases_total{ 0 }; };

inline std::string scratch_dir() {
  const char* e = getenv("VERIF_SCRATCH");
  std::string d = e ? e : "/verif/build/scratch";
  mkdir(d.c_str(), 0777);
  d += "/p" + std::to_string(getpid()); mkdir(d.c_str(), 0777);
  return d;
}
inline void rm_scratch(const std::string& d) { std::string c = "rm -rf '" + d + "'"; if (system(c.c_str()) != 0) {} }

// Runs body in `workers` forked children; case i is executed by shard i % workers.
// A dead child => violation attributed to the case in its progress slot (confirmed by a solo re-run).
inline Report run_sharded(const Options& opt, const std::string& label, const Body& body, RunInfo* info = nullptr,
                          const std::string& crashPropertyHint = "") {
  const int W = opt.workers;
  const std::string dir = scratch_dir();
  auto* slots = static_cast<Progress*>(mmap(nullptr, sizeof(Progress) * static_cast<size_t>(W + 1), PROT_READ | PROT_WRITE, MAP_SHARED | MAP_ANONYMOUS, -1, 0));
  if (slots == MAP_FAILED) { perror("mmap"); exit(2); }
  const double t_deadline = now_s() + opt.deadline_s;
  Report total; RunInfo ri;

  struct Shard { pid_t pid{ -1 }; std::set<uint64_t> skip; int crashes{ 0 }; bool finished{ false }; };
  std::vector<Shard> sh(static_cast<size_t>(W));

  auto launch = [&](int s, int64_t solo, int slot) -> pid_t {
    fflush(stdout); fflush(stderr);
    pid_t p = fork();
    if (p < 0) { perror("fork"); exit(2); }
    if (p == 0) {
      const std::string errp = dir + "/err" + std::to_string(slot), outp = dir + "/out" + std::to_string(slot);
      int fd = open(errp.c_str(), O_WRONLY | O_CREAT | O_TRUNC, 0666); if (fd >= 0) { dup2(fd, 2); close(fd); }
      Ctx c; c.shard = s; c.nshards = W; c.skip = sh[static_cast<size_t>(s)].skip; c.solo = solo; c.prog = &slots[slot];
      c.prog->idx = 0; c.prog->in_case = 0; c.prog->desc[0] = 0;
      c.label = label; c.t_deadline = t_deadline; c.case_timeout_s = solo >= 0 ? opt.case_timeout_s * 3 : opt.case_timeout_s; c.opt = &opt;
      body(c);
      c.rep.counters["cases_enumerated_max"] = 0;  // placeholder so key exists
      FILE* f = fopen(outp.c_str(), "w"); if (!f) _exit(3);
      fprintf(f, "C\t__idx\t%llu\n", (unsigned long long)c.idx);
      c.rep.write(f); fclose(f);
      fflush(nullptr);
      _exit(0);
    }
    return p;
  };

  if (opt.kv.count("solo") && (opt.str("solo-label", "").empty() || opt.str("solo-label", "") == label)) {
    // replay of one enumerated case, in-process semantics identical to a worker
    const int64_t k = atoll(opt.kv.at("solo").c_str());
    pid_t q = launch(0, k, 0); int st2 = 0; waitpid(q, &st2, 0);
    if (WIFEXITED(st2) && WEXITSTATUS(st2) == 0) { Report r; FILE* f = fopen((dir + "/out0").c_str(), "r"); if (f) { r.read(f); fclose(f); } r.counters.erase("__idx"); total.merge(r); }
    else { std::string err = head_of_file(dir + "/err0", 6000); std::string sig = crash_signature(st2, err);
      total.violation(sig, "{\"kind\":\"crash\",\"label\":" + jstr(label) + ",\"case_index\":" + std::to_string(k) + ",\"case\":" + jstr(slots[0].desc) + ",\"signature\":" + jstr(sig) + ",\"stderr\":" + jstr(err.substr(0, 3000)) + "}"); }
    munmap(slots, sizeof(Progress) * static_cast<size_t>(W + 1)); rm_scratch(dir); if (info) *info = ri; return total;
  }
  for (int s = 0; s < W; ++s) sh[static_cast<size_t>(s)].pid = launch(s, -1, s);
  int remaining = W;
  while (remaining > 0) {
    int status = 0; pid_t p = wait(&status);
    if (p < 0) break;
    int s = -1; for (int i = 0; i < W; ++i) if (sh[static_cast<size_t>(i)].pid == p) s = i;
    if (s < 0) continue;
    auto& S = sh[static_cast<size_t>(s)];
    const std::string outp = dir + "/out" + std::to_string(s), errp = dir + "/err" + std::to_string(s);
    bool ok = WIFEXITED(status) && WEXITSTATUS(status) == 0;
    if (ok) {
      Report r; FILE* f = fopen(outp.c_str(), "r"); bool complete = f && r.read(f); if (f) fclose(f);
      if (!complete) { fprintf(stderr, "HARNESS-ERROR: worker %d produced no complete report\n", s); exit(2); }
      ri.cases_total = std::max<uint64_t>(ri.cases_total, r.counters["__idx"]); r.counters.erase("__idx");
      if (r.counters.count("deadline_hit")) ri.deadline_hit = true;
      total.merge(r); S.finished = true; --remaining; continue;
    }
    // worker died
    const uint64_t cidx = slots[s].idx; const bool inCase = slots[s].in_case != 0;
    std::string desc = slots[s].desc;
    std::string err = head_of_file(errp, 6000);
    if ((!inCase || cidx == 0) && WIFSIGNALED(status) && WTERMSIG(status) == SIGKILL) {
      // SIGKILL comes from outside the process (the kernel's OOM killer under memory pressure): not a property of any case. The shard's
      // results are lost; the run goes on with the other shards and reports itself as not exhaustive.
      fprintf(stderr, "HARNESS-NOTE: worker %d was killed from outside (SIGKILL) between cases; its shard is dropped, the run is not exhaustive\n", s);
      ri.crash_cap_hit = true; total.count("shards_lost_to_external_kill"); S.finished = true; --remaining; continue;
    }
    if (!inCase || cidx == 0) {
      fprintf(stderr, "HARNESS-ERROR: worker %d died outside a case (status %d)\n%s\n", s, status, err.c_str());
      exit(2);
    }
    std::string sig = crash_signature(status, err);
    // confirm by solo re-run (same outcome required)
    {
      pid_t q = launch(s, static_cast<int64_t>(cidx), W);
      int st2 = 0; waitpid(q, &st2, 0);
      bool ok2 = WIFEXITED(st2) && WEXITSTATUS(st2) == 0;
      std::string err2 = head_of_file(dir + "/err" + std::to_string(W), 6000);
      std::string sig2 = ok2 ? "no-failure" : crash_signature(st2, err2);
      if (sig2 != sig) {
        // a hang under load may pass solo with the longer limit: not a violation; anything else is nondeterminism
        // (SIGKILL comes from outside the process - the kernel's OOM killer under memory pressure - and is not a property of the case)
        if ((sig.rfind("crash:hang", 0) == 0 || sig.rfind("crash:signal9", 0) == 0) && ok2) { total.count(sig.rfind("crash:hang", 0) == 0 ? "slow_cases_not_hangs" : "workers_killed_from_outside"); S.skip.insert(cidx); S.pid = launch(s, -1, s); continue; }
        fprintf(stderr, "HARNESS-NONDETERMINISM: case %llu [%s] first %s then %s\n", (unsigned long long)cidx, desc.c_str(), sig.c_str(), sig2.c_str());
        exit(2);
      }
    }
    std::string trace; { std::istringstream is(err); std::string l; int k = 0; while (std::getline(is, l) && k < 14) { if (l.find("    #") != std::string::npos || l.find("ERROR") != std::string::npos || l.find("runtime error") != std::string::npos || l.find("terminate") != std::string::npos || l.find("what()") != std::string::npos || l.find("Assert") != std::string::npos) { trace += l + "\n"; ++k; } } }
    total.violation(sig, "{\"kind\":\"crash\",\"label\":" + jstr(label) + ",\"case_index\":" + std::to_string(cidx) + ",\"case\":" + jstr(desc) + ",\"signature\":" + jstr(sig) + ",\"stderr\":" + jstr(trace) + "}");
    total.count("crashed_cases");
    S.skip.insert(cidx); S.crashes++;
    if (S.crashes >= opt.max_crashes_per_shard) { ri.crash_cap_hit = true; total.count("shards_stopped_by_crash_cap"); S.finished = true; --remaining; continue; }
    S.pid = launch(s, -1, s);  // redo the shard, skipping the attributed case(s)
  }
  munmap(slots, sizeof(Progress) * static_cast<size_t>(W + 1));
  rm_scratch(dir);
  (void)crashPropertyHint;
  if (info) *info = ri;
  return total;
}

// ---------------------------------------------------------------------------------------------
// E2: explicit-state BFS over histories.
//
// System concept:
//   struct Sys {
//     using Obj = ...;                         // the real object (bundle)
//     struct Op { int k, a, b, c; };           // 4 ints
//     int seeds() const;
//     std::unique_ptr<Obj> fresh(int seed);    // FRESH real object in seed state
//     std::vector<Op> enabled(const Obj&);     // finite menu, simplest first
//     void apply(Obj&, const Op&, Ctx* ctx, const std::string& histDesc);  // ctx != nullptr: run transition checks, report violations
//     void check_state(Obj&, Ctx&, const std::string& histDesc);           // invariants / differential oracle
//     std::string key(const Obj&);             // exact canonical dump
//     std::string describe(const Op&);         // replayable text
//   };
struct OpRec { int k{ 0 }, a{ 0 }, b{ 0 }, c{ 0 }; };

struct BfsStats {
  uint64_t states{ 0 }, transitions{ 0 }, changed{ 0 }; int completed_depth{ -1 }; bool exhaustive{ true };
  std::vector<uint64_t> level_sizes;
};

template <class Sys>
struct Bfs {
  using Op = typename Sys::Op;
  struct Node { int seed; std::vector<Op> hist; Hash128 key; };

  static std::string hist_desc(Sys& sys, int seed, const std::vector<Op>& h, const Op* last = nullptr) {
    std::string s = "seed" + std::to_string(seed) + ":";
    for (auto& o : h) s += " " + sys.describe(o) + ";";
    if (last) s += " " + sys.describe(*last) + ";";
    return s;
  }

  // Explore to maxDepth. Report merged into `total`.
  static BfsStats run(Sys& sys, const Options& opt, int maxDepth, Report& total, const std::string& label, uint64_t maxStates = 0) {
    BfsStats st;
    std::unordered_set<Hash128, Hash128Hasher> seen;
    std::vector<Node> frontier;
    const double t_deadline = now_s() + opt.deadline_s;
    // level 0: seeds (checked in a worker too, for crash isolation)
    for (int s = 0; s < sys.seeds(); ++s) {
      auto o = sys.fresh(s); Hash128 k = hash_of(sys.key(*o));
      if (seen.insert(k).second) frontier.push_back(Node{ s, {}, k });
    }
    st.states = seen.size();
    for (int depth = 0; depth <= maxDepth; ++depth) {
      st.level_sizes.push_back(frontier.size());
      if (frontier.empty()) { st.completed_depth = depth; break; }
      const bool expand = depth < maxDepth;
      // workers: check_state on every frontier node; expand if depth < maxDepth
      // own directory for successor files (run_sharded creates and removes .../p<pid> itself)
      const std::string dir = scratch_dir() + "-bfs" + std::to_string(depth);
      mkdir(dir.c_str(), 0777);
      Options o2 = opt; o2.deadline_s = std::max(1.0, t_deadline - now_s());
      RunInfo ri;
      Report lvl = run_sharded(o2, label + "/depth" + std::to_string(depth), [&](Ctx& c) {
        FILE* f = nullptr;
        if (c.solo < 0) { const std::string p = dir + "/succ" + std::to_string(c.shard) + "." + std::to_string(getpid()); f = fopen(p.c_str(), "w"); }
        for (size_t i = 0; i < frontier.size(); ++i) {
          const auto& n = frontier[i];
          if (!c.take()) continue;   // one "case" = one frontier node (state check) ...
          const std::string hd = hist_desc(sys, n.seed, n.hist);
          c.bfs_replay = replay_text(n.seed, n.hist, nullptr);
          c.begin(hd);
          std::unique_ptr<typename Sys::Obj> obj;
          if constexpr (requires { sys.requery_parent; }) {
            // query - mutate - query on the representative history: run the state battery on the PARENT state of the same object,
            // then apply the last operation, then (below) the battery again - answers cached by the first battery and not
            // invalidated by the operation become visible
            if (sys.requery_parent && !n.hist.empty()) {
              obj = sys.fresh(n.seed);
              for (size_t k = 0; k + 1 < n.hist.size(); ++k) sys.apply(*obj, n.hist[k], nullptr, "");
              sys.check_state(*obj, c, hd);
              sys.apply(*obj, n.hist.back(), nullptr, "");
              c.rep.count("requeried_parent_states");
            }
          }
          if (!obj) obj = replay(sys, n);
          if (!(hash_of(sys.key(*obj)) == n.key)) { fprintf(stderr, "HARNESS-NONDETERMINISM: canon-on-replay mismatch for %s\n", hd.c_str()); fflush(stderr); _exit(4); }
          sys.check_state(*obj, c, hd);
          c.rep.count("states_checked");
          if (i % 997 == 0) c.rep.sample(hd);
          c.done();
          if (!expand) continue;
          auto ops = sys.enabled(*obj);
          for (auto& op : ops) {
            const std::string hd2 = hist_desc(sys, n.seed, n.hist, &op);
            c.bfs_replay = replay_text(n.seed, n.hist, &op);
            c.begin(hd2);
            auto o2b = replay(sys, n);
            // query - mutate - query: a Sys may ask for its (cheap) state battery to run on the SAME object right before and right
            // after every transition, so that answers cached by a query and not invalidated by the operation are seen
            if constexpr (requires { Sys::interleave_queries; }) { if (Sys::interleave_queries) sys.check_state(*o2b, c, hd); }
            sys.apply(*o2b, op, &c, hd2);
            if constexpr (requires { Sys::interleave_queries; }) { if (Sys::interleave_queries) { sys.check_state(*o2b, c, hd2); c.rep.count("interleaved_query_batteries"); } }
            Hash128 k2 = hash_of(sys.key(*o2b));
            c.rep.count("transitions");
            if (!(k2 == n.key)) c.rep.count("transitions_changing_state");
            if (f) fprintf(f, "%zu %d %d %d %d %llx %llx\n", i, op.k, op.a, op.b, op.c, (unsigned long long)k2.a, (unsigned long long)k2.b);
            c.done();
          }
        }
        if (f) fclose(f);
      }, &ri);
      total.merge(lvl);
      if (ri.deadline_hit || ri.crash_cap_hit) { st.exhaustive = false; rm_scratch(dir); st.completed_depth = depth - 1; break; }
      st.completed_depth = depth;
      if (!expand) { rm_scratch(dir); break; }
      // collect successors (files from all worker incarnations; duplicates are harmless)
      std::vector<Node> next;
      {
        // files are read one by one and line by line: a worker incarnation that died leaves a torn last line, which is ignored
        std::vector<std::string> files;
        { std::string cmd = "ls '" + dir + "'/succ* 2>/dev/null | LC_ALL=C sort"; FILE* p = popen(cmd.c_str(), "r"); if (p) { char buf[4096]; while (fgets(buf, sizeof buf, p)) { std::string fn = buf; while (!fn.empty() && (fn.back() == '\n')) fn.pop_back(); if (!fn.empty()) files.push_back(fn); } pclose(p); } }
        struct Succ { size_t i; int k, a, b, c; Hash128 h; };
        std::vector<Succ> all;
        for (auto& fn : files) {
          FILE* p = fopen(fn.c_str(), "r"); if (!p) continue;
          char* line = nullptr; size_t cap = 0; ssize_t n;
          while ((n = getline(&line, &cap, p)) > 0) {
            if (line[n - 1] != '\n') break;  // torn
            size_t i; int k, a, b, cc; unsigned long long ha, hb;
            if (sscanf(line, "%zu %d %d %d %d %llx %llx", &i, &k, &a, &b, &cc, &ha, &hb) == 7 && i < frontier.size()) { Succ s2{ i, k, a, b, cc, {} }; s2.h.a = ha; s2.h.b = hb; all.push_back(s2); }
          }
          free(line); fclose(p);
        }
        // deterministic choice of the representative history for a new state: smallest (frontier index, op)
        std::sort(all.begin(), all.end(), [](const Succ& x, const Succ& y) { return std::tie(x.i, x.k, x.a, x.b, x.c) < std::tie(y.i, y.k, y.a, y.b, y.c); });
        for (auto& s2 : all) if (seen.insert(s2.h).second) { Node nn{ frontier[s2.i].seed, frontier[s2.i].hist, s2.h }; Op op{}; op.k = s2.k; op.a = s2.a; op.b = s2.b; op.c = s2.c; nn.hist.push_back(op); next.push_back(std::move(nn)); }
      }
      rm_scratch(dir);
      // deterministic order of next frontier (independent of worker scheduling)
      std::sort(next.begin(), next.end(), [](const Node& x, const Node& y) { return x.key < y.key; });
      st.states = seen.size();
      if (maxStates != 0 && st.states > maxStates) { st.exhaustive = false; total.count("state_cap_hit"); frontier = std::move(next); st.level_sizes.push_back(frontier.size()); break; }
      frontier = std::move(next);
    }
    st.transitions = total.counters.count("transitions") ? total.counters["transitions"] : 0;
    st.changed = total.counters.count("transitions_changing_state") ? total.counters["transitions_changing_state"] : 0;
    return st;
  }

  static std::string replay_text(int seed, const std::vector<Op>& h, const Op* last) {
    std::string s = std::to_string(seed);
    auto add = [&](const Op& o) { s += " " + std::to_string(o.k) + " " + std::to_string(o.a) + " " + std::to_string(o.b) + " " + std::to_string(o.c); };
    for (auto& o : h) add(o);
    if (last) add(*last);
    return s;
  }
  // Re-execute one recorded history with all checks on (replay of a violation): every prefix state is checked,
  // every transition is applied with its transition checks.
  static void replay_history(Sys& sys, const std::string& text, Ctx& c) {
    std::istringstream is(text); int seed = 0; is >> seed; std::vector<Op> ops; int k, a, b, cc;
    while (is >> k >> a >> b >> cc) { Op op{}; op.k = k; op.a = a; op.b = b; op.c = cc; ops.push_back(op); }
    auto obj = sys.fresh(seed); std::vector<Op> done;
    for (auto& op : ops) { const std::string hd = hist_desc(sys, seed, done, &op); c.cur_desc = hd; c.bfs_replay = replay_text(seed, done, &op); sys.apply(*obj, op, &c, hd); done.push_back(op); sys.check_state(*obj, c, hd); }
    if (ops.empty()) { c.cur_desc = hist_desc(sys, seed, done); sys.check_state(*obj, c, c.cur_desc); }
  }

  static std::unique_ptr<typename Sys::Obj> replay(Sys& sys, const Node& n) {
    auto obj = sys.fresh(n.seed);
    for (auto& op : n.hist) sys.apply(*obj, op, nullptr, "");
    return obj;
  }
};

// ---------------------------------------------------------------------------------------------
// Result file
struct Result {
  std::string property, harness, mode, tier;
  Report rep;
  uint64_t states{ 0 }, transitions{ 0 }, traces_validated{ 0 }, evaluations{ 0 }, distinct_nontrivial{ 0 };
  bool exhaustive{ true };
  std::string completed_bound, rule, alphabet;
  std::vector<std::string> assumptions;
  double wall_s{ 0 };
  std::map<std::string, std::string> extra;  // key -> raw JSON value

  void write(const std::string& path) const {
    FILE* f = fopen(path.c_str(), "w"); if (!f) { perror(path.c_str()); exit(2); }
    fprintf(f, "{\n \"property\": %s,\n \"harness\": %s,\n \"mode\": %s,\n \"tier\": %s,\n", jstr(property).c_str(), jstr(harness).c_str(), jstr(mode).c_str(), jstr(tier).c_str());
    fprintf(f, " \"states\": %llu,\n \"transitions\": %llu,\n \"traces_validated_against_impl\": %llu,\n \"evaluations\": %llu,\n \"distinct_nontrivial\": %llu,\n",
            (unsigned long long)states, (unsigned long long)transitions, (unsigned long long)traces_validated, (unsigned long long)evaluations, (unsigned long long)distinct_nontrivial);
    fprintf(f, " \"exhaustive\": %s,\n \"completed_bound\": %s,\n \"rule\": %s,\n \"alphabet\": %s,\n \"wall_s\": %.3f,\n", exhaustive ? "true" : "false", jstr(completed_bound).c_str(), jstr(rule).c_str(), jstr(alphabet).c_str(), wall_s);
    fprintf(f, " \"assumptions\": ["); for (size_t i = 0; i < assumptions.size(); ++i) fprintf(f, "%s%s", i ? ", " : "", jstr(assumptions[i]).c_str()); fprintf(f, "],\n");
    fprintf(f, " \"counters\": {"); { bool first = true; for (auto& [k, v] : rep.counters) { fprintf(f, "%s%s: %llu", first ? "" : ", ", jstr(k).c_str(), (unsigned long long)v); first = false; } } fprintf(f, "},\n");
    fprintf(f, " \"outcomes\": {"); { bool first = true; for (auto& [k, v] : rep.outcomes) { fprintf(f, "%s%s: %llu", first ? "" : ", ", jstr(k).c_str(), (unsigned long long)v); first = false; } } fprintf(f, "},\n");
    fprintf(f, " \"samples\": ["); for (size_t i = 0; i < rep.samples.size(); ++i) fprintf(f, "%s%s", i ? ", " : "", jstr(rep.samples[i]).c_str()); fprintf(f, "],\n");
    fprintf(f, " \"notes\": ["); for (size_t i = 0; i < rep.notes.size() && i < 20; ++i) fprintf(f, "%s%s", i ? ", " : "", jstr(rep.notes[i]).c_str()); fprintf(f, "],\n");
    for (auto& [k, v] : extra) fprintf(f, " %s: %s,\n", jstr(k).c_str(), v.c_str());
    fprintf(f, " \"violations\": [");
    bool first = true;
    for (auto& [sig, v] : rep.violations) {
      fprintf(f, "%s\n  {\"signature\": %s, \"count\": %llu, \"details\": [", first ? "" : ",", jstr(sig).c_str(), (unsigned long long)v.count);
      for (size_t i = 0; i < v.details.size(); ++i) fprintf(f, "%s%s", i ? ", " : "", v.details[i].c_str());
      fprintf(f, "]}"); first = false;
    }
    fprintf(f, "]\n}\n");
    fclose(f);
  }
};

// convenience: JSON object from key/value string pairs
inline std::string jobj(std::initializer_list<std::pair<std::string, std::string>> kv) {
  std::string s = "{"; bool first = true;
  for (auto& [k, v] : kv) { s += (first ? "" : ",") + jstr(k) + ":" + jstr(v); first = false; }
  return s + "}";
}

}  // namespace mc
