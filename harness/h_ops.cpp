// C12 — synthesis / merge / equation: consistent result, exact translations
// C13 — basis and maximal-part extraction
// Engine E1 (bounded-exhaustive enumeration of cases on the real RSForm / ops code, san flavour, fork isolation).
// modes: synth    BinarySynthes over all ordered pairs of a pool of small operand schemas x all equation tables with <= 2 (thorough 3)
//                 entries (incl. foreign identifiers) x term modes x uid policy (x insertion order of the table, thorough)
//        inplace  Equate / IsEquatable / DeleteDuplicates / MergeWith on single schemas (refused => exact state unchanged)
//        basis    OpExtractBasis: schemas {X1,X2} + k derived terms, definitions from a pool realising every dependency relation,
//        maxpart  OpMaxPart:      every list order reachable by MoveBefore, every selection
// Oracles: own whole-identifier renamer (written from MathLexerImpl.l, no library code), own digraph closure / fixpoint code,
// exact private-state key for "refused => unchanged" (twin-object protocol: the key of an untouched identical build).
// What is asserted is exactly what the property states; behaviour the property leaves open (which operand of an equated pair
// survives, which preconditions an operation has) is taken from the upstream tests (testSynthes, testEquationProcessor,
// testRSOperationsFacet, testMaxPart, testExtractBasis) and only used as anchors:
//   * C12 "every mention of a removed or renamed constituent is rewritten to its image": every result constituent must equal, up to the
//     renaming given by the RETURNED translations, one of the operand constituents mapped to it (kind, definition, convention; term and
//     text definition likewise, or the new term of a createNew equation). Names that do not resolve in their operand are wildcards.
//   * C12 correctness / typification clause only for fully correct operands and like-with-like tables (same kind; base with base,
//     constant with constant, structure / term of equal typification after identifying the equated sets).
//   * C12 admissibility is not modelled: only "refused => nothing changed", IsEquatable <=> Equate, and the anchors (empty table and a
//     single base-with-base equation are admissible for BinarySynthes; foreign identifier / self-equation / empty table are refused).
//   * C13 dependencies = names of constituents mentioned in the formal definition (cross-checked with Schema::Graph). For OpMaxPart the
//     property's characterisation is checked as stated (a fixpoint: selection kept, every other member qualifies, every non-member
//     does not); with dependency cycles more than one fixpoint exists and any is accepted. Selections the operations document as
//     inadmissible are only required to be refused consistently (Execute()==nullptr <=> !IsCorrectlyDefined()).
// Fault containment: see guarded() / preflight() below.
#include "engine/mc.hpp"
#include "model/uid_policy.hpp"

#include "ccl/semantic/RSForm.h"
#include "ccl/ops/RSOperations.h"
#include "ccl/ops/EquationOptions.h"

#include <csetjmp>
#include <map>
#include <set>

using namespace mc;
using ccl::EntityUID;
using ccl::EntityTranslation;
using ccl::SetOfEntities;
using ccl::semantic::ConceptRecord;
using ccl::semantic::CstType;
using ccl::semantic::ParsingStatus;
using ccl::semantic::RSForm;
using ccl::ops::Equation;
using ccl::ops::EquationOptions;

namespace {

// =============================================================================================
// In-process containment of the two fault kinds that leave the process intact: a failed assert() inside the library (own
// __assert_fail + siglongjmp; the objects of the case are abandoned, never touched again) and an escaping C++ exception.
// They are reported as "<ID>:fault:..." violations of the single case and the shard goes on. Everything else (sanitizer report,
// signal, hang) still kills the worker and is attributed by engine E3. Rationale: E3 re-runs the whole shard after each dead
// worker, which is fine for rare faults but not for a defect that fires on hundreds of cases of one enumeration.
sigjmp_buf g_env;
volatile int g_guard = 0;
char g_assertMsg[400];
}  // namespace
extern "C" void __assert_fail(const char* assertion, const char* file, unsigned int line, const char* function) {
  const char* base = strrchr(file, '/');
  snprintf(g_assertMsg, sizeof g_assertMsg, "%s (%s:%u)", assertion, base ? base + 1 : file, line);
  if (g_guard) { g_guard = 0; siglongjmp(g_env, 1); }
  fprintf(stderr, "h_ops: %s:%u: %s: Assertion `%s' failed.\n", file, line, function, assertion);
  abort();
}
namespace {
template <class F>
bool guarded(Ctx& c, const std::string& prop, const std::string& what, F&& body) {
  g_guard = 1;
  if (sigsetjmp(g_env, 0) != 0) {
    std::string a = g_assertMsg; const auto par = a.find(" (");
    c.fail(prop + ":fault:assert:" + a.substr(0, par), what + ": assertion failed inside the library: " + a);
    c.rep.outcome("fault-assert");
    return false;
  }
  try { body(); }
  catch (const std::exception& e) { g_guard = 0; c.fail(prop + ":fault:exception", what + ": exception escaped: " + e.what()); c.rep.outcome("fault-exception"); return false; }
  catch (...) { g_guard = 0; c.fail(prop + ":fault:exception", what + ": unknown exception escaped"); c.rep.outcome("fault-exception"); return false; }
  g_guard = 0;
  return true;
}

// Pre-flight in a forked child for tables with >= 3 entries, where IsEquatable is known to be able to spin (cyclic substitution): a
// hang cannot be left in-process, and engine E3 charges 20 s + a 60 s solo re-run + a shard restart per hang. The child's stderr goes
// to a scratch file; if the child dies its report gives the violation and the case is NOT repeated in-process.
// result: 0 = returned normally, 1 = hang (killed), 2 = died (what = stable one-line description)
template <class F>
int preflight(F&& body, int timeoutSec, std::string& what) {
  fflush(nullptr);
  const std::string errPath = "/verif/build/scratch/h_ops-pf-" + std::to_string(getpid()) + ".err";
  const pid_t p = fork();
  if (p < 0) { what = "fork failed"; return 2; }
  if (p == 0) {
    alarm(0);
    const int fd = open(errPath.c_str(), O_WRONLY | O_CREAT | O_TRUNC, 0666); if (fd >= 0) { dup2(fd, 2); close(fd); }
    body(); _exit(0);
  }
  const double t0 = now_s(); int st = 0; int result = -1;
  for (useconds_t nap = 200; result < 0; nap = std::min<useconds_t>(nap * 2, 20000)) {
    const pid_t r = waitpid(p, &st, WNOHANG);
    if (r == p) result = (WIFEXITED(st) && WEXITSTATUS(st) == 0) ? 0 : 2;
    else if (r < 0) { what = "waitpid failed"; result = 2; }
    else if (now_s() - t0 > timeoutSec) { kill(p, SIGKILL); waitpid(p, &st, 0); result = 1; }
    else usleep(nap);
  }
  if (result == 2 && what.empty()) {
    const std::string err = tail_of_file(errPath, 200000);
    auto grab = [&](const char* key) -> std::string { auto q = err.find(key); if (q == std::string::npos) return {}; auto e = err.find('\n', q); return err.substr(q, e == std::string::npos ? std::string::npos : e - q); };
    std::string l = grab("runtime error: ");
    if (l.empty()) l = grab("Assertion");
    if (l.empty()) l = grab("SUMMARY: ");
    if (l.empty()) l = crash_signature(st, err);
    std::string clean; for (char ch : l) if (ch != '\'' && ch != '"' && ch != '`') clean += ch;
    what = clean.substr(0, 90);
  }
  unlink(errPath.c_str());
  return result;
}

// =============================================================================================
// reference lexer / renamer (identifier grammar of MathLexerImpl.l; shares no code with /repo)
size_t alnumLen(const std::string& s, size_t i) {
  if (i >= s.size()) return 0;
  const auto c = static_cast<unsigned char>(s[i]);
  if (c == '_' || (c >= '0' && c <= '9') || (c >= 'A' && c <= 'Z') || (c >= 'a' && c <= 'z')) return 1;
  if (i + 1 < s.size()) {  // U+03B1..U+03C9
    const auto d = static_cast<unsigned char>(s[i + 1]);
    if (c == 0xCE && d >= 0xB1 && d <= 0xBF) return 2;
    if (c == 0xCF && d >= 0x80 && d <= 0x89) return 2;
  }
  return 0;
}
bool allDigits(const std::string& s, size_t from) { if (from >= s.size()) return false; for (size_t i = from; i < s.size(); ++i) if (s[i] < '0' || s[i] > '9') return false; return true; }
bool isGlobalWord(const std::string& w) {  // ID_GLOBAL | ID_FUNCTION | ID_PREDICATE  (the library's "globals" filter)
  if (w.empty() || w[0] < 'A' || w[0] > 'Z' || w[0] == 'B') return false;
  if (w == "D" || w == "R" || w == "I" || w == "Z") return false;                 // keywords
  if (w.size() > 2 && (w.compare(0, 2, "Pr") == 0 || w.compare(0, 2, "Fi") == 0) && allDigits(w, 2)) return false;
  if (w[0] == 'R' && allDigits(w, 1)) return false;                               // radical
  return true;
}
struct Word { size_t b, e; };
std::vector<Word> globalWords(const std::string& s) {
  std::vector<Word> out; size_t i = 0; const size_t n = s.size();
  while (i < n) {
    if (s[i] >= '0' && s[i] <= '9') { while (i < n && s[i] >= '0' && s[i] <= '9') ++i; continue; }  // number
    if (s[i] == 'B') { ++i; continue; }                                                                // never starts an identifier
    size_t l = alnumLen(s, i);
    if (l == 0) { ++i; continue; }
    size_t j = i; while ((l = alnumLen(s, j)) != 0) j += l;
    if (isGlobalWord(s.substr(i, j - i))) out.push_back({ i, j });
    i = j;
  }
  return out;
}
using NameMap = std::map<std::string, std::string>;
std::string renameGlobals(const std::string& s, const NameMap& m) {  // simultaneous whole-token renaming
  std::string out; size_t pos = 0;
  for (auto& w : globalWords(s)) {
    out.append(s, pos, w.b - pos);
    const std::string t = s.substr(w.b, w.e - w.b);
    auto it = m.find(t); out += it == m.end() ? t : it->second; pos = w.e;
  }
  out.append(s, pos, std::string::npos);
  return out;
}
// observed == orig with every mention of a name in `ren` replaced by its image. A name that is not in `ren` (it does not resolve in
// its operand) may read anything in `observed`: the property speaks about mentions of constituents only, and such a name can be
// captured by an alias of the other operand.
bool matchRenamedGlobals(const std::string& orig, const NameMap& ren, const std::string& obs) {
  const auto wo = globalWords(orig), wb = globalWords(obs);
  if (wo.size() != wb.size()) return false;
  size_t po = 0, pb = 0;
  for (size_t i = 0; i < wo.size(); ++i) {
    if (orig.compare(po, wo[i].b - po, obs, pb, wb[i].b - pb) != 0) return false;
    auto it = ren.find(orig.substr(wo[i].b, wo[i].e - wo[i].b));
    if (it != ren.end() && obs.compare(wb[i].b, wb[i].e - wb[i].b, it->second) != 0) return false;
    po = wo[i].e; pb = wb[i].e;
  }
  return orig.compare(po, std::string::npos, obs, pb, std::string::npos) == 0;
}
std::set<std::string> mentions(const std::string& s) { std::set<std::string> r; for (auto& w : globalWords(s)) r.insert(s.substr(w.b, w.e - w.b)); return r; }

// entity references "@{NAME|tags}" in managed text: only the entity field is renamed
struct RefSpan { size_t b, e; };
std::vector<RefSpan> refNamesSpans(const std::string& raw) {
  std::vector<RefSpan> out;
  for (size_t p = raw.find("@{"); p != std::string::npos; p = raw.find("@{", p + 2)) {
    size_t b = p + 2, e = b;
    while (e < raw.size() && raw[e] != '|' && raw[e] != '}') ++e;
    if (e < raw.size() && raw[e] == '|' && e > b && ((raw[b] >= 'A' && raw[b] <= 'Z') || (raw[b] >= 'a' && raw[b] <= 'z'))) out.push_back({ b, e });
  }
  return out;
}
std::string renameRefs(const std::string& raw, const NameMap& m) {
  std::string out; size_t pos = 0;
  for (auto& w : refNamesSpans(raw)) {
    out.append(raw, pos, w.b - pos);
    const std::string t = raw.substr(w.b, w.e - w.b);
    auto it = m.find(t); out += it == m.end() ? t : it->second; pos = w.e;
  }
  out.append(raw, pos, std::string::npos);
  return out;
}
bool matchRenamedRefs(const std::string& orig, const NameMap& ren, const std::string& obs) {
  const auto wo = refNamesSpans(orig), wb = refNamesSpans(obs);
  if (wo.size() != wb.size()) return false;
  size_t po = 0, pb = 0;
  for (size_t i = 0; i < wo.size(); ++i) {
    if (orig.compare(po, wo[i].b - po, obs, pb, wb[i].b - pb) != 0) return false;
    auto it = ren.find(orig.substr(wo[i].b, wo[i].e - wo[i].b));
    if (it != ren.end() && obs.compare(wb[i].b, wb[i].e - wb[i].b, it->second) != 0) return false;
    po = wo[i].e; pb = wb[i].e;
  }
  return orig.compare(po, std::string::npos, obs, pb, std::string::npos) == 0;
}
std::set<std::string> refNames(const std::string& raw) { std::set<std::string> r; for (auto& w : refNamesSpans(raw)) r.insert(raw.substr(w.b, w.e - w.b)); return r; }

// =============================================================================================
// schema specifications and snapshots
struct Item { EntityUID uid; std::string alias; CstType type; std::string def, conv, term, text; };
struct Spec { std::string name; std::vector<Item> items; bool quick{ false }; };

char letterOf(CstType t) {
  switch (t) { case CstType::base: return 'X'; case CstType::constant: return 'C'; case CstType::structured: return 'S'; case CstType::axiom: return 'A';
               case CstType::term: return 'D'; case CstType::function: return 'F'; case CstType::theorem: return 'T'; case CstType::predicate: return 'P'; default: return '?'; }
}
std::string show(const Spec& s) {
  std::string o = s.name + "{";
  for (size_t i = 0; i < s.items.size(); ++i) {
    auto& it = s.items[i]; o += (i ? "; " : "") + it.alias + "#" + std::to_string(it.uid);
    if (!it.def.empty()) o += ":=" + it.def;
    if (!it.conv.empty()) o += " conv'" + it.conv + "'";
    if (!it.term.empty()) o += " term'" + it.term + "'";
    if (!it.text.empty()) o += " text'" + it.text + "'";
  }
  return o + "}";
}

std::unique_ptr<RSForm> build(const Spec& sp) {
  auto f = std::make_unique<RSForm>();
  for (auto& it : sp.items) {
    ConceptRecord r; r.uid = it.uid; r.alias = it.alias; r.type = it.type; r.rs = it.def; r.convention = it.conv;
    r.term = ccl::lang::LexicalTerm(it.term); r.definition = ccl::lang::ManagedText(it.text);
    f->Load(std::move(r));
  }
  f->UpdateState();
  return f;
}

std::string typeStr(const ccl::semantic::ParsingInfo& p) {
  if (!p.exprType.has_value()) return "-";
  std::string s;
  if (const auto* t = std::get_if<ccl::rslang::Typification>(&p.exprType.value())) s = t->ToString(); else s = "LOGIC";
  if (p.arguments.has_value()) { s += " ["; for (auto& a : *p.arguments) s += a.name + ":" + a.type.ToString() + ","; s += "]"; }
  return s;
}

struct CView { EntityUID uid{}; std::string alias; CstType type{}; std::string def, conv, term, text; int status{}; std::string typ; };
struct View {
  std::vector<CView> items;                 // list order
  std::map<EntityUID, size_t> byUid;
  std::map<std::string, size_t> byAlias;    // first in list order
  bool aliasUnique{ true }, listIsCore{ true };
  const CView* find(EntityUID u) const { auto it = byUid.find(u); return it == byUid.end() ? nullptr : &items[it->second]; }
  bool allVerified() const { for (auto& c : items) if (c.status != static_cast<int>(ParsingStatus::VERIFIED)) return false; return true; }
};
View snapshot(const RSForm& f) {
  View v;
  for (const auto uid : f.List()) {
    if (!f.Contains(uid)) { v.listIsCore = false; continue; }
    CView c; const auto& rs = f.GetRS(uid); const auto& tx = f.GetText(uid); const auto& pi = f.GetParse(uid);
    c.uid = uid; c.alias = rs.alias; c.type = rs.type; c.def = rs.definition; c.conv = rs.convention;
    c.term = tx.term.Text().Raw(); c.text = tx.definition.Raw(); c.status = static_cast<int>(pi.status); c.typ = typeStr(pi);
    if (v.byUid.count(uid)) v.listIsCore = false;
    v.byUid[uid] = v.items.size();
    if (!v.byAlias.emplace(c.alias, v.items.size()).second) v.aliasUnique = false;
    v.items.push_back(std::move(c));
  }
  if (v.items.size() != f.Core().size()) v.listIsCore = false;
  return v;
}
std::string show(const View& v) {
  std::string o = "{";
  for (size_t i = 0; i < v.items.size(); ++i) {
    auto& c = v.items[i]; o += (i ? "; " : "") + c.alias + "#" + std::to_string(c.uid);
    if (!c.def.empty()) o += ":=" + c.def;
    if (!c.conv.empty()) o += " conv'" + c.conv + "'";
    if (!c.term.empty()) o += " term'" + c.term + "'";
    if (!c.text.empty()) o += " text'" + c.text + "'";
    o += c.status == 1 ? " ok:" + c.typ : c.status == 2 ? " BAD" : " ?";
  }
  return o + "}";
}
bool sameContent(const CView& a, const CView& b) {
  return a.uid == b.uid && a.alias == b.alias && a.type == b.type && a.def == b.def && a.conv == b.conv && a.term == b.term && a.text == b.text && a.status == b.status && a.typ == b.typ;
}

// exact key of an RSForm: every owned field (DESIGN appendix D). The three dependency graphs are lazily rebuilt caches; they are
// dumped logically (inputs per vertex after forcing validity) - the twin-object protocol below keeps that from masking anything.
std::string graphDump(const ccl::graph::CGraph& g, const std::vector<EntityUID>& uids) {
  std::string s = "n" + std::to_string(g.ItemsCount()) + ":";
  for (auto u : uids) { auto in = g.InputsFor(u); std::vector<EntityUID> v(in.begin(), in.end()); std::sort(v.begin(), v.end()); s += std::to_string(u) + (g.Contains(u) ? "<" : "!<"); for (auto x : v) s += std::to_string(x) + ","; s += ";"; }
  return s;
}
std::string exactKey(const RSForm& f) {
  std::string s = "T" + f.title + "|A" + f.alias + "|C" + f.comment + "\n";
  std::vector<EntityUID> uids;
  for (const auto uid : f.List()) {
    s += "L" + std::to_string(uid);
    if (!f.Contains(uid)) { s += " DEAD\n"; continue; }
    const auto& rs = f.GetRS(uid); const auto& tx = f.GetText(uid); const auto& pi = f.GetParse(uid);
    s += "|" + std::to_string(rs.uid) + "|" + rs.alias + "|" + std::to_string(static_cast<int>(rs.type)) + "|" + rs.definition + "|" + rs.convention;
    s += "|" + std::to_string(tx.uid) + "|" + tx.alias + "|" + tx.term.Text().Raw() + "|" + tx.term.Nominal() + "|" + tx.definition.Raw() + "|" + tx.definition.Str();
    { std::vector<std::string> forms; for (auto& [m, t] : tx.term.GetAllManual()) forms.push_back(m.ToString() + "=" + t); std::sort(forms.begin(), forms.end()); for (auto& x : forms) s += "|m:" + x; }
    s += "|" + std::to_string(static_cast<int>(pi.status)) + "|" + typeStr(pi) + "|vc" + std::to_string(static_cast<int>(pi.valueClass)) + "|ast" + (pi.ast ? "1" : "0") + "\n";
  }
  for (const auto uid : f.Core()) uids.push_back(uid);
  std::sort(uids.begin(), uids.end());
  s += "core:"; for (auto u : uids) s += std::to_string(u) + ","; s += "\n";
  { std::vector<std::string> t; for (auto& [u, fl] : f.mods->cvs) t.push_back(std::to_string(u) + ":" + (fl.allowEdit ? "e" : "-") + (fl.term ? "t" : "-") + (fl.definition ? "d" : "-") + (fl.convention ? "c" : "-")); std::sort(t.begin(), t.end()); s += "mods:"; for (auto& x : t) s += x + ","; s += "\n"; }
  { std::vector<EntityUID> t(f.core.identifiers.idGenerator.entities.begin(), f.core.identifiers.idGenerator.entities.end()); std::sort(t.begin(), t.end()); s += "ids:"; for (auto x : t) s += std::to_string(x) + ","; s += "\n"; }
  { std::vector<std::string> t(f.core.identifiers.aliasGenerator.names.begin(), f.core.identifiers.aliasGenerator.names.end()); std::sort(t.begin(), t.end()); s += "names:"; for (auto& x : t) s += x + ","; s += "\n"; }
  s += "G:" + graphDump(f.RSLang().Graph(), uids) + "\nTG:" + graphDump(f.Texts().TermGraph(), uids) + "\nDG:" + graphDump(f.Texts().DefGraph(), uids) + "\n";
  return s;
}

std::string showMap(const std::map<EntityUID, EntityUID>& m) { std::string s = "{"; for (auto& [k, v] : m) s += std::to_string(k) + ">" + std::to_string(v) + " "; return s + "}"; }
std::map<EntityUID, EntityUID> toMap(const EntityTranslation& t) { std::map<EntityUID, EntityUID> m; for (const auto& [k, v] : t) m[k] = v; return m; }

// =============================================================================================
// C12 oracle shared by synth and inplace:  operands V[i] with total maps tau[i] into result R
struct Images {
  std::vector<const View*> ops;
  std::vector<std::map<EntityUID, EntityUID>> tau;
  std::set<std::string> extraTerms;      // texts a createNew equation may put into a term
  bool assertCorrectness{ false };       // operands fully correct and table equates like with like
};

bool hasDangling(const View& v) {
  for (auto& c : v.items) {
    for (auto& n : mentions(c.def)) if (!v.byAlias.count(n)) return true;
    for (auto& n : mentions(c.conv)) if (!v.byAlias.count(n)) return true;
    for (auto& n : refNames(c.term)) if (!v.byAlias.count(n)) return true;
    for (auto& n : refNames(c.text)) if (!v.byAlias.count(n)) return true;
  }
  return false;
}

// returns number of checks done; reports violations through c
int checkImages(Ctx& c, const Images& im, const View& R, const std::string& ctx) {
  int checks = 0;
  auto bad = [&](const std::string& sig, const std::string& msg, const std::string& obs = "", const std::string& exp = "") { c.fail("C12:" + sig, msg + " | " + ctx, obs, exp); };
  // unique aliases of the right kind, list is a permutation of the core
  ++checks; if (!R.aliasUnique) bad("alias-not-unique", "result has two constituents with one alias", show(R));
  ++checks; if (!R.listIsCore) bad("list-not-core", "result list is not a permutation of its constituents", show(R));
  for (auto& r : R.items) { ++checks; if (r.alias.size() < 2 || r.alias[0] != letterOf(r.type) || !allDigits(r.alias, 1)) bad("alias-kind", "alias does not fit the constituent kind: " + r.alias, show(R)); }
  // translations total, images live
  bool total = true;
  for (size_t i = 0; i < im.ops.size(); ++i) for (auto& oc : im.ops[i]->items) {
    ++checks;
    auto it = im.tau[i].find(oc.uid);
    if (it == im.tau[i].end()) { total = false; bad("translation-not-total", "operand " + std::to_string(i + 1) + " constituent " + oc.alias + "#" + std::to_string(oc.uid) + " has no image", showMap(im.tau[i])); }
    else if (R.find(it->second) == nullptr) { total = false; bad("translation-dead-image", "operand " + std::to_string(i + 1) + " constituent " + oc.alias + " is mapped to #" + std::to_string(it->second) + " which is not in the result", showMap(im.tau[i]) + " result " + show(R)); }
  }
  if (!total) return checks;
  // renamers and preimages
  std::vector<NameMap> ren(im.ops.size());
  std::map<EntityUID, std::vector<std::pair<size_t, const CView*>>> pre;
  for (size_t i = 0; i < im.ops.size(); ++i) for (auto& oc : im.ops[i]->items) {
    const CView* r = R.find(im.tau[i].at(oc.uid));
    if (im.ops[i]->byAlias.at(oc.alias) == im.ops[i]->byUid.at(oc.uid)) ren[i][oc.alias] = r->alias;
    pre[r->uid].push_back({ i, &oc });
  }
  for (auto& r : R.items) {
    ++checks;
    auto it = pre.find(r.uid);
    if (it == pre.end()) { bad("result-orphan", "result constituent " + r.alias + "#" + std::to_string(r.uid) + " is the image of no operand constituent", show(R)); continue; }
    bool okDef = false, okTerm = false, okText = false; std::string expDef, expTerm, expText;
    for (auto& [i, oc] : it->second) {
      const std::string d = renameGlobals(oc->def, ren[i]), cv = renameGlobals(oc->conv, ren[i]);
      if (oc->type == r.type && matchRenamedGlobals(oc->def, ren[i], r.def) && matchRenamedGlobals(oc->conv, ren[i], r.conv)) okDef = true;
      expDef += "[" + std::string(1, letterOf(oc->type)) + ":" + d + (cv.empty() ? "" : " conv'" + cv + "'") + "]";
      const std::string t = renameRefs(oc->term, ren[i]), x = renameRefs(oc->text, ren[i]);
      if (matchRenamedRefs(oc->term, ren[i], r.term)) okTerm = true;
      if (matchRenamedRefs(oc->text, ren[i], r.text)) okText = true;
      expTerm += "[" + t + "]"; expText += "[" + x + "]";
    }
    if (im.extraTerms.count(r.term)) okTerm = true;
    // witness class: a represented constituent mentions its own alias (sub-classifies the clause, does not change the verdict)
    bool selfMention = false;
    for (auto& [i, oc] : it->second) if (mentions(oc->def).count(oc->alias) || mentions(oc->conv).count(oc->alias) || refNames(oc->term).count(oc->alias) || refNames(oc->text).count(oc->alias)) selfMention = true;
    const std::string cls = selfMention ? ":self-mention" : "";
    if (!okDef) bad("mention-not-rewritten" + cls, "definition/convention of result " + r.alias + " is not the renamed definition of any constituent it represents", std::string(1, letterOf(r.type)) + ":" + r.def + (r.conv.empty() ? "" : " conv'" + r.conv + "'"), expDef);
    ++checks; if (!okTerm) bad("term-not-rewritten" + cls, "term of result " + r.alias + " is not the renamed term of any constituent it represents", r.term, expTerm);
    ++checks; if (!okText) bad("text-not-rewritten" + cls, "text definition of result " + r.alias + " is not the renamed text of any constituent it represents", r.text, expText);
  }
  // no dangling mention if the operands had none
  { bool opsClean = true; for (auto* o : im.ops) if (hasDangling(*o)) opsClean = false;
    if (opsClean) { ++checks; if (hasDangling(R)) bad("dangling-mention", "result mentions a name that does not resolve although no operand did", show(R)); } }
  // correctness and typification
  if (im.assertCorrectness) {
    for (auto& r : R.items) { ++checks; if (r.status != static_cast<int>(ParsingStatus::VERIFIED)) bad("result-incorrect", "operands fully correct, like equated with like, but result constituent " + r.alias + " is not correct", show(R)); }
    for (size_t i = 0; i < im.ops.size(); ++i) for (auto& oc : im.ops[i]->items) {
      const CView* r = R.find(im.tau[i].at(oc.uid)); ++checks;
      const std::string exp = renameGlobals(oc.typ, ren[i]);
      if (r->status == static_cast<int>(ParsingStatus::VERIFIED) && r->typ != exp) bad("typification-changed", "image " + r->alias + " of operand " + std::to_string(i + 1) + " constituent " + oc.alias + " changed typification", r->typ, exp);
    }
  }
  return checks;
}

// "like with like": same kind; base with base, constant with constant, otherwise equal typification after identifying the equated sets
struct EqEntry { int k, v; int mode; };   // indices into operand item lists (-1 = foreign identifier), mode 1..3
bool likeWithLike(const View& A, const View& B, const std::vector<EqEntry>& t, bool sameSchema = false) {
  NameMap ident;  // alias of key in A -> "=" + alias of value in B (tagged so that names of A and B cannot be confused)
  if (sameSchema) for (auto& b : B.items) ident[b.alias] = "=" + b.alias;   // in-place: an unequated name denotes the same constituent on both sides
  for (auto& e : t) { if (e.k < 0 || e.v < 0) return false; ident[A.items[static_cast<size_t>(e.k)].alias] = "=" + B.items[static_cast<size_t>(e.v)].alias; }
  NameMap tagB; for (auto& b : B.items) tagB[b.alias] = "=" + b.alias;
  for (auto& e : t) {
    auto& a = A.items[static_cast<size_t>(e.k)]; auto& b = B.items[static_cast<size_t>(e.v)];
    if (a.type != b.type) return false;
    if (a.type == CstType::base || a.type == CstType::constant) continue;
    if (a.type != CstType::structured && a.type != CstType::term) return false;
    if (a.status != 1 || b.status != 1) return false;
    if (renameGlobals(a.typ, ident) != renameGlobals(b.typ, tagB)) return false;   // unequated names of A stay untagged -> differ from any name of B
  }
  return true;
}

// =============================================================================================
// operand pool (C12)
const char* const kRef = "|nomn}";   // single-tag spelling: the library re-spells multi-tag lists when it rewrites a reference
std::string ref(const std::string& n) { return "@{" + n + kRef; }

std::vector<Spec> operandPool() {
  using T = CstType;
  std::vector<Spec> p;
  auto add = [&](const std::string& name, bool quick, std::vector<Item> items) { Spec s; s.name = name; s.items = std::move(items); s.quick = quick; p.push_back(std::move(s)); };
  // first in the (thorough) pool: the pair (elem, elem) holds the only known sanitizer-level fault, and engine E3 re-runs a shard from its
  // start after a dead worker - early is cheap
  add("elem", true, { { 101, "X1", T::base, "", "", "", "" }, { 102, "D1", T::term, "debool(X1)", "", "", "" }, { 103, "D2", T::term, "{D1}", "", "", "" } });
  add("E", false, {});
  add("X", true, { { 101, "X1", T::base, "", "", "a", "" } });
  add("XX", true, { { 101, "X1", T::base, "", "", "a", "" }, { 102, "X2", T::base, "", "", "b", "" } });
  add("XS", true, { { 101, "X1", T::base, "", "", "a", "" }, { 102, "S1", T::structured, "ℬ(X1)", "", "s", "" } });
  add("XD", true, { { 101, "X1", T::base, "", "", "", "" }, { 102, "D1", T::term, "X1\\X1", "", "d", "" }, { 103, "D2", T::term, "D1∪X1", "", "", "" } });
  add("bad", true, { { 101, "X1", T::base, "", "", "", "" }, { 102, "D1", T::term, "X1 invalid", "", "", "" }, { 103, "D2", T::term, "D1∪X1", "", "", "" } });
  add("self", true, { { 101, "X1", T::base, "", "", "a", "" }, { 102, "D1", T::term, "D1∪X1", "", "", ref("D1") + " of " + ref("X1") }, { 103, "D2", T::term, "X1", "", "", ref("D1") } });
  add("types", true, { { 101, "X1", T::base, "", "", "", "" }, { 102, "X2", T::base, "", "", "", "" }, { 103, "D1", T::term, "X1", "see X1 and D1", "", "" }, { 104, "D2", T::term, "X2", "", "", "" } });
  add("XXS", true, { { 101, "X1", T::base, "", "", "a", "" }, { 102, "X2", T::base, "", "", "b", "" }, { 103, "S1", T::structured, "ℬ(X1×X2)", "", "", "" } });
  add("CS", true, { { 101, "C1", T::constant, "", "", "c", "" }, { 102, "S1", T::structured, "ℬ(C1)", "", "", "" } });
  add("XCD", false, { { 101, "X1", T::base, "", "", "", "" }, { 102, "C1", T::constant, "", "", "", "" }, { 103, "D1", T::term, "X1×C1", "", "", "" } });
  add("far", false, { { 112, "X2", T::base, "", "", "", "" }, { 111, "X5", T::base, "", "", "", "" }, { 113, "S3", T::structured, "ℬ(X5×X2)", "", "", "" } });
  add("dangle", false, { { 101, "X1", T::base, "", "", "", "" }, { 102, "D1", T::term, "X1∪X3", "", "", "" } });
  add("kinds", false, { { 101, "X1", T::base, "", "", "", "" }, { 102, "A1", T::axiom, "X1=X1", "", "", "" }, { 103, "F1", T::function, "[α∈ℬ(X1)] α∪X1", "", "", "" }, { 104, "D1", T::term, "F1[X1]", "", "", "" } });
  add("refs", true, { { 101, "X1", T::base, "", "", "a", "" }, { 102, "X2", T::base, "", "", ref("X1") + " b", "" }, { 103, "D1", T::term, "X1", "", "", ref("X2") + " and " + ref("D1") } });
  // forward mentions: a term text that mentions a constituent listed later, and a derived constituent listed before the one it uses
  add("fwd", true, { { 101, "X1", T::base, "", "", "el of " + ref("D1"), "" }, { 103, "D2", T::term, "D1∪X1", "see D1", "", "" }, { 102, "D1", T::term, "X1\\X1", "", "d", "" } });
  add("dup", true, { { 101, "X1", T::base, "", "", "a", "" }, { 102, "D1", T::term, "X1", "", "d", "" }, { 103, "D2", T::term, "X1", "", "d", "" } });
  return p;
}
std::vector<Spec> inplaceExtraPool() {
  using T = CstType;
  std::vector<Spec> p;
  auto add = [&](const std::string& name, bool quick, std::vector<Item> items) { Spec s; s.name = name; s.items = std::move(items); s.quick = quick; p.push_back(std::move(s)); };
  add("I3", true, { { 101, "X1", T::base, "", "", "a", "" }, { 102, "X2", T::base, "", "", "b", "" }, { 103, "X3", T::base, "", "", ref("X1"), "" }, { 104, "S1", T::structured, "ℬ(X1×X2)", "", "", "" }, { 105, "S2", T::structured, "ℬ(X3×X2)", "", "", "" } });
  add("dup3", true, { { 101, "X1", T::base, "", "", "a", "" }, { 102, "D1", T::term, "X1", "", "d", "" }, { 103, "D2", T::term, "X1", "", "d", "" }, { 104, "D3", T::term, "X1", "", "d", "" } });
  // chains of three: the last depends on the first only THROUGH the middle one (formal definitions; term texts)
  add("chain3", true, { { 101, "X1", T::base, "", "", "", "" }, { 102, "D1", T::term, "X1\\X1", "", "", "" }, { 103, "D2", T::term, "D1∪X1", "", "", "" }, { 104, "D3", T::term, "D2∩X1", "", "", "" } });
  add("tchain3", true, { { 101, "X1", T::base, "", "", "a", "" }, { 102, "X2", T::base, "", "", "old " + ref("X1"), "" }, { 103, "X3", T::base, "", "", "very " + ref("X2"), "" } });
  add("I2", false, { { 101, "X1", T::base, "", "", "", "" }, { 102, "X2", T::base, "", "", "", "" }, { 103, "S1", T::structured, "ℬ(X1)", "", "", "" }, { 104, "S2", T::structured, "ℬ(X2)", "", "", "" }, { 105, "D1", T::term, "S1", "", "", "" }, { 106, "D2", T::term, "S2", "", "", "" } });
  return p;
}

constexpr EntityUID kForeign = 777;
const char* const kNewTerm = "fresh term";
const char kModeChar[4] = { '?', 'H', 'D', 'N' };

EquationOptions makeTable(const std::vector<EqEntry>& t, const std::vector<Item>& A, const std::vector<Item>& B, bool reverseInsertion) {
  EquationOptions eq;
  auto ins = [&](const EqEntry& e) {
    const EntityUID k = e.k < 0 ? kForeign : A[static_cast<size_t>(e.k)].uid, v = e.v < 0 ? kForeign : B[static_cast<size_t>(e.v)].uid;
    eq.Insert(k, v, Equation{ static_cast<Equation::Mode>(e.mode), e.mode == 3 ? std::string(kNewTerm) : std::string{} });
  };
  if (reverseInsertion) for (auto it = t.rbegin(); it != t.rend(); ++it) ins(*it); else for (auto& e : t) ins(e);
  return eq;
}
std::string showTable(const std::vector<EqEntry>& t, const std::vector<Item>& A, const std::vector<Item>& B) {
  std::string s = "[";
  for (size_t i = 0; i < t.size(); ++i) s += (i ? " " : "") + (t[i].k < 0 ? std::string("?777") : A[static_cast<size_t>(t[i].k)].alias) + ">" + (t[i].v < 0 ? std::string("?777") : B[static_cast<size_t>(t[i].v)].alias) + ":" + kModeChar[t[i].mode];
  return s + "]";
}

// all tables with <= maxEntries entries; keys distinct. sameSchema: key == value allowed (in-place); foreign identifiers in 1-entry tables
void forEachTable(int nA, int nB, int maxEntries, const std::function<void(const std::vector<EqEntry>&)>& f, bool allModePairs = false) {
  f({});
  if (maxEntries < 1) return;
  for (int k = -1; k < nA; ++k) for (int v = -1; v < nB; ++v) { if (k < 0 && v < 0) continue; for (int m = 1; m <= 3; ++m) f({ { k, v, m } }); }
  if (maxEntries < 2) return;
  static const int combos[3][2] = { { 1, 1 }, { 2, 3 }, { 3, 2 } };
  for (int k1 = 0; k1 < nA; ++k1) for (int k2 = k1 + 1; k2 < nA; ++k2) for (int v1 = 0; v1 < nB; ++v1) for (int v2 = 0; v2 < nB; ++v2)
  {
    if (allModePairs) { for (int m1 = 1; m1 <= 3; ++m1) for (int m2 = 1; m2 <= 3; ++m2) f({ { k1, v1, m1 }, { k2, v2, m2 } }); }
    else for (auto& cm : combos) f({ { k1, v1, cm[0] }, { k2, v2, cm[1] } });
  }
  if (maxEntries < 3) return;   // 3 entries: one mode assignment (H, D, N)
  for (int k1 = 0; k1 < nA; ++k1) for (int k2 = k1 + 1; k2 < nA; ++k2) for (int k3 = k2 + 1; k3 < nA; ++k3)
    for (int v1 = 0; v1 < nB; ++v1) for (int v2 = 0; v2 < nB; ++v2) for (int v3 = 0; v3 < nB; ++v3) f({ { k1, v1, 1 }, { k2, v2, 2 }, { k3, v3, 3 } });
}

// cached exact key of a fresh build (twin object): never touched by any operation
const std::string& twinKey(const Spec& s, std::map<std::string, std::string>& cache) {
  auto it = cache.find(s.name);
  if (it == cache.end()) it = cache.emplace(s.name, exactKey(*build(s))).first;
  return it->second;
}

// ---------------------------------------------------------------------------------------------
void run_synth(Ctx& c, const Options& opt) {
  const bool th = opt.thorough();
  std::vector<Spec> pool; for (auto& s : operandPool()) if (th || s.quick || opt.num("fullpool", 0)) pool.push_back(s);
  const int maxEntries = static_cast<int>(opt.num("entries", 2));
  const int policies = static_cast<int>(opt.num("policies", 2));
  const bool flips = opt.num("flips", th ? 1 : 0) != 0;
  std::map<std::string, std::string> twins;
  for (size_t ia = 0; ia < pool.size() && !c.stop(); ++ia) for (size_t ib = 0; ib < pool.size() && !c.stop(); ++ib) {
    const Spec& SA = pool[ia]; const Spec& SB = pool[ib];
    forEachTable(static_cast<int>(SA.items.size()), static_cast<int>(SB.items.size()), maxEntries, [&](const std::vector<EqEntry>& t) {
      for (int pol = 0; pol < policies; ++pol) for (int flip = 0; flip < ((flips && t.size() == 2) ? 2 : 1); ++flip) {
        if (!c.take()) continue;
        const std::string desc = "synth A=" + show(SA) + " B=" + show(SB) + " eq=" + showTable(t, SA.items, SB.items) + " pol=" + std::to_string(pol) + (flip ? " rev" : "");
        c.begin(desc);
        uidpolicy::install(pol);
        auto A = build(SA); auto B = build(SB);
        const View VA = snapshot(*A), VB = snapshot(*B);
        const EquationOptions eq = makeTable(t, SA.items, SB.items, flip != 0);
        std::unique_ptr<ccl::ops::BinarySynthes> opp; std::unique_ptr<RSForm> res; bool correct = false;
        if (t.size() >= 3) {
          std::string what;
          const int pf = preflight([&] { ccl::ops::BinarySynthes probe(*A, *B, eq); if (probe.IsCorrectlyDefined()) (void)probe.Execute(); }, static_cast<int>(opt.num("hang-after", 10)), what);
          if (pf == 1) c.fail("C12:fault:hang", "BinarySynthes did not return within " + std::to_string(opt.num("hang-after", 10)) + " s (killed in a forked child)");
          if (pf == 2) c.fail("C12:fault:died:" + what, "BinarySynthes killed the forked child it was pre-flighted in: " + what);
          if (pf != 0) { c.rep.outcome(pf == 1 ? "fault-hang" : "fault-died"); c.rep.count("evaluations"); c.rep.count("faults"); c.done(); continue; }
        }
        if (!guarded(c, "C12", "BinarySynthes", [&] { opp = std::make_unique<ccl::ops::BinarySynthes>(*A, *B, eq); correct = opp->IsCorrectlyDefined(); res = opp->Execute(); })) {
          (void)A.release(); (void)B.release(); (void)opp.release(); (void)res.release();
          c.rep.count("evaluations"); c.rep.count("faults"); c.done(); continue;
        }
        auto& op = *opp;
        int checks = 0;
        ++checks; if (correct != (res != nullptr)) c.fail("C12:synth-defined-vs-execute", "IsCorrectlyDefined and Execute disagree", res ? "result" : "null", correct ? "result" : "null");
        // operands are never modified
        ++checks; if (exactKey(*A) != twinKey(SA, twins)) c.fail("C12:synth-operand-modified", "operand 1 changed", exactKey(*A), twinKey(SA, twins));
        ++checks; if (exactKey(*B) != twinKey(SB, twins)) c.fail("C12:synth-operand-modified", "operand 2 changed", exactKey(*B), twinKey(SB, twins));
        bool foreign = false; for (auto& e : t) if (e.k < 0 || e.v < 0) foreign = true;
        const bool like = !foreign && likeWithLike(VA, VB, t);
        const bool opsCorrect = VA.allVerified() && VB.allVerified();
        // anchors (upstream testSynthes): the empty table and one base-with-base entry are admissible
        if (t.empty() || (t.size() == 1 && !foreign && VA.items[static_cast<size_t>(t[0].k)].type == CstType::base && VB.items[static_cast<size_t>(t[0].v)].type == CstType::base)) {
          ++checks; if (!res) c.fail("C12:synth-admissible-refused", "empty table / single base-with-base equation refused");
        }
        if (foreign) { ++checks; if (res) c.fail("C12:synth-foreign-accepted", "table with an identifier that is in neither operand was accepted"); }
        std::string cls;
        if (res) {
          const View R = snapshot(*res);
          Images im; im.ops = { &VA, &VB };
          const auto& tr = op.Translations();
          if (tr.size() != 2) { c.fail("C12:synth-translations-count", "Translations() must have one entry per operand", std::to_string(tr.size()), "2"); }
          else {
            im.tau = { toMap(tr[0]), toMap(tr[1]) };
            for (auto& e : t) if (e.mode == 3) im.extraTerms.insert(kNewTerm);
            im.assertCorrectness = like && opsCorrect;
            const std::string ctx = "result " + show(R) + " tr1=" + showMap(im.tau[0]) + " tr2=" + showMap(im.tau[1]);
            checks += checkImages(c, im, R, ctx);
            for (auto& e : t) {  // equated pairs have one survivor
              ++checks;
              auto i1 = im.tau[0].find(SA.items[static_cast<size_t>(e.k)].uid); auto i2 = im.tau[1].find(SB.items[static_cast<size_t>(e.v)].uid);
              if (i1 != im.tau[0].end() && i2 != im.tau[1].end() && i1->second != i2->second)
                c.fail("C12:equated-pair-two-survivors", "equated pair " + SA.items[static_cast<size_t>(e.k)].alias + "~" + SB.items[static_cast<size_t>(e.v)].alias + " maps to two result constituents | " + ctx);
            }
          }
          cls = std::string("accepted") + (t.empty() ? "-merge" : "") + (like ? "-like" : "-unlike") + (opsCorrect ? "-correct" : "-incorrect") + (R.allVerified() ? ">correct" : ">incorrect") +
                (R.items.size() < VA.items.size() + VB.items.size() - t.size() ? "+dups" : "");
          if (!t.empty() || R.items.size() < VA.items.size() + VB.items.size()) c.rep.count("nontrivial");
        } else cls = std::string("refused") + (foreign ? "-foreign" : like ? "-like" : "-unlike");
        c.rep.count("evaluations"); c.rep.count("checks", static_cast<uint64_t>(checks)); c.rep.outcome(cls);
        if (c.idx % 4999 == 1) c.rep.sample(desc + " => " + cls);
        c.done();
      }
    }, opt.num("allmodes", 0) != 0);   // --allmodes 1: all 9 mode pairs for 2-entry tables (3x the cases; not registered)
  }
}

// ---------------------------------------------------------------------------------------------
void run_inplace(Ctx& c, const Options& opt) {
  const bool th = opt.thorough();
  (void)th;   // the in-place pool is the same in both tiers (cheap); the tiers differ in the table size
  std::vector<Spec> pool = operandPool();
  for (auto& s : inplaceExtraPool()) pool.push_back(s);
  const std::vector<Spec> others = operandPool();
  const int maxEntries = static_cast<int>(opt.num("entries", 2));
  const int policies = static_cast<int>(opt.num("policies", 2));
  std::map<std::string, std::string> twins;
  for (size_t is = 0; is < pool.size() && !c.stop(); ++is) {
    const Spec& S = pool[is]; const int n = static_cast<int>(S.items.size());
    // --- Equate / IsEquatable
    forEachTable(n, n, maxEntries, [&](const std::vector<EqEntry>& t) {
      for (int pol = 0; pol < policies; ++pol) for (int flip = 0; flip < (t.size() == 2 ? 2 : 1); ++flip) {
        if (!c.take()) continue;
        const std::string desc = "equate S=" + show(S) + " eq=" + showTable(t, S.items, S.items) + " pol=" + std::to_string(pol) + (flip ? " rev" : "");
        c.begin(desc);
        uidpolicy::install(pol);
        auto F = build(S); auto G = build(S);
        const View V0 = snapshot(*F);
        const EquationOptions eq = makeTable(t, S.items, S.items, flip != 0);
        int checks = 0;
        bool can = false; std::optional<EntityTranslation> tr;
        if (t.size() >= 3) {
          std::string what;
          const int pf = preflight([&] { if (F->Ops().IsEquatable(eq)) (void)F->Ops().Equate(eq); }, static_cast<int>(opt.num("hang-after", 10)), what);
          if (pf == 1) c.fail("C12:fault:hang", "IsEquatable/Equate did not return within " + std::to_string(opt.num("hang-after", 10)) + " s (killed in a forked child; normal cost is a few milliseconds)");
          if (pf == 2) c.fail("C12:fault:died:" + what, "IsEquatable/Equate killed the forked child it was pre-flighted in: " + what);
          if (pf != 0) { c.rep.outcome(pf == 1 ? "fault-hang" : "fault-died"); c.rep.count("evaluations"); c.rep.count("faults"); c.done(); continue; }
        }
        if (!guarded(c, "C12", "IsEquatable/Equate", [&] { can = F->Ops().IsEquatable(eq); })) { (void)F.release(); c.rep.count("evaluations"); c.rep.count("faults"); c.done(); continue; }
        ++checks; if (exactKey(*F) != twinKey(S, twins)) c.fail("C12:isequatable-modifies", "IsEquatable changed the schema", exactKey(*F), twinKey(S, twins));
        if (!guarded(c, "C12", "Equate", [&] { tr = G->Ops().Equate(eq); })) { (void)G.release(); c.rep.count("evaluations"); c.rep.count("faults"); c.done(); continue; }   // on the twin G (fresh)
        ++checks; if (can != tr.has_value()) c.fail("C12:isequatable-disagrees", "IsEquatable and Equate disagree on admissibility", tr ? "equated" : "refused", can ? "equatable" : "not equatable");
        bool foreign = false, selfEq = false; for (auto& e : t) { if (e.k < 0 || e.v < 0) foreign = true; else if (e.k == e.v) selfEq = true; }
        if (t.empty() || foreign || selfEq) { ++checks; if (tr) c.fail("C12:equate-inadmissible-accepted", "empty table / foreign identifier / constituent equated with itself was accepted"); }
        const bool like = !foreign && !selfEq && !t.empty() && likeWithLike(V0, V0, t, true);
        std::string cls;
        if (!tr) {
          ++checks; if (exactKey(*G) != twinKey(S, twins)) c.fail("C12:refused-but-modified", "Equate refused the table but the schema changed", exactKey(*G), twinKey(S, twins));
          cls = std::string("equate-refused") + (like ? "-like" : "-unlike");
          if (like && opt.num("show-refused-like", 0)) c.rep.notes.push_back(desc);
        } else {
          const View R = snapshot(*G);
          Images im; im.ops = { &V0 };
          std::map<EntityUID, EntityUID> tau = toMap(*tr);
          const std::string ctx = "result " + show(R) + " tr=" + showMap(tau);
          for (auto& [k, v] : tau) { ++checks; if (R.find(k) != nullptr) c.fail("C12:translated-key-still-live", "constituent #" + std::to_string(k) + " is translated away but still in the schema | " + ctx); }
          for (auto& oc : V0.items) if (!tau.count(oc.uid)) tau[oc.uid] = oc.uid;   // not mentioned in the translation: keeps its identity
          im.tau = { tau };
          for (auto& e : t) if (e.mode == 3) im.extraTerms.insert(kNewTerm);
          im.assertCorrectness = like && V0.allVerified();
          checks += checkImages(c, im, R, ctx);
          if (opt.kv.count("trace") && desc.find(opt.kv.at("trace")) != std::string::npos) c.rep.notes.push_back(desc + " => like=" + (like ? "1" : "0") + " " + ctx);
          for (auto& e : t) { ++checks; if (tau.at(S.items[static_cast<size_t>(e.k)].uid) != tau.at(S.items[static_cast<size_t>(e.v)].uid)) c.fail("C12:equated-pair-two-survivors", "equated pair maps to two constituents | " + ctx); }
          cls = std::string("equate-accepted") + (like ? "-like" : "-unlike") + (V0.allVerified() ? "-correct" : "-incorrect") + (R.allVerified() ? ">correct" : ">incorrect") + (tr->size() > t.size() ? "+dups" : "");
          c.rep.count("nontrivial");
          // a SECOND equation on the same object (the first two constituents of one kind that are left): the translation it returns
          // speaks about THIS call's operand (= R) only - no keys that are not constituents of R, every image in the new result
          if (t.size() == 1 && flip == 0) {
            const CView* a = nullptr; const CView* b = nullptr;
            for (size_t i = 0; i < R.items.size() && b == nullptr; ++i) for (size_t j = i + 1; j < R.items.size(); ++j) if (R.items[i].type == R.items[j].type) { a = &R.items[i]; b = &R.items[j]; break; }
            if (a != nullptr && b != nullptr) {
              EquationOptions eq2; eq2.Insert(a->uid, b->uid, Equation{ static_cast<Equation::Mode>(1), std::string{} });
              std::optional<EntityTranslation> tr2;
              if (guarded(c, "C12", "Equate(second)", [&] { tr2 = G->Ops().Equate(eq2); }) && tr2.has_value()) {
                const View R2 = snapshot(*G);
                std::map<EntityUID, EntityUID> tau2 = toMap(*tr2);
                const std::string ctx2 = "second equation " + a->alias + ">" + b->alias + " on " + show(R) + " | result " + show(R2) + " tr=" + showMap(tau2);
                for (auto& [k2, v2] : tau2) {
                  checks += 2;
                  if (R.find(k2) == nullptr) c.fail("C12:translation-key-not-in-operand", "the returned translation has a key that is not a constituent of the schema the equation was applied to | " + ctx2);
                  if (R2.find(v2) == nullptr) c.fail("C12:translation-image-missing", "the returned translation maps to a constituent that does not exist in the result | " + ctx2);
                }
                ++checks; if (!tau2.count(a->uid) && !tau2.count(b->uid)) c.fail("C12:equated-pair-not-translated", "neither side of the equated pair is in the returned translation | " + ctx2);
                c.rep.count("second_equations");
              }
            }
          }
        }
        c.rep.count("evaluations"); c.rep.count("checks", static_cast<uint64_t>(checks)); c.rep.outcome(cls);
        if (c.idx % 1999 == 1) c.rep.sample(desc + " => " + cls);
        c.done();
      }
    });
    // --- DeleteDuplicates
    for (int pol = 0; pol < policies; ++pol) {
      if (!c.take()) continue;
      const std::string desc = "dedup S=" + show(S) + " pol=" + std::to_string(pol);
      c.begin(desc);
      uidpolicy::install(pol);
      auto G = build(S); const View V0 = snapshot(*G);
      EntityTranslation tr;
      if (!guarded(c, "C12", "DeleteDuplicates", [&] { tr = G->Ops().DeleteDuplicates(); })) { (void)G.release(); c.rep.count("evaluations"); c.rep.count("faults"); c.done(); continue; }
      int checks = 0; std::string cls;
      if (tr.empty()) { ++checks; if (exactKey(*G) != twinKey(S, twins)) c.fail("C12:refused-but-modified", "DeleteDuplicates reported nothing removed but the schema changed", exactKey(*G), twinKey(S, twins)); cls = "dedup-none"; }
      else {
        const View R = snapshot(*G); Images im; im.ops = { &V0 };
        std::map<EntityUID, EntityUID> tau = toMap(tr);
        const std::string ctx = "result " + show(R) + " tr=" + showMap(tau);
        for (auto& [k, v] : tau) { ++checks; if (R.find(k) != nullptr) c.fail("C12:translated-key-still-live", "constituent #" + std::to_string(k) + " is translated away but still in the schema | " + ctx); }
        for (auto& oc : V0.items) if (!tau.count(oc.uid)) tau[oc.uid] = oc.uid;
        im.tau = { tau }; im.assertCorrectness = V0.allVerified();
        checks += checkImages(c, im, R, ctx);
        cls = "dedup-removed"; c.rep.count("nontrivial");
      }
      c.rep.count("evaluations"); c.rep.count("checks", static_cast<uint64_t>(checks)); c.rep.outcome(cls);
      c.done();
    }
    // --- MergeWith(other), incl. itself
    for (size_t io = 0; io <= others.size(); ++io) for (int pol = 0; pol < policies; ++pol) {
      if (!c.take()) continue;
      const bool selfMerge = io == others.size();
      const Spec& O = selfMerge ? S : others[io];
      const std::string desc = std::string("merge S=") + show(S) + (selfMerge ? " with ITSELF" : " with O=" + show(O)) + " pol=" + std::to_string(pol);
      c.begin(desc);
      uidpolicy::install(pol);
      auto G = build(S); auto OB = build(O);
      const View V0 = snapshot(*G), VO = snapshot(*OB);
      EntityTranslation tr;
      if (!guarded(c, "C12", "MergeWith", [&] { tr = selfMerge ? G->Ops().MergeWith(*G) : G->Ops().MergeWith(*OB); G->UpdateState(); /* as BinarySynthes does after merging */ })) {
        (void)G.release(); (void)OB.release(); c.rep.count("evaluations"); c.rep.count("faults"); c.done(); continue;
      }
      int checks = 0;
      if (!selfMerge) { ++checks; if (exactKey(*OB) != twinKey(O, twins)) c.fail("C12:merge-operand-modified", "the merged-in schema changed", exactKey(*OB), twinKey(O, twins)); }
      const View R = snapshot(*G); Images im; im.ops = { &V0, selfMerge ? &V0 : &VO };
      std::map<EntityUID, EntityUID> id; for (auto& oc : V0.items) id[oc.uid] = oc.uid;
      im.tau = { id, toMap(tr) }; im.assertCorrectness = V0.allVerified() && im.ops[1]->allVerified();
      const std::string ctx = "result " + show(R) + " tr=" + showMap(im.tau[1]);
      checks += checkImages(c, im, R, ctx);
      ++checks; if (R.items.size() != V0.items.size() + im.ops[1]->items.size()) c.fail("C12:merge-size", "merge must add one constituent per constituent of the other schema | " + ctx, std::to_string(R.items.size()), std::to_string(V0.items.size() + im.ops[1]->items.size()));
      for (auto& oc : V0.items) { ++checks; const CView* r = R.find(oc.uid); if (r && !sameContent(*r, oc)) c.fail("C12:merge-touches-host", "constituent " + oc.alias + " of the host schema changed | " + ctx); }
      c.rep.count("evaluations"); c.rep.count("checks", static_cast<uint64_t>(checks)); c.rep.outcome(std::string("merge") + (R.allVerified() ? ">correct" : ">incorrect"));
      if (!im.ops[1]->items.empty()) c.rep.count("nontrivial");
      if (c.idx % 1999 == 2) c.rep.sample(desc);
      c.done();
    }
  }
}

// =============================================================================================
// C13
struct C13Schema { std::vector<std::string> defs; bool conv{ false }; };   // definitions of D1..Dk; conv: every constituent carries a convention text

std::string product(const std::vector<std::string>& names) { std::string s; for (size_t i = 0; i < names.size(); ++i) s += (i ? "×" : "") + names[i]; return s; }

// definition pool for Di among k derived constituents: pure[] realises every subset of the other derived names (with / without a base set)
void defPool(int k, int i, std::vector<std::string>& pure, std::vector<std::string>& extra, bool withB) {
  std::vector<int> others; for (int j = 1; j <= k; ++j) if (j != i) others.push_back(j);
  for (int m = 0; m < (1 << others.size()); ++m) {
    std::vector<std::string> names{ "X1" };
    for (size_t b = 0; b < others.size(); ++b) if (m & (1 << b)) names.push_back("D" + std::to_string(others[b]));
    pure.push_back(product(names));
    if (m != 0 && withB) { names.erase(names.begin()); pure.push_back(product(names)); }
  }
  const std::string me = "D" + std::to_string(i);
  extra = { "", "X1 invalid", "X2", "X1×X2", "Z", me + "×X1", "D9×X1" };
}

struct Src { std::unique_ptr<RSForm> f; std::vector<EntityUID> uids; };  // uids: X1, X2, D1..Dk

Spec c13Spec(const C13Schema& sc, int pol) {
  Spec s; s.name = "c13";
  const int n = 2 + static_cast<int>(sc.defs.size());
  for (int i = 0; i < n; ++i) {
    Item it; it.uid = pol == 0 ? static_cast<EntityUID>(101 + i) : static_cast<EntityUID>(200 - i);
    if (i < 2) { it.alias = "X" + std::to_string(i + 1); it.type = CstType::base; it.term = i == 0 ? "a" : "b"; }
    else { it.alias = "D" + std::to_string(i - 1); it.type = CstType::term; it.def = sc.defs[static_cast<size_t>(i - 2)]; it.term = "t" + std::to_string(i - 1); }
    if (sc.conv) it.conv = "note on " + it.alias;   // a constituent with an empty definition but a convention is still undefined for OpMaxPart
    s.items.push_back(it);
  }
  return s;
}

std::string showSel(const View& V, unsigned mask, bool foreign) { std::string s = "{"; for (size_t i = 0; i < V.items.size(); ++i) if (mask & (1u << i)) s += V.items[i].alias + ","; if (foreign) s += "?777,"; return s + "}"; }

// one case = one (schema, order, policy); all selections inside. op: 0 basis, 1 maxpart
void c13_case(Ctx& c, const C13Schema& sc, const std::vector<int>& order /* permutation of item indices */, int pol, int op, const std::string& baseDesc) {
  uidpolicy::install(pol);
  const Spec spec = c13Spec(sc, pol);
  auto F = build(spec);
  const char* opn = op == 0 ? "basis" : "maxpart";
  const std::string P = std::string("C13:") + opn + "-";
  // realise the list order with MoveBefore
  bool reachable = true;
  for (size_t pos = 0; pos < order.size(); ++pos) {
    auto it = F->List().begin(); for (size_t k = 0; k < pos; ++k) ++it;
    const EntityUID want = spec.items[static_cast<size_t>(order[pos])].uid;
    if (*it == want) continue;
    if (!F->MoveBefore(want, it)) { reachable = false; break; }
  }
  if (!reachable) { c.rep.outcome("order-refused-by-MoveBefore"); c.rep.count("orders_refused"); return; }
  const View V = snapshot(*F);
  { bool ok = V.items.size() == order.size(); for (size_t i = 0; ok && i < order.size(); ++i) ok = V.items[i].uid == spec.items[static_cast<size_t>(order[i])].uid;
    if (!ok) { c.fail("C13:harness-order", "MoveBefore reported success but the list order is not the requested one", show(V)); return; } }
  const std::string key0 = exactKey(*F);
  const size_t n = V.items.size();
  // dependency relation as text, cross-checked with the library's graph
  std::vector<unsigned> deps(n, 0);
  for (size_t i = 0; i < n; ++i) {
    for (auto& name : mentions(V.items[i].def)) { auto it = V.byAlias.find(name); if (it != V.byAlias.end()) deps[i] |= 1u << it->second; }
    unsigned lib = 0; for (auto u : F->RSLang().Graph().InputsFor(V.items[i].uid)) { auto it = V.byUid.find(u); if (it != V.byUid.end()) lib |= 1u << it->second; else lib |= 1u << 31; }
    if (lib != deps[i]) c.fail("C13:graph-inputs-differ", "dependency graph of the schema differs from the names mentioned in the definition of " + V.items[i].alias, std::to_string(lib), std::to_string(deps[i]));
  }
  const unsigned full = (1u << n) - 1;
  for (unsigned sel = 0; sel <= full + 1; ++sel) {
    const bool foreign = sel == full + 1;             // last: one selection containing an identifier that is not in the schema
    const unsigned mask = foreign ? 1u : sel;
    const std::string desc = baseDesc + " sel=" + showSel(V, mask, foreign);
    c.begin(desc);
    SetOfEntities args; for (size_t i = 0; i < n; ++i) if (mask & (1u << i)) args.insert(V.items[i].uid);
    if (foreign) args.insert(kForeign);
    std::unique_ptr<RSForm> res; bool defined = false;
    if (!guarded(c, "C13", opn, [&] {
          if (op == 0) { ccl::ops::OpExtractBasis o(*F, args); defined = o.IsCorrectlyDefined(); res = o.Execute(); }
          else { ccl::ops::OpMaxPart o(*F, args); defined = o.IsCorrectlyDefined(); res = o.Execute(); } })) {
      (void)F.release(); (void)res.release(); c.rep.count("evaluations"); c.rep.count("faults"); return;
    }
    int checks = 0;
    ++checks; if (defined != (res != nullptr)) c.fail(P + "defined-vs-execute", "IsCorrectlyDefined and Execute disagree", res ? "result" : "null", defined ? "result" : "null");
    // the source is const for the operation: observable content compared after every selection, the exact private-state key once at the end
    { const View now = snapshot(*F); bool same = now.items.size() == V.items.size(); for (size_t i = 0; same && i < n; ++i) same = sameContent(now.items[i], V.items[i]);
      ++checks; if (!same) { c.fail(P + "source-modified", "the source schema changed", show(now), show(V)); return; } }
    c.rep.count("evaluations");
    // transitive closure / least fixpoint (own code)
    unsigned closure = mask; for (bool ch = true; ch;) { ch = false; for (size_t i = 0; i < n; ++i) if ((closure & (1u << i)) && (deps[i] & ~closure)) { closure |= deps[i]; ch = true; } }
    unsigned least = mask; for (bool ch = true; ch;) { ch = false; for (size_t i = 0; i < n; ++i) if (!(least & (1u << i)) && !V.items[i].def.empty() && !(deps[i] & ~least)) { least |= 1u << i; ch = true; } }
    // preconditions documented upstream: non-empty selection of existing constituents; for the maximal part additionally every selected
    // constituent that is not a base set has its dependencies inside the selection. A selection meeting them must be served.
    bool mustServe = mask != 0 && !foreign;
    bool selClosed = true; for (size_t i = 0; i < n; ++i) if ((mask & (1u << i)) && V.items[i].type != CstType::base && (deps[i] & ~mask)) selClosed = false;
    if (op == 1 && !selClosed) mustServe = false;
    if (mask == 0 || foreign) { ++checks; if (res) c.fail(P + "inadmissible-served", "empty selection / foreign identifier must be refused"); }
    if (!res) {
      ++checks; if (mustServe) c.fail(P + "refused", "admissible selection refused");
      c.rep.outcome(std::string(opn) + "-refused" + (mask == 0 ? "-empty" : foreign ? "-foreign" : "-open-selection")); c.rep.count("checks", static_cast<uint64_t>(checks));
      continue;
    }
    const View R = snapshot(*res);
    const std::string ctx = "source " + show(V) + " result " + show(R);
    // identify result members with source constituents (the operations keep identifiers)
    unsigned got = 0; bool ident = true;
    for (auto& r : R.items) { auto it = V.byUid.find(r.uid); if (it == V.byUid.end()) ident = false; else got |= 1u << it->second; }
    ++checks; if (!ident || !R.listIsCore) { c.fail(P + "unidentifiable", "result contains a constituent that cannot be traced to the source | " + ctx); c.rep.count("checks", static_cast<uint64_t>(checks)); continue; }
    auto names = [&](unsigned m) { std::string s = "{"; for (size_t i = 0; i < n; ++i) if (m & (1u << i)) s += V.items[i].alias + ","; return s + "}"; };
    bool membersOk = true;
    if (op == 0) { ++checks; if (got != closure) { membersOk = false; c.fail(P + (got & ~closure ? "extra-member" : "missing-member"), "basis must be the selection plus everything it transitively depends on | " + ctx, names(got), names(closure)); } }
    else {
      ++checks; if (mask & ~got) { membersOk = false; c.fail(P + "selection-lost", "selected constituent missing from the maximal part | " + ctx, names(got), names(least)); }
      for (size_t i = 0; i < n; ++i) {
        const bool qualifies = !V.items[i].def.empty() && !(deps[i] & ~got);
        ++checks;
        if ((got & (1u << i)) && !(mask & (1u << i)) && !qualifies) { membersOk = false; c.fail(P + "extra-member", V.items[i].alias + " is in the maximal part but is neither selected nor has a non-empty definition with all dependencies inside | " + ctx, names(got), names(least)); }
        if (!(got & (1u << i)) && qualifies) { membersOk = false; c.fail(P + "missing-member", V.items[i].alias + " has a non-empty definition and all its dependencies lie inside the result but it is not in the result | " + ctx, names(got), names(least)); }
      }
    }
    // closed: nothing that resolved in the source dangles in the result
    for (size_t i = 0; i < n; ++i) if (got & (1u << i)) { ++checks; if (deps[i] & ~got) { c.fail(P + "dangling", "definition of " + V.items[i].alias + " mentions a constituent of the source that is not in the result | " + ctx, names(got)); } }
    // relative order
    { std::vector<EntityUID> exp; for (size_t i = 0; i < n; ++i) if (got & (1u << i)) exp.push_back(V.items[i].uid);
      std::vector<EntityUID> obs; for (auto& r : R.items) obs.push_back(r.uid);
      ++checks; if (exp != obs) c.fail(P + "order", "constituents do not keep their relative order | " + ctx); }
    // unique aliases; every member equals its source up to the renumbering
    ++checks; if (!R.aliasUnique) c.fail(P + "alias-not-unique", "result has duplicate aliases | " + ctx);
    NameMap ren; for (auto& r : R.items) ren[V.items[V.byUid.at(r.uid)].alias] = r.alias;
    for (auto& r : R.items) {
      const CView& s = V.items[V.byUid.at(r.uid)];
      ++checks; if (r.alias.size() < 2 || r.alias[0] != letterOf(r.type) || !allDigits(r.alias, 1)) c.fail(P + "alias-kind", "alias does not fit the kind | " + ctx);
      ++checks; if (r.type != s.type || r.def != renameGlobals(s.def, ren) || r.conv != renameGlobals(s.conv, ren)) c.fail(P + "definition", "definition of " + r.alias + " is not the renumbered definition of " + s.alias + " | " + ctx, r.def, renameGlobals(s.def, ren));
      ++checks; if (r.term != renameRefs(s.term, ren) || r.text != renameRefs(s.text, ren)) c.fail(P + "texts", "term / text of " + r.alias + " differ from " + s.alias + " | " + ctx, r.term + " / " + r.text, s.term + " / " + s.text);
      ++checks; if (r.status != s.status) c.fail(P + "status", "correctness status of " + s.alias + " (now " + r.alias + ") changed | " + ctx, std::to_string(r.status), std::to_string(s.status));
      ++checks; if (r.status == s.status && r.typ != renameGlobals(s.typ, ren)) c.fail(P + "typification", "typification of " + s.alias + " (now " + r.alias + ") changed | " + ctx, r.typ, renameGlobals(s.typ, ren));
    }
    const bool renumbered = [&] { for (auto& [a, b] : ren) if (a != b) return true; return false; }();
    c.rep.count("checks", static_cast<uint64_t>(checks));
    if (got != mask || renumbered) c.rep.count("nontrivial");
    c.rep.outcome(std::string(opn) + (got == mask ? "-selection-only" : "-grown") + (renumbered ? "-renumbered" : "") + (R.allVerified() ? "-correct" : "-has-incorrect") + (op == 1 && membersOk && got != least ? "-nonleast-fixpoint" : ""));
  }
  c.cur_desc = baseDesc;
  if (exactKey(*F) != key0) c.fail(P + "source-modified", "the source schema (exact private state) changed while serving the selections", exactKey(*F), key0);
}

void run_c13(Ctx& c, const Options& opt, int op) {
  const bool th = opt.thorough();
  const int kmax = static_cast<int>(opt.num("kmax", th ? 4 : 3));
  const int policies = static_cast<int>(opt.num("policies", th ? 2 : 1));
  for (int k = 0; k <= kmax && !c.stop(); ++k) {
    // per-k enumeration parameters
    const int maxExtras = static_cast<int>(opt.num("extras" + std::to_string(k), k <= 2 ? k : (k == 3 ? 1 : 0)));   // how many constituents may take an extra (non-pure) definition
    const bool withB = opt.num("noX" + std::to_string(k), (k <= 2 || (th && k == 3)) ? 1 : 0) != 0;                                     // pure definitions without the base set
    const bool acyclicOnly = opt.num("acyclic" + std::to_string(k), k >= 4 ? 1 : 0) != 0;                          // k=4: only acyclic dependency relations (cycles are complete for k<=3)
    const bool xswap = opt.num("xswap" + std::to_string(k), (k <= 2 || (th && k == 3)) ? 1 : 0) != 0;               // both orders of X1, X2
    std::vector<std::vector<std::string>> pure(static_cast<size_t>(k)), extra(static_cast<size_t>(k));
    for (int i = 1; i <= k; ++i) defPool(k, i, pure[static_cast<size_t>(i - 1)], extra[static_cast<size_t>(i - 1)], withB);
    // all assignments of definitions with at most maxExtras extra ones
    std::vector<int> choice(static_cast<size_t>(k), 0);
    while (true) {
      int ex = 0; for (int i = 0; i < k; ++i) if (choice[static_cast<size_t>(i)] >= static_cast<int>(pure[static_cast<size_t>(i)].size())) ++ex;
      if (ex <= maxExtras) {
        C13Schema sc; for (int i = 0; i < k; ++i) { const auto ch = static_cast<size_t>(choice[static_cast<size_t>(i)]); const auto& pu = pure[static_cast<size_t>(i)]; sc.defs.push_back(ch < pu.size() ? pu[ch] : extra[static_cast<size_t>(i)][ch - pu.size()]); }
        bool skip = false;
        if (acyclicOnly) {  // Kahn-style elimination on the relation among D1..Dk read from the texts
          std::vector<unsigned> dd(static_cast<size_t>(k), 0);
          for (int i = 0; i < k; ++i) for (auto& nm : mentions(sc.defs[static_cast<size_t>(i)])) if (nm.size() == 2 && nm[0] == 'D' && nm[1] >= '1' && nm[1] < '1' + k) dd[static_cast<size_t>(i)] |= 1u << (nm[1] - '1');
          unsigned done = 0; for (bool ch = true; ch;) { ch = false; for (int i = 0; i < k; ++i) if (!(done & (1u << i)) && !(dd[static_cast<size_t>(i)] & ~done)) { done |= 1u << i; ch = true; } }
          skip = done != (1u << k) - 1;
        }
        if (skip) goto next_choice;
        {
        std::vector<int> perm(static_cast<size_t>(k)); for (int i = 0; i < k; ++i) perm[static_cast<size_t>(i)] = i;
        do {
          for (int xs = 0; xs < (xswap ? 2 : 1); ++xs) for (int pol = 0; pol < policies; ++pol) for (int conv = 0; conv < (k <= 2 ? 2 : 1); ++conv) {
            if (!c.take()) continue;
            sc.conv = conv != 0;
            std::vector<int> order = xs ? std::vector<int>{ 1, 0 } : std::vector<int>{ 0, 1 };
            for (int i = 0; i < k; ++i) order.push_back(2 + perm[static_cast<size_t>(i)]);
            std::string desc = std::string(op == 0 ? "basis" : "maxpart") + " defs=[";
            for (int i = 0; i < k; ++i) desc += (i ? " | " : "") + std::string("D") + std::to_string(i + 1) + ":=" + sc.defs[static_cast<size_t>(i)];
            desc += "] order=["; for (size_t i = 0; i < order.size(); ++i) desc += (i ? "," : "") + (order[i] < 2 ? "X" + std::to_string(order[i] + 1) : "D" + std::to_string(order[i] - 1));
            desc += "] pol=" + std::to_string(pol) + (conv ? " conventions" : "");
            c.begin(desc);
            c13_case(c, sc, order, pol, op, desc);
            c.rep.count("schema_orders");
            if (c.idx % 2003 == 1) c.rep.sample(desc);
            c.done();
          }
        } while (std::next_permutation(perm.begin(), perm.end()));
        }
      }
      next_choice:
      int p = k - 1;
      while (p >= 0 && ++choice[static_cast<size_t>(p)] == static_cast<int>(pure[static_cast<size_t>(p)].size() + extra[static_cast<size_t>(p)].size())) { choice[static_cast<size_t>(p)] = 0; --p; }
      if (p < 0) break;
    }
  }
}

}  // namespace

int main(int argc, char** argv) {
  Options opt = parse_args(argc, argv);
  const double t0 = now_s();
  Result res; res.harness = "h_ops"; res.mode = opt.mode; res.tier = opt.tier;
  RunInfo ri;
  const bool th = opt.thorough();
  if (opt.mode == "synth") {
    res.property = "C12";
    res.rep = run_sharded(opt, "synth", [&](Ctx& c) { run_synth(c, opt); }, &ri);
    size_t npool = 0; for (auto& sp : operandPool()) if (th || sp.quick) ++npool;
    res.completed_bound = std::string("all ordered pairs of the ") + std::to_string(npool) + "-schema operand pool x all equation tables with <= " + std::to_string(opt.num("entries", 2)) + " entries (keys distinct; 1-entry tables also with a foreign identifier) x term modes (1 entry: all 3; 2 entries: " + (opt.num("allmodes", 0) ? "all 9 pairs" : "HH, DN, ND") + "; 3 entries: HDN) x 2 uid policies" + (th ? " x both insertion orders of 2-entry tables" : "");
    res.alphabet = "operand schemas of <= 4 constituents: empty, base sets, structures, terms (equal / different typification, chain, element-typed), constant sets, axiom / function, partially incorrect, self-mentioning definition and texts, dangling name, entity references in terms and text definitions, internal duplicates, overlapping aliases and uids, disjoint uids with alias gaps; modes keepHier / keepDel / createNew";
    res.rule = "case = (operand 1, operand 2, equation table, uid policy[, insertion order]) - distinct by construction; non-trivial = accepted with a non-empty table or with duplicates removed";
  } else if (opt.mode == "inplace") {
    res.property = "C12";
    res.rep = run_sharded(opt, "inplace", [&](Ctx& c) { run_inplace(c, opt); }, &ri);
    res.completed_bound = std::string("every schema of the pool (+ in-place schemas of 4-6 constituents): all equation tables with <= ") + std::to_string(opt.num("entries", 2)) + " entries over the schema (incl. self-equation, foreign identifier, chains, cycles; both insertion orders of 2-entry tables) x modes x 2 uid policies for IsEquatable/Equate; DeleteDuplicates; MergeWith every pool schema and itself";
    res.alphabet = "same pool as synth + I3 {X1,X2,X3,S1,S2}, dup3 {X1, three identical terms}, I2 {X1,X2,S1,S2,D1,D2}";
    res.rule = "case = (schema, operation, table / other schema, uid policy); non-trivial = accepted equation, removed duplicate, non-empty merge";
  } else if (opt.mode == "basis" || opt.mode == "maxpart") {
    res.property = "C13";
    const int op = opt.mode == "basis" ? 0 : 1;
    res.rep = run_sharded(opt, opt.mode, [&](Ctx& c) { run_c13(c, opt, op); }, &ri);
    res.completed_bound = "schemas {X1,X2} + k <= " + std::to_string(opt.num("kmax", th ? 4 : 3)) + " derived terms; definitions: product of X1 and any subset of the other derived names (k<=3: every relation, k=4: every acyclic relation), "
                          "the same without X1 (k<=3), and (for k<=2 every constituent, k=3 at most one constituent) empty / syntactically incorrect / X2 / X1xX2 / Z (no dependency) / self reference / missing name; "
                          "every order of the derived constituents (and of X1,X2 for k<=2, thorough k<=3) realised by MoveBefore; uid order ascending (thorough: and descending) along the aliases; "
                          "every selection (all subsets, the empty one, one with a foreign identifier)";
    res.alphabet = "D_i := X1 x (subset of other D_j) | (subset of other D_j) | '' | 'X1 invalid' | X2 | X1xX2 | Z | D_i x X1 | D9 x X1";
    res.rule = "evaluation = (schema, list order, uid policy, selection); every evaluation distinct by construction; non-trivial = result differs from the selection or aliases were renumbered";
  } else { fprintf(stderr, "unknown mode\n"); return 2; }
  res.evaluations = res.rep.counters["evaluations"];
  res.distinct_nontrivial = res.rep.counters["nontrivial"];
  res.states = res.evaluations; res.transitions = res.rep.counters["checks"]; res.traces_validated = res.evaluations;
  res.exhaustive = !ri.deadline_hit && !ri.crash_cap_hit;
  res.assumptions = { "entity identifiers come from the harness-installed source (hook H1)", "text references use the single-tag spelling @{NAME|nomn}", "operand identifiers start at 101 so that the descending uid policy never wraps below zero", "clang 14 + libstdc++ 12, ASan+UBSan, asserts on" };
  res.wall_s = now_s() - t0;
  res.write(opt.out.empty() ? "/dev/stdout" : opt.out);
  return 0;
}
