"""Registry: which harness modes serve which property (consumed by ./check and tools/gen_manifest.py)."""

CHECKS = {
    'C20': {
        'title': 'UTF-8 string utilities and interval algebra agree with their definitions',
        'design_ref': 'DESIGN.md §5 C20',
        'runs': [
            {'harness': 'h_strings', 'flavour': 'fast', 'mode': 'utf8',
             'args': {'quick': {'maxlen': 6}, 'thorough': {'maxlen': 8}}, 'share': 0.8},
            {'harness': 'h_strings', 'flavour': 'fast', 'mode': 'ranges',
             'args': {'quick': {'window': 8}, 'thorough': {'window': 16}}, 'share': 0.2},
        ],
        'technique': 'bounded-exhaustive enumeration of all strings / range pairs on the real header code vs naive reference (E1)',
        'level_text': 'every string of <= 6 (thorough 8) code points over a 9-symbol alphabet mixing 1-4 byte code points, and every ordered '
                      'pair of ranges in a window, is run through the real functions and an independent naive reference; complete within the bound',
        'level_note': 'well-formed UTF-8 only (as the property states); alphabet of 9 symbols; clang14/libstdc++12',
    },
}


# fragments written per harness family: tools/registry.d/*.json  ({"C14": {...}, ...})
import glob as _glob, json as _json, os as _os
for _f in sorted(_glob.glob(_os.path.join(_os.path.dirname(_os.path.abspath(__file__)), 'registry.d', '*.json'))):
    CHECKS.update(_json.load(open(_f)))
