// C20 — UTF-8 string utilities and interval algebra (header-only cclCommons) against naive references.
// modes: utf8   all strings of <= L code points over a 17-symbol alphabet (1..4-byte code points)
//        ranges all pairs / short lists of StrRange in a bounded window; CreateTranslator over all maps on 3 keys
#include "engine/mc.hpp"

#include "ccl/Strings.hpp"
#include "ccl/Substitutes.hpp"

#include <cctype>

using namespace mc;
using ccl::StrRange;

namespace {

// ASCII symbols with a role in the utilities, then first / typical / last code point of every encoded length (every distinct
// kind of lead byte: C2, D1, DF | E0, E2, ED, EE, EF | F0, F0(typical), F4)
const std::vector<std::string> kAlphabet = { "a", "7", "-", ",", " ", "\t",
  "\xC2\x80" /*U+0080*/, "\xD1\x8F" /*я*/, "\xDF\xBF" /*U+07FF*/,
  "\xE0\xA0\x80" /*U+0800*/, "\xE2\x84\xAC" /*ℬ*/, "\xED\x9F\xBF" /*U+D7FF*/, "\xEE\x80\x80" /*U+E000*/, "\xEF\xBF\xBD" /*U+FFFD*/,
  "\xF0\x90\x80\x80" /*U+10000*/, "\xF0\xA0\x9C\x8E" /*𠜎*/, "\xF4\x8F\xBF\xBF" /*U+10FFFF*/ };

struct Decoded { std::vector<size_t> off, len; };  // reference decoding: built from the alphabet, not from the library
bool refIsSpace(char c) { return c == ' ' || c == '\t' || c == '\n' || c == '\v' || c == '\f' || c == '\r'; }

bool inside(std::string_view piece, const std::string& s) {
  if (piece.empty()) return true;  // the data pointer of an empty view is not observable through the API
  return piece.data() >= s.data() && piece.data() + piece.size() <= s.data() + s.size();
}

void check_string(Ctx& c, const std::string& s, const Decoded& d) {
  const int n = static_cast<int>(d.off.size());
  auto bad = [&](const std::string& sig, const std::string& msg, const std::string& obs = "", const std::string& exp = "") { c.fail("C20:" + sig, msg, obs, exp); };
  // 1. iteration
  {
    auto it = ccl::UTF8Begin(s); const auto end = ccl::UTF8End(s);
    int i = 0;
    for (; i < n; ++i, ++it) {
      if (it == end) { bad("iter-early-end", "iterator reached end after " + std::to_string(i) + " of " + std::to_string(n)); break; }
      if (it.Position() != i) bad("iter-position", "Position()", std::to_string(it.Position()), std::to_string(i));
      if (it.BytePosition() != d.off[i]) bad("iter-byteoffset", "BytePosition() at cp " + std::to_string(i), std::to_string(it.BytePosition()), std::to_string(d.off[i]));
      if (it.SymbolSize() != d.len[i]) bad("iter-symbolsize", "SymbolSize() at cp " + std::to_string(i), std::to_string(it.SymbolSize()), std::to_string(d.len[i]));
      if (*it != s[d.off[i]]) bad("iter-deref", "operator* at cp " + std::to_string(i));
    }
    if (i == n && it != end) bad("iter-no-end", "iterator not at end after visiting all code points");
  }
  // 2. length
  if (ccl::SizeInCodePoints(s) != n) bad("size", "SizeInCodePoints", std::to_string(ccl::SizeInCodePoints(s)), std::to_string(n));
  // 3. positioned construction
  for (int p = 0; p <= n + 2; ++p) {
    ccl::UTF8Iterator it(s, p);
    if (p < n) {
      if (it == ccl::UTF8End(s)) bad("ctor-end", "UTF8Iterator(s," + std::to_string(p) + ") is end but p < len");
      else if (it.Position() != p || it.BytePosition() != d.off[p]) bad("ctor-pos", "UTF8Iterator(s," + std::to_string(p) + ")", std::to_string(it.Position()) + "/" + std::to_string(it.BytePosition()), std::to_string(p) + "/" + std::to_string(d.off[p]));
    } else if (it != ccl::UTF8End(s)) bad("ctor-notend", "UTF8Iterator(s," + std::to_string(p) + ") must be end for p >= len");
  }
  // 4. Substr over all ranges in and out of bounds
  for (int a = 0; a <= n + 2; ++a) for (int b = a; b <= n + 2; ++b) {
    std::string exp;
    if (a < n && b >= 1 && b <= n && a < b) exp = s.substr(d.off[a], (b == n ? s.size() : d.off[b]) - d.off[a]);
    const auto got = ccl::Substr(s, StrRange{ a, b });
    c.rep.count("checks");
    if (got != exp) bad("substr", "Substr(s,[" + std::to_string(a) + "," + std::to_string(b) + "))", std::string(got), exp);
    else if (!inside(got, s)) bad("substr-view", "Substr result is not a view into the input");
  }
  // 5. SplitBySymbol
  for (char delim : { ',', ' ', '-' }) {
    std::vector<std::string> exp; { std::string cur; for (char ch : s) { if (ch == delim) { exp.push_back(cur); cur.clear(); } else cur += ch; } exp.push_back(cur); }
    const auto got = ccl::SplitBySymbol(s, delim);
    c.rep.count("checks");
    bool same = got.size() == exp.size();
    for (size_t i = 0; same && i < got.size(); ++i) same = got[i] == exp[i];
    if (!same) { std::string g; for (auto& p : got) g += "[" + std::string(p) + "]"; std::string e; for (auto& p : exp) e += "[" + p + "]"; bad("split", std::string("SplitBySymbol delim '") + delim + "'", g, e); }
    for (auto& p : got) if (!inside(p, s)) bad("split-view", "piece is not a view into the input");
    // pieces re-join to the input
    std::string joined; for (size_t i = 0; i < got.size(); ++i) { if (i) joined += delim; joined += std::string(got[i]); }
    if (joined != s) bad("split-rejoin", "pieces do not re-join to the input", joined, s);
  }
  // 6. TrimWhitespace
  {
    size_t a = 0, b = s.size();
    while (a < b && refIsSpace(s[a])) ++a;
    while (b > a && refIsSpace(s[b - 1])) --b;
    const std::string exp = s.substr(a, b - a);
    const auto got = ccl::TrimWhitespace(s);
    c.rep.count("checks");
    if (got != exp) bad("trim", "TrimWhitespace", std::string(got), exp);
    else if (!inside(got, s)) bad("trim-view", "result is not a view into the input");
  }
  // 7. IsInteger == -?[0-9]+
  {
    size_t p = 0; if (p < s.size() && s[p] == '-') ++p;
    bool exp = p < s.size();
    for (size_t i = p; i < s.size(); ++i) if (s[i] < '0' || s[i] > '9') exp = false;
    c.rep.count("checks");
    if (ccl::IsInteger(s) != exp) bad("isinteger", "IsInteger", ccl::IsInteger(s) ? "true" : "false", exp ? "true" : "false");
  }
}

void enumerate_strings(Ctx& c, int maxLen) {
  std::vector<int> idx;
  for (int len = 0; len <= maxLen && !c.stop(); ++len) {
    idx.assign(static_cast<size_t>(len), 0);
    while (true) {
      if (c.take()) {
        std::string s; Decoded d;
        bool multi = false, delim = false;
        for (int k : idx) { d.off.push_back(s.size()); d.len.push_back(kAlphabet[static_cast<size_t>(k)].size()); s += kAlphabet[static_cast<size_t>(k)]; multi |= k >= 6; delim |= (k >= 2 && k <= 5); }
        c.begin(s);
        check_string(c, s, d);
        c.rep.count("evaluations");
        if (multi) c.rep.count("nontrivial");            // contains a multi-byte code point
        c.rep.outcome(std::string("len") + std::to_string(len) + (multi ? "+multibyte" : "") + (delim ? "+delim" : ""));
        if (c.idx % 50021 == 1 || (len == maxLen && c.idx % 200003 == 7)) c.rep.sample(s);
        c.done();
      }
      int p = len - 1;
      while (p >= 0 && ++idx[static_cast<size_t>(p)] == static_cast<int>(kAlphabet.size())) { idx[static_cast<size_t>(p)] = 0; --p; }
      if (p < 0) break;
    }
  }
}

std::string rs(const StrRange& r) { return "[" + std::to_string(r.start) + "," + std::to_string(r.finish) + ")"; }

void enumerate_ranges(Ctx& c, int N) {
  std::vector<StrRange> all;
  for (int s = 0; s <= N; ++s) for (int f = s; f <= N; ++f) all.emplace_back(s, f);
  auto chk = [&](bool got, bool exp, const char* name, const StrRange& a, const StrRange& b) {
    c.rep.count("checks");
    if (got != exp) c.fail(std::string("C20:range-") + name, std::string(name) + " " + rs(a) + " vs " + rs(b), got ? "true" : "false", exp ? "true" : "false");
  };
  for (auto& a : all) for (auto& b : all) {
    if (!c.take()) continue;
    c.begin(rs(a) + " " + rs(b));
    chk(a.IsBefore(b), a.finish < b.start, "IsBefore", a, b);
    chk(a.IsAfter(b), a.start > b.finish, "IsAfter", a, b);
    chk(a.Meets(b), a.finish == b.start, "Meets", a, b);
    chk(a.Starts(b), a.start == b.start && a.finish < b.finish, "Starts", a, b);
    chk(a.Finishes(b), a.finish == b.finish && a.start > b.start, "Finishes", a, b);
    chk(a.IsDuring(b), a.start > b.start && a.finish < b.finish, "IsDuring", a, b);
    chk(a == b, a.start == b.start && a.finish == b.finish, "Equal", a, b);
    chk(a != b, !(a.start == b.start && a.finish == b.finish), "NotEqual", a, b);
    if (!b.empty()) chk(a.Contains(b), a.start <= b.start && a.finish >= b.finish, "Contains", a, b);
    else {  // empty argument = cursor position: only the unambiguous cases are asserted (DESIGN C20)
      if (a.start < b.start && b.start < a.finish) chk(a.Contains(b), true, "Contains-cursor-inside", a, b);
      if (b.start < a.start || b.start > a.finish) chk(a.Contains(b), false, "Contains-cursor-outside", a, b);
      // on the receiver's boundary the end-point reading and the cursor reading differ and the property does not choose; what is
      // asserted is that the two overloads agree: an empty range [p,p) is contained exactly when the position p is
      chk(a.Contains(b), a.Contains(b.start), "Contains-cursor-vs-position", a, b);
    }
    // duals and symmetry
    chk(a.IsBefore(b), b.IsAfter(a), "dual-Before/After", a, b);
    chk(a.SharesBorder(b), b.SharesBorder(a), "sym-SharesBorder", a, b);
    chk(a.SharesBorder(b), a.finish == b.start || b.finish == a.start, "SharesBorder", a, b);
    chk(a.Overlaps(b), b.Overlaps(a), "sym-Overlaps", a, b);
    if (!a.empty() && !b.empty()) chk(a.Overlaps(b), std::max(a.start, b.start) < std::min(a.finish, b.finish), "Overlaps", a, b);
    // positions
    for (int p = -1; p <= N + 1; ++p) chk(a.Contains(p), a.start <= p && p < a.finish, "ContainsPos", a, StrRange{ p, p });
    // intersection
    {
      const auto got = a.Intersect(b);
      const bool gap = a.finish < b.start || b.finish < a.start;
      c.rep.count("checks");
      if (gap != !got.has_value()) c.fail("C20:range-Intersect-presence", "Intersect " + rs(a) + " " + rs(b), got ? rs(*got) : "nullopt", gap ? "nullopt" : "range");
      else if (got && !(got->start == std::max(a.start, b.start) && got->finish == std::min(a.finish, b.finish)))
        c.fail("C20:range-Intersect-value", "Intersect " + rs(a) + " " + rs(b), rs(*got), rs(StrRange{ std::max(a.start, b.start), std::min(a.finish, b.finish) }));
      if (got) {  // point-set reading: p in result <=> p in a and p in b
        for (int p = 0; p <= N; ++p) if (got->Contains(p) != (a.Contains(p) && b.Contains(p))) c.fail("C20:range-Intersect-points", "Intersect " + rs(a) + " " + rs(b) + " at " + std::to_string(p));
      }
    }
    // merge of lists {a}, {a,b}, {a,b,x} for a small set of x
    {
      auto cover = [](const std::vector<StrRange>& v) { StrRange r = v[0]; for (auto& x : v) { r.start = std::min(r.start, x.start); r.finish = std::max(r.finish, x.finish); } return r; };
      std::vector<std::vector<StrRange>> lists = { { a }, { a, b }, { b, a } };
      for (auto& x : all) if ((x.start + x.finish) % 3 == 0) { lists.push_back({ a, b, x }); lists.push_back({ x, a, b }); }
      for (auto& l : lists) { c.rep.count("checks"); const auto got = StrRange::Merge(l); if (!(got == cover(l))) c.fail("C20:range-Merge", "Merge of " + std::to_string(l.size()) + " ranges starting " + rs(l[0]), rs(got), rs(cover(l))); }
    }
    // mutators
    { StrRange m = a; m.Shift(b.start); chk(m.start == a.start + b.start && m.finish == a.finish + b.start, true, "Shift", a, b);
      m = a; m.SetLength(b.length()); chk(m.start == a.start && m.length() == b.length(), true, "SetLength", a, b);
      m = a; m.CollapseEnd(); chk(m.empty() && m.start == a.finish, true, "CollapseEnd", a, b);
      m = a; m.CollapseStart(); chk(m.empty() && m.start == a.start, true, "CollapseStart", a, b);
      chk(StrRange::FromLength(a.start, a.length()) == a, true, "FromLength", a, b); }
    c.rep.count("evaluations");
    if (!a.empty() && !b.empty() && !(a == b)) c.rep.count("nontrivial");
    // Allen relation class as distinct outcome
    std::string cls = a.IsBefore(b) ? "before" : a.IsAfter(b) ? "after" : a.Meets(b) ? "meets" : b.Meets(a) ? "met-by" : a == b ? "equal" : a.Starts(b) ? "starts" : b.Starts(a) ? "started-by" :
                      a.Finishes(b) ? "finishes" : b.Finishes(a) ? "finished-by" : a.IsDuring(b) ? "during" : b.IsDuring(a) ? "contains" : "overlaps";
    c.rep.outcome(cls);
    if (c.idx % 1571 == 3) c.rep.sample(rs(a) + " vs " + rs(b) + " : " + cls);
    c.done();
  }
  // Merge({}) and CreateTranslator: all partial maps over 3 keys with 3 possible values (4^3 maps) x 4 queries
  if (c.take()) {
    c.begin("Merge({}) + CreateTranslator");
    if (!(StrRange::Merge({}) == StrRange{ 0, 0 })) c.fail("C20:range-Merge-empty", "Merge({})");
    const std::vector<std::string> keys = { "X1", "X11", "" }, vals = { "X2", "X1", "" };
    for (int code = 0; code < 64; ++code) {
      ccl::StrSubstitutes m; int cc = code;
      for (auto& k : keys) { int v = cc % 4; cc /= 4; if (v > 0) m[k] = vals[static_cast<size_t>(v - 1)]; }
      auto t1 = ccl::CreateTranslator(m); auto t2 = ccl::CreateTranslator(ccl::StrSubstitutes{ m });
      for (auto q : { std::string("X1"), std::string("X11"), std::string(""), std::string("X") }) {
        std::optional<std::string> exp; if (m.count(q)) exp = m.at(q);
        c.rep.count("checks", 2);
        if (t1(q) != exp || t2(q) != exp) c.fail("C20:translator", "CreateTranslator lookup of '" + q + "'");
      }
    }
    c.rep.count("evaluations");
    c.done();
  }
}

}  // namespace

int main(int argc, char** argv) {
  Options opt = parse_args(argc, argv);
  const double t0 = now_s();
  Result res; res.property = "C20"; res.harness = "h_strings"; res.mode = opt.mode; res.tier = opt.tier;
  RunInfo ri;
  if (opt.mode == "utf8") {
    const int L = static_cast<int>(opt.num("maxlen", opt.thorough() ? 7 : 5));
    res.rep = run_sharded(opt, "utf8", [&](Ctx& c) { enumerate_strings(c, L); }, &ri);
    res.completed_bound = "all strings of <= " + std::to_string(L) + " code points over a 17-symbol alphabet";
    res.alphabet = "a 7 - , space tab | U+0080 я U+07FF | U+0800 ℬ U+D7FF U+E000 U+FFFD | U+10000 𠜎 U+10FFFF (first / typical / last code point of every encoded length and lead-byte class)";
    res.rule = "case = one string; every string of the bounded space enumerated once (distinct by construction); non-trivial = contains a multi-byte code point; per case: iteration, size, positioned iterators, Substr over all ranges 0<=a<=b<=len+2, SplitBySymbol x3 delimiters, TrimWhitespace, IsInteger vs naive references";
  } else if (opt.mode == "ranges") {
    const int N = static_cast<int>(opt.num("window", opt.thorough() ? 12 : 6));
    res.rep = run_sharded(opt, "ranges", [&](Ctx& c) { enumerate_ranges(c, N); }, &ri);
    res.completed_bound = "all ordered pairs of ranges with 0<=start<=finish<=" + std::to_string(N);
    res.alphabet = "StrRange(start,finish) in window";
    res.rule = "case = ordered pair of ranges (distinct by construction); non-trivial = both non-empty and different; per case all relations vs end-point definitions, duals, Intersect, Merge of lists <=3, mutators";
  } else { fprintf(stderr, "unknown mode\n"); return 2; }
  res.evaluations = res.rep.counters["evaluations"];
  res.distinct_nontrivial = res.rep.counters["nontrivial"];
  res.states = res.evaluations; res.transitions = res.rep.counters["checks"]; res.traces_validated = res.evaluations;
  res.exhaustive = !ri.deadline_hit && !ri.crash_cap_hit;
  res.assumptions = { "inputs are well-formed UTF-8 built from the alphabet", "clang 14 + libstdc++ 12" };
  res.wall_s = now_s() - t0;
  res.write(opt.out.empty() ? "/dev/stdout" : opt.out);
  return 0;
}
