#!/usr/bin/env python3
"""Validates MANIFEST.json and evidence/*.json against the schemas in /root/.vp (python3-vt has jsonschema)."""
import json, glob, sys, os
try:
    import jsonschema
except ImportError:
    print('jsonschema not available in this interpreter; run with python3-vt'); sys.exit(0)
V = os.path.dirname(os.path.dirname(os.path.abspath(__file__)))
ok = True
def val(path, schema):
    global ok
    try:
        jsonschema.validate(json.load(open(path)), json.load(open(schema)))
        print('ok   ', path)
    except Exception as e:
        ok = False; print('FAIL ', path, str(e)[:400])
val(V + '/MANIFEST.json', '/root/.vp/MANIFEST.schema.json')
for f in sorted(glob.glob(V + '/evidence/*.json')):
    val(f, '/root/.vp/EVIDENCE.schema.json')
sys.exit(0 if ok else 1)
