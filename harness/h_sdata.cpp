// C15 — structured data is a finite-set algebra with value semantics (ccl::object::StructuredData / SDSet / Factory).
// modes: algebra   E1: every value of every typification of the bound, built in every way (permutations, duplicates,
//                  incremental AddElement, Boolean / Decartian when the value is a full power set / product, copy-then-modify);
//                  equality / order laws; every operation against model/refvalue.hpp over all pairs
//        valuesem  E2 BFS: 3 handles, ops copy / ModifyB().AddElement / Union-assign / Boolean / extract-first-element;
//                  after every step every handle's canonical value equals the model's (a copy never changes its original)
//        lazy      E1: power set / product iterators with TWO live cursors on the same object (cache limit 100 < 128):
//                  all lags x deref policies, iterator copies, nested traversal, references held across the other cursor
#include "engine/mc.hpp"
#include "model/refvalue.hpp"

#include "ccl/rslang/StructuredData.h"
#include "SDImplementation.h"

#include <numeric>
#include <optional>

using namespace mc;
using refv::Value;
using ccl::object::Factory;
using ccl::object::SDSet;
using ccl::object::StructuredData;
using ccl::Comparison;
namespace ob = ccl::object;

namespace {

// ------------------------------------------------------------------------------------------------
// universes: all values of a type over E = {1..b}
struct Universe {
  std::string name;
  refv::Type type;
  int base{ 2 };
  size_t n{ 0 };
  std::vector<Value> vals;                 // materialised iff n <= kMaterialise
  std::vector<Value> elems;                // set universes: all values of the element type (canonical order)
  std::vector<std::vector<int>> subs;      // set universes: members of value i as indices into elems
  bool isSet() const { return type.kind == refv::Type::Kind::Bool; }
  bool big() const { return vals.empty(); }
  Value value(size_t i) const {
    if (!vals.empty()) return vals[i];
    Value v; for (int j : subs[i]) v.items.push_back(elems[static_cast<size_t>(j)]);
    return v;
  }
};
constexpr size_t kMaterialise = 4096;

Universe make_universe(const refv::Type& t, int b) {
  Universe u; u.type = t; u.base = b; u.name = refv::str(t) + "|E=" + std::to_string(b);
  refv::Domains dom; for (int i = 1; i <= b; ++i) dom["*"].push_back(i);
  if (u.isSet()) {
    u.elems = refv::enumerate(t.kids[0], dom);
    u.subs = refv::subsets_card_lex(static_cast<int>(u.elems.size()), size_t{ 1 } << 24);
    u.n = u.subs.size();
    if (u.n <= kMaterialise) for (size_t i = 0; i < u.n; ++i) { Value v; for (int j : u.subs[i]) v.items.push_back(u.elems[static_cast<size_t>(j)]); u.vals.push_back(std::move(v)); }
  } else {
    u.vals = refv::enumerate(t, dom); u.n = u.vals.size();
  }
  return u;
}

std::vector<int> parse_list(const std::string& s) { std::vector<int> v; std::istringstream is(s); std::string t; while (std::getline(is, t, ',')) if (!t.empty()) v.push_back(atoi(t.c_str())); return v; }

std::vector<Universe> make_universes(const std::string& u3, const std::string& u4) {
  using namespace refv;
  const Type E = TBase("E");
  const std::vector<Type> types = {
    E, TTuple({ E, E }), TBool(E), TBool(TTuple({ E, E })), TBool(TBool(E)), TTuple({ E, TBool(E) }),
    TBool(TTuple({ E, TBool(E) })), TBool(TBool(TBool(E))), TTuple({ TTuple({ E, E }), E }), TTuple({ TBool(E), TBool(E) }) };
  std::vector<Universe> us;
  for (const auto& t : types) us.push_back(make_universe(t, 2));
  for (int i : parse_list(u3)) us.push_back(make_universe(types.at(static_cast<size_t>(i)), 3));
  for (int i : parse_list(u4)) us.push_back(make_universe(types.at(static_cast<size_t>(i)), 4));
  std::stable_sort(us.begin(), us.end(), [](const Universe& a, const Universe& b) { return a.n < b.n; });   // smallest universes first
  return us;
}

// ------------------------------------------------------------------------------------------------
// building library values in several ways
using refv::alt_sd;
using refv::lazy_sd;

std::vector<std::vector<int>> orders(int k, int maxPerm) {
  std::vector<int> id(static_cast<size_t>(k)); std::iota(id.begin(), id.end(), 0);
  std::vector<std::vector<int>> out;
  if (k <= maxPerm) { do out.push_back(id); while (std::next_permutation(id.begin(), id.end())); return out; }
  out.push_back(id);
  { auto r = id; std::reverse(r.begin(), r.end()); out.push_back(r); }
  for (int s : { 1, k / 2 }) { auto r = id; std::rotate(r.begin(), r.begin() + s, r.end()); out.push_back(r); }
  { std::vector<int> r; for (int i = 0; i < k; i += 2) r.push_back(i); for (int i = 1; i < k; i += 2) r.push_back(i); out.push_back(r); }
  return out;
}

struct Way { std::string name; StructuredData sd; char cls; };   // cls: c canonical, p permutation, d duplicates, i incremental, a alt, l lazy, s singleton, w copy-then-modify

std::string bstr(bool b) { return b ? "true" : "false"; }
std::string cmpstr(Comparison c) { return c == Comparison::EQUAL ? "EQUAL" : c == Comparison::LESS ? "LESS" : c == Comparison::GREATER ? "GREATER" : "INCOMPARABLE"; }

struct Checker {
  Ctx& c;
  uint64_t n{ 0 };
  explicit Checker(Ctx& ctx) : c{ ctx } {}
  Checker(const Checker&) = delete;
  ~Checker() { c.rep.count("checks", n); }
  void bad(const std::string& sig, const std::string& msg, const std::string& obs = "", const std::string& exp = "") { c.fail("C15:" + sig, msg, obs, exp); }
  // value of a library object equals the model (by iteration) AND the library's == / < agree with the enumerated build of that value
  bool same_ok(const StructuredData& got, const Value& exp, const StructuredData* canon) {
    n += 2;
    if (!(refv::from_sd(got) == exp)) return false;
    if (canon != nullptr) return got == *canon && *canon == got && !(got < *canon);
    const auto cn = refv::to_sd(exp);
    return got == cn && cn == got && !(got < cn);
  }
  void same_report(const StructuredData& got, const Value& exp, const std::string& sig, const std::string& what) {
    const Value g = refv::from_sd(got);
    if (!(g == exp)) bad(sig, what, refv::str(g), refv::str(exp));
    else bad(sig + "-libeq", what + ": value is right by iteration but the library's == / < disagree with the enumerated build", got.ToString(), refv::str(exp));
  }
};
// the message / observed / expected strings are only built when the check fails
#define OK(k, cond, ...) do { ++(k).n; if (!(cond)) (k).bad(__VA_ARGS__); } while (0)
#define SAME(k, gotExpr, expExpr, canonPtr, sig, what) do { const StructuredData g__ = (gotExpr); const Value e__ = (expExpr); if (!(k).same_ok(g__, e__, canonPtr)) (k).same_report(g__, e__, sig, what); } while (0)

struct Reps { std::vector<std::pair<char, StructuredData>> r; };
Reps reps_of(const Value& v) {
  Reps x; x.r.emplace_back('c', refv::to_sd(v));
  if (v.isSet()) { if (auto l = lazy_sd(v, false); l.has_value()) x.r.emplace_back('l', *l); else if (v.items.size() >= 2) x.r.emplace_back('a', alt_sd(v)); }
  else if (v.isTuple()) x.r.emplace_back('a', alt_sd(v));
  return x;
}

// per worker, per universe: library values that many cases need (built inside the first case that uses them)
struct UCache {
  const Universe* u{ nullptr };
  std::vector<StructuredData> elemSd, elemAlt;
  std::vector<Reps> reps;                      // small universes only
  void elems(const Universe& uu) { if (u != &uu) { *this = UCache{}; u = &uu; } if (elemSd.empty()) for (const auto& e : uu.elems) { elemSd.push_back(refv::to_sd(e)); elemAlt.push_back(alt_sd(e)); } }
  void all(const Universe& uu) { elems(uu); if (reps.empty()) for (size_t x = 0; x < uu.n; ++x) reps.push_back(reps_of(uu.value(x))); }
  const StructuredData* canon_of(const Value& v) const {   // enumerated library value of a member of a small universe
    if (reps.empty()) return nullptr;
    const auto it = std::lower_bound(u->vals.begin(), u->vals.end(), v);
    if (it == u->vals.end() || !(*it == v)) return nullptr;
    return &reps[static_cast<size_t>(it - u->vals.begin())].r[0].second;
  }
};

void build_ways(Checker& k, const Value& v, int maxPerm, std::vector<Way>& ways) {
  if (v.isElem()) {
    ways.push_back({ "Val", Factory::Val(v.id), 'c' });
    ways.push_back({ "Vals[0]", Factory::Vals({ v.id })[0], 'p' });
    ways.push_back({ "Tuple({Val})", Factory::Tuple({ Factory::Val(v.id) }), 'p' });
    return;
  }
  if (v.isTuple()) {
    std::vector<StructuredData> comps, alt; bool allElem = true; std::vector<ob::DataID> ids;
    for (const auto& x : v.items) { comps.push_back(refv::to_sd(x)); alt.push_back(alt_sd(x)); allElem = allElem && x.isElem(); ids.push_back(x.id); }
    ways.push_back({ "Tuple", Factory::Tuple(comps), 'c' });
    ways.push_back({ "Tuple(alt components)", Factory::Tuple(alt), 'a' });
    if (allElem) ways.push_back({ "TupleV", Factory::TupleV(ids), 'p' });
    return;
  }
  const int n = static_cast<int>(v.items.size());
  std::vector<StructuredData> el; for (const auto& e : v.items) el.push_back(refv::to_sd(e));
  const auto ords = orders(n, maxPerm);
  for (size_t oi = 0; oi < ords.size(); ++oi) {
    std::vector<StructuredData> vec; std::string tag = "[";
    for (int i : ords[oi]) { vec.push_back(el[static_cast<size_t>(i)]); tag += std::to_string(i) + (n > 9 ? "." : ""); }
    tag += "]";
    ways.push_back({ "Set" + tag, Factory::Set(vec), oi == 0 ? 'c' : 'p' });
    if (n > 0) {
      auto dup = vec; dup.push_back(vec.front()); if (oi % 2 == 1) dup.insert(dup.begin(), vec.back());
      ways.push_back({ "Set+dups" + tag, Factory::Set(dup), 'd' });
    }
    {
      auto s = Factory::EmptySet(); bool allNew = true;
      for (const auto& x : vec) allNew = s.ModifyB().AddElement(x) && allNew;
      OK(k, allNew, "addelement-return", "AddElement of a new element returned false while building " + refv::str(v) + " in order " + tag);
      if (n > 0) OK(k, !s.ModifyB().AddElement(vec.front()), "addelement-return", "AddElement of a present element returned true for " + refv::str(v));
      ways.push_back({ "AddElement" + tag, s, 'i' });
    }
  }
  { std::vector<StructuredData> alt; for (size_t i = v.items.size(); i-- > 0;) alt.push_back(alt_sd(v.items[i])); ways.push_back({ "Set(alt elements, descending)", Factory::Set(alt), 'a' }); }
  if (auto l = lazy_sd(v, false); l.has_value()) ways.push_back({ "lazy", *l, 'l' });
  if (auto l = lazy_sd(v, true); l.has_value()) ways.push_back({ "lazy(alt parts)", *l, 'l' });
  if (n == 1) ways.push_back({ "Singleton", Factory::Singleton(el[0]), 's' });
  if (n >= 1) {   // copy-then-modify: the copy that is modified becomes v, the original keeps its value
    Value less = v; less.items.pop_back();
    auto original = refv::to_sd(less); auto copy = original; const auto keep = original;
    const bool r = copy.ModifyB().AddElement(el.back());
    OK(k, r, "addelement-return", "AddElement of a new element on a copy returned false", "false", "true");
    const Value o2 = refv::from_sd(original), k2 = refv::from_sd(keep);
    OK(k, o2 == less && k2 == less, "copy-changes-original", "modifying a copy changed the original", refv::str(o2), refv::str(less));
    ways.push_back({ "copy+AddElement", copy, 'w' });
  }
}

// ------------------------------------------------------------------------------------------------
// unary battery for value i of universe u
void check_unary(Ctx& c, const Universe& u, size_t i, int maxPerm, int boolMax, UCache& uc) {
  Checker k{ c };
  const Value v = u.value(i);
  uc.elems(u);
  std::vector<Way> ways; build_ways(k, v, maxPerm, ways);
  c.rep.count("constructions", ways.size());
  const StructuredData& w0 = ways[0].sd;
  std::vector<Value> seq0;
  for (size_t wi = 0; wi < ways.size(); ++wi) {
    const auto& w = ways[wi]; const char tag[2] = { w.cls, 0 };
    OK(k, w.sd.IsElement() == v.isElem() && w.sd.IsTuple() == v.isTuple() && w.sd.IsCollection() == v.isSet(), "structure-flags", "IsElement/IsTuple/IsCollection for " + w.name);
    // equality across constructions, both argument orders
    OK(k, w.sd == w0 && w0 == w.sd, "eq-across-constructions", w.name + " == canonical build", "false", "true");
    OK(k, !(w.sd != w0), "eq-across-constructions", w.name + " != canonical build", "true", "false");
    OK(k, !(w.sd < w0) && !(w0 < w.sd), "lt-between-equal", "a < b holds for equal values (" + w.name + ")", "true", "false");
    OK(k, w.sd.Compare(w0) == Comparison::EQUAL, "compare-equal", "Compare of equal values (" + w.name + ")", cmpstr(w.sd.Compare(w0)), "EQUAL");
    if (wi + 1 < ways.size() && wi > 0) OK(k, w.sd == ways[wi + 1].sd && !(ways[wi + 1].sd < w.sd), "eq-across-constructions", w.name + " vs " + ways[wi + 1].name);
    if (wi == 0 || w.cls == 'l' || w.cls == 'a') { const StructuredData copy = w.sd; OK(k, copy == w.sd && !(copy < w.sd) && w.sd == w.sd, "eq-reflexive", "copy == original"); }
    if (!v.isSet()) {
      const Value g = refv::from_sd(w.sd);
      OK(k, g == v, std::string("value-differs-") + tag, "value built by " + w.name, refv::str(g), refv::str(v));
      if (v.isTuple()) {
        OK(k, w.sd.T().Arity() == static_cast<int>(v.items.size()), "tuple-arity", "Arity");
        for (size_t ci = 0; ci < v.items.size(); ++ci) { const Value cg = refv::from_sd(w.sd.T().Component(static_cast<ccl::rslang::Index>(ci + 1))); OK(k, cg == v.items[ci], "tuple-component", "Component(" + std::to_string(ci + 1) + ")", refv::str(cg), refv::str(v.items[ci])); }
      }
      continue;
    }
    const SDSet& s = w.sd.B();
    OK(k, s.Cardinality() == static_cast<int>(v.items.size()), "cardinality", "Cardinality of " + w.name, std::to_string(s.Cardinality()), std::to_string(v.items.size()));
    OK(k, s.IsEmpty() == v.items.empty(), "isempty", "IsEmpty of " + w.name);
    const auto seq = refv::iterate(s);
    { // every element exactly once, and exactly the elements of the value
      auto sorted = seq; std::sort(sorted.begin(), sorted.end());
      const bool dup = std::adjacent_find(sorted.begin(), sorted.end()) != sorted.end();
      OK(k, !dup, "iteration-repeats", "iteration of " + w.name + " yields an element twice");
      sorted.erase(std::unique(sorted.begin(), sorted.end()), sorted.end());
      OK(k, sorted == v.items, std::string("value-differs-") + tag, "value built by " + w.name + " (by iteration)", std::to_string(seq.size()) + " items", refv::str(v));
      OK(k, seq.size() == v.items.size(), "iteration-elements", "iteration of " + w.name + " yields " + std::to_string(seq.size()) + " items for a set of " + std::to_string(v.items.size()));
    }
    if (wi == 0) {
      seq0 = seq;
      // the order used inside the set agrees with operator< of the library on consecutive elements
      std::vector<StructuredData> items; for (auto it = s.begin(); it != s.end(); ++it) items.push_back(*it);
      for (size_t a = 0; a + 1 < items.size(); ++a) OK(k, items[a] < items[a + 1] && !(items[a + 1] < items[a]), "iteration-not-ascending", "consecutive elements of an enumerated set are not ascending by operator<");
    } else OK(k, seq == seq0, std::string("iteration-order-differs-") + tag, "iteration order of " + w.name + " differs from the enumerated set", std::to_string(seq.size()), std::to_string(seq0.size()));
    // membership over the whole element universe
    if (w.cls == 'c' || w.cls == 'a' || w.cls == 'l' || w.cls == 'w')
      for (size_t e = 0; e < u.elems.size(); ++e) {
        const bool exp = refv::contains(v, u.elems[e]);
        const bool got1 = s.Contains(uc.elemSd[e]), got2 = s.Contains(uc.elemAlt[e]);
        OK(k, got1 == exp, std::string("contains-") + tag, "Contains(" + refv::str(u.elems[e]) + ") on " + w.name, bstr(got1), bstr(exp));
        // the element in its other (possibly lazy) representation; a FALSE POSITIVE of a lazy set on a lazily represented element is the
        // shape of the IsSubsetOrEq defect (SDPowerSet::Contains is element.IsSubsetOrEq(base)) and gets that defect's signature
        OK(k, got2 == exp, (got2 && !exp && w.cls == 'l') ? std::string("subset-false-positive-lazy-operand") : std::string("contains-") + tag + "-altelem", "Contains(other representation of " + refv::str(u.elems[e]) + ") on " + w.name, bstr(got2), bstr(exp));
      }
  }
  if (!v.isSet()) return;
  // unary operations on the structurally different representations
  const auto& et = u.type.kids[0];
  for (const auto& w : ways) {
    if (!(w.cls == 'c' || w.cls == 'a' || w.cls == 'l')) continue;
    const SDSet& s = w.sd.B();
    SAME(k, Factory::Singleton(w.sd), refv::singleton(v), nullptr, "singleton", "Singleton on " + w.name);
    if (v.items.size() == 1) SAME(k, s.Debool(), refv::debool(v), nullptr, "debool", "Debool on " + w.name);
    if (et.kind == refv::Type::Kind::Bool) SAME(k, s.Reduce(), refv::reduce(v), nullptr, "reduce", "Reduce on " + w.name);
    if (et.kind == refv::Type::Kind::Tuple) {
      const int m = static_cast<int>(et.kids.size());
      std::vector<std::vector<int>> lists;
      for (int a = 1; a <= m; ++a) { lists.push_back({ a }); for (int b = 1; b <= m; ++b) lists.push_back({ a, b }); }
      if (m == 3) { lists.push_back({ 1, 2, 3 }); lists.push_back({ 3, 2, 1 }); }
      for (const auto& l : lists) {
        std::vector<ccl::rslang::Index> li; for (int x : l) li.push_back(static_cast<ccl::rslang::Index>(x));
        SAME(k, s.Projection(li), refv::projection(v, l), nullptr, "projection", "Projection{" + std::to_string(l[0]) + (l.size() > 1 ? "," + std::to_string(l[1]) : "") + (l.size() > 2 ? ",.." : "") + "} on " + w.name);
      }
    }
    if (static_cast<int>(v.items.size()) <= boolMax) {
      const Value pm = refv::powerset(v);
      const auto P = Factory::Boolean(w.sd);
      const auto Penum = refv::to_sd(pm);
      SAME(k, P, pm, &Penum, "boolean", "Boolean on " + w.name);
      OK(k, P.B().Cardinality() == static_cast<int>(pm.items.size()), "boolean-cardinality", "Cardinality of Boolean on " + w.name, std::to_string(P.B().Cardinality()), std::to_string(pm.items.size()));
      OK(k, refv::iterate(P.B()) == refv::iterate(Penum.B()), "boolean-iteration-order", "power set iterates in a different order than the enumerated set of the same elements");
      for (const auto& sub : pm.items) OK(k, P.B().Contains(refv::to_sd(sub)), "boolean-contains", "Boolean.Contains(subset)");
      for (const auto& e : u.elems) if (!refv::contains(v, e)) { OK(k, !P.B().Contains(refv::to_sd(refv::singleton(e))), "boolean-contains", "Boolean.Contains({x}) for x outside the base", "true", "false"); break; }
      auto Pm = P; OK(k, !Pm.ModifyB().AddElement(Factory::EmptySet()) && refv::from_sd(Pm) == pm && refv::from_sd(P) == pm, "lazy-addelement", "AddElement on a power set must be refused and change nothing");
    }
  }
}

// ------------------------------------------------------------------------------------------------
// binary battery for values i, j of universe u
void check_pair(Ctx& c, const Universe& u, size_t i, size_t j, const Value& a, const Value& b, const Reps& ra, const Reps& rb, int prodMax, const UCache& uc) {
  Checker k{ c };
  const bool eq = i == j;
  for (const auto& [ca, A] : ra.r) for (const auto& [cb, B] : rb.r) {
    const char reps[3] = { ca, cb, 0 };
    const bool e1 = A == B, e2 = B == A, n1 = A != B, l1 = A < B, l2 = B < A;
    OK(k, e1 == eq && e2 == eq, std::string("eq-vs-canonical-") + reps, "a == b must hold exactly when the canonical forms are equal; b=" + refv::str(b), bstr(e1) + "/" + bstr(e2), bstr(eq));
    OK(k, n1 == !e1, "neq-not-negation", "a != b is not the negation of a == b");
    OK(k, !(l1 && l2), "lt-asymmetric", "a < b and b < a both hold; b=" + refv::str(b));
    OK(k, eq ? (!l1 && !l2) : (l1 || l2), "lt-total-consistent", (eq ? "a < b holds for equal values" : "neither a < b nor b < a for different values of one type; b=") + refv::str(b));
    // the order is an order on VALUES (consistent with ==): the same pair of values compares the same way in every representation
    OK(k, l1 == (ra.r[0].second < rb.r[0].second), std::string("lt-depends-on-representation-") + reps, "a < b differs between representations (" + std::string(reps) + " vs enumerated) b=" + refv::str(b), bstr(l1), bstr(!l1));
    const auto cab = A.Compare(B);
    OK(k, (cab == Comparison::EQUAL) == e1 && (cab == Comparison::LESS) == l1 && (cab == Comparison::GREATER) == l2, "compare-consistent", "Compare disagrees with == / <; b=" + refv::str(b), cmpstr(cab));
    if (!a.isSet()) continue;
    const SDSet& sa = A.B(); const SDSet& sb = B.B();
    {
      const bool sub = sa.IsSubsetOrEq(sb), exp = refv::subseteq(a, b);
      // witness shape of a known defect gets its own signature: lazy left operand whose FIRST element is missing from the right operand
      // (reached directly, or through SDPowerSet::Contains when lazily represented sets are elements of the operands: then only the
      //  direction of the error — a false positive with a non-enumerated operand — can be recognised)
      const bool firstMissing = ca == 'l' && sub && !exp && !refv::contains(b, a.items[0]);
      const bool falsePositiveLazy = sub && !exp && (ca != 'c' || cb != 'c');
      OK(k, sub == exp, firstMissing ? std::string("subset-lazy-lhs-first-element-missing") : falsePositiveLazy ? std::string("subset-false-positive-lazy-operand") : std::string("subset-") + reps,
         std::string("IsSubsetOrEq (") + reps + ") b=" + refv::str(b), bstr(sub), bstr(exp));
    }
    if (!((ca == 'c' && cb == 'c') || (ca == 'l' && cb == 'c') || (ca == 'c' && cb == 'l'))) continue;   // operations: enumerated x enumerated, lazy x enumerated, enumerated x lazy
    { const Value m = refv::unite(a, b); SAME(k, sa.Union(sb), m, uc.canon_of(m), "union", std::string("Union (") + reps + ") b=" + refv::str(b)); }
    { const Value m = refv::intersect(a, b); SAME(k, sa.Intersect(sb), m, uc.canon_of(m), "intersect", std::string("Intersect (") + reps + ") b=" + refv::str(b)); }
    { const Value m = refv::diff(a, b); SAME(k, sa.Diff(sb), m, uc.canon_of(m), "diff", std::string("Diff (") + reps + ") b=" + refv::str(b)); }
    { const Value m = refv::symdiff(a, b); SAME(k, sa.SymDiff(sb), m, uc.canon_of(m), "symdiff", std::string("SymDiff (") + reps + ") b=" + refv::str(b)); }
    if (ca == 'c' && cb == 'c' && static_cast<int>(a.items.size() * b.items.size()) <= prodMax) {
      const Value pm = refv::product({ a, b });
      const auto D = Factory::Decartian({ A, B });
      const auto Denum = refv::to_sd(pm);
      SAME(k, D, pm, &Denum, "decartian", "Decartian({a,b}) b=" + refv::str(b));
      OK(k, D.B().Cardinality() == static_cast<int>(pm.items.size()), "decartian-cardinality", "Cardinality of Decartian, b=" + refv::str(b), std::to_string(D.B().Cardinality()), std::to_string(pm.items.size()));
      OK(k, refv::iterate(D.B()) == refv::iterate(Denum.B()), "decartian-iteration-order", "product iterates in a different order than the enumerated set of the same tuples");
      if (!pm.items.empty()) {   // membership: every tuple over (a + one outsider) x (b + one outsider)
        auto withOutsider = [&](const Value& s) { std::vector<Value> v = s.items; for (const auto& e : u.elems) if (!refv::contains(s, e)) { v.push_back(e); break; } return v; };
        for (const auto& x : withOutsider(a)) for (const auto& y : withOutsider(b)) {
          const Value t = refv::Tuple({ x, y });
          OK(k, D.B().Contains(refv::to_sd(t)) == refv::contains(pm, t), "decartian-contains", "Decartian.Contains" + refv::str(t), "", bstr(refv::contains(pm, t)));
        }
      }
    }
  }
}

std::string relation_class(const Value& a, const Value& b) {
  if (!a.isSet()) return a == b ? "equal" : (a < b ? "less" : "greater");
  if (a == b) return a.items.empty() ? "both-empty" : "equal";
  if (a.items.empty() || b.items.empty()) return "one-empty";
  if (refv::subseteq(a, b)) return "proper-subset";
  if (refv::subseteq(b, a)) return "proper-superset";
  return refv::intersect(a, b).items.empty() ? "disjoint" : "overlapping";
}

// strict-total-order laws over a whole universe (n <= 512): matrix of operator< (built once per worker), one case per row a:
// irreflexive, asymmetric + total (exactly one of a<b, b<a, a==b), == consistent with canonical forms, and ALL triples (a, b, c)
struct OrderMatrix { const Universe* u{ nullptr }; std::vector<std::vector<char>> lt, eq; bool sameAsRef{ true }; };
void build_order_matrix(OrderMatrix& m, const Universe& u) {
  if (m.u == &u) return;
  m = OrderMatrix{}; m.u = &u;
  const size_t n = u.n;
  std::vector<StructuredData> sd; for (size_t i = 0; i < n; ++i) sd.push_back(refv::to_sd(u.value(i)));
  m.lt.assign(n, std::vector<char>(n, 0)); m.eq = m.lt;
  for (size_t i = 0; i < n; ++i) for (size_t j = 0; j < n; ++j) { m.lt[i][j] = sd[i] < sd[j] ? 1 : 0; m.eq[i][j] = sd[i] == sd[j] ? 1 : 0; if ((m.lt[i][j] != 0) != (i < j)) m.sameAsRef = false; }
}
void check_order_row(Ctx& c, const Universe& u, const OrderMatrix& m, size_t i) {
  Checker k{ c };
  const size_t n = u.n;
  uint64_t bad = 0, triples = 0;
  OK(k, !m.lt[i][i], "lt-irreflexive", "a < a holds");
  for (size_t j = 0; j < n; ++j) {
    OK(k, (m.eq[i][j] != 0) == (i == j), "eq-vs-canonical-cc", "== disagrees with canonical forms, b=" + refv::str(u.value(j)), bstr(m.eq[i][j] != 0), bstr(i == j));
    if (i != j) OK(k, m.lt[i][j] != m.lt[j][i], m.lt[i][j] ? "lt-asymmetric" : "lt-total-consistent", "b=" + refv::str(u.value(j)));
    if (!m.lt[i][j]) continue;
    const char* rj = m.lt[j].data(); const char* ri = m.lt[i].data();
    for (size_t l = 0; l < n; ++l) if (rj[l] && !ri[l]) { if (bad++ < 3) OK(k, false, "lt-transitive", "a<b, b<c but not a<c: b=" + refv::str(u.value(j)) + " c=" + refv::str(u.value(l))); }
    triples += n;
  }
  k.n += triples;
  c.rep.count("order_triples", triples);
}

struct AlgebraCfg {
  int maxPerm, boolMax, prodMax;
  int bigUnary;                              // margin m: unary battery on values of the big universe with <= m or >= max-m members (16 = all)
  std::vector<std::pair<int, int>> bigPairs; // (mA, mJ): every value of margin mA against every value of margin mJ
  int bigOrder;                              // margin of the sub-universe on which == / < are checked for ALL ordered pairs
};

std::vector<size_t> margin_set(const Universe& u, int m) {
  std::vector<size_t> v; const int top = static_cast<int>(u.elems.size());
  for (size_t j = 0; j < u.n; ++j) { const int k = static_cast<int>(u.subs[j].size()); if (k <= m || k >= top - m) v.push_back(j); }
  return v;
}

void run_algebra(Ctx& c, const std::vector<Universe>& us, const AlgebraCfg& cfg) {
  UCache uc; OrderMatrix om;
  c.case_timeout_s = std::max(c.case_timeout_s, 90);   // the per-worker tables of a universe are built inside the first case that needs them
  for (const auto& u : us) {
    if (c.stop()) return;
    // (1) order laws over the whole universe, one case per row
    if (!u.big() && u.n <= 512) {
      for (size_t i = 0; i < u.n; ++i) {
        if (!c.take()) continue;
        c.begin("order-laws U=" + u.name + " n=" + std::to_string(u.n) + " a=" + refv::str(u.value(i)) + " against all b, c");
        build_order_matrix(om, u);
        check_order_row(c, u, om, i);
        c.rep.count("evaluations");
        if (i == 0) c.rep.outcome(om.sameAsRef ? "order:same-as-reference" : "order:other-total-order");   // informative only
        c.done();
      }
    }
    // (2) unary battery
    {
      std::vector<size_t> sel; if (u.big()) sel = margin_set(u, cfg.bigUnary); else { sel.resize(u.n); std::iota(sel.begin(), sel.end(), size_t{ 0 }); }
      for (size_t i : sel) {
        if (!c.take()) continue;
        const Value v = u.value(i);
        const std::string d = "unary U=" + u.name + " i=" + std::to_string(i) + " v=" + refv::str(v);
        c.begin(d); const double tcase = now_s();
        check_unary(c, u, i, cfg.maxPerm, cfg.boolMax, uc);
        c.rep.count("evaluations");
        if ((v.isSet() && v.items.size() >= 2) || v.isTuple()) c.rep.count("nontrivial");
        c.rep.outcome(std::string("unary:") + (v.isElem() ? "elem" : v.isTuple() ? "tuple" : lazy_sd(v, false).has_value() ? "set-with-lazy-form" : v.items.empty() ? "empty-set" : "enumerated-set"));
        if (c.idx % 4099 == 1) c.rep.sample(d);
        c.done(); c.rep.count(u.big() ? "us_unary_big" : "us_unary", static_cast<uint64_t>((now_s() - tcase) * 1e6));
      }
    }
    // (3) binary battery
    if (!u.big()) {
      const size_t blk = 16;
      for (size_t i = 0; i < u.n; ++i) for (size_t j0 = 0; j0 < u.n; j0 += blk) {
        if (!c.take()) continue;
        const Value a = u.value(i);
        const std::string d = "pairs U=" + u.name + " i=" + std::to_string(i) + " a=" + refv::str(a) + " j=" + std::to_string(j0) + ".." + std::to_string(std::min(u.n, j0 + blk) - 1);
        c.begin(d); const double tcase = now_s();
        uc.all(u);
        for (size_t j = j0; j < std::min(u.n, j0 + blk); ++j) {
          const Value& b = u.vals[j];
          check_pair(c, u, i, j, a, b, uc.reps[i], uc.reps[j], cfg.prodMax, uc);
          c.rep.count("evaluations");
          if (i != j && (!a.isSet() || (!a.items.empty() && !b.items.empty()))) c.rep.count("nontrivial");
          c.rep.outcome("pair:" + std::string(a.isSet() ? "set:" : a.isTuple() ? "tuple:" : "elem:") + relation_class(a, b));
        }
        if (c.idx % 9601 == 1) c.rep.sample(d);
        c.done(); c.rep.count("us_pairs", static_cast<uint64_t>((now_s() - tcase) * 1e6));
      }
    } else {
      // universe too large for all pairs x all operations: margin classes (values with <= m or >= max-m members)
      for (const auto& [mA, mJ] : cfg.bigPairs) {
        const auto Aset = margin_set(u, mA), J = margin_set(u, mJ);
        std::vector<Reps> jreps;
        const size_t jb = 16;
        for (size_t i : Aset) for (size_t q0 = 0; q0 < J.size(); q0 += jb) {
          if (!c.take()) continue;
          const Value a = u.value(i);
          const std::string d = "pairs U=" + u.name + " i=" + std::to_string(i) + " a=" + refv::str(a) + " vs values " + std::to_string(q0) + ".." + std::to_string(std::min(J.size(), q0 + jb) - 1) + " of the " + std::to_string(J.size()) + " with <=" + std::to_string(mJ) + " or >=max-" + std::to_string(mJ) + " members";
          c.begin(d); const double tcase = now_s();
          uc.elems(u);
          if (jreps.empty()) for (size_t j : J) jreps.push_back(reps_of(u.value(j)));
          const Reps ra = reps_of(a);
          for (size_t q = q0; q < std::min(J.size(), q0 + jb); ++q) {
            const Value b = u.value(J[q]);
            check_pair(c, u, i, J[q], a, b, ra, jreps[q], 0, uc);
            c.rep.count("evaluations");
            if (i != J[q] && !a.items.empty() && !b.items.empty()) c.rep.count("nontrivial");
            if (q % 16 == 0) c.rep.outcome("pair:set:" + relation_class(a, b));
          }
          if (c.idx % 9973 == 1) c.rep.sample(d);
          c.done(); c.rep.count("us_pairs_big", static_cast<uint64_t>((now_s() - tcase) * 1e6));
        }
      }
      if (cfg.bigOrder >= 0) {
        // == and < over ALL ordered pairs of a margin class; one case per row. Irreflexivity, asymmetry, totality and consistency with ==
        // are asserted directly; transitivity over this class is derived from agreement with the reference order (size, then
        // lexicographic — the order upstream's SetOrdering test exercises); a disagreement is reported under its own signature.
        const auto S = margin_set(u, cfg.bigOrder);
        std::vector<StructuredData> sd;
        for (size_t r = 0; r < S.size(); ++r) {
          if (!c.take()) continue;
          const size_t i = S[r];
          c.begin("order-row U=" + u.name + " i=" + std::to_string(i) + " a=" + refv::str(u.value(i)) + " vs " + std::to_string(S.size()) + " values");
          if (sd.empty()) for (size_t j : S) sd.push_back(refv::to_sd(u.value(j)));
          Checker k{ c };
          uint64_t diffRef = 0;
          for (size_t q = 0; q < S.size(); ++q) {
            const bool e = sd[r] == sd[q], l1 = sd[r] < sd[q], l2 = sd[q] < sd[r];
            OK(k, e == (r == q), "eq-vs-canonical-cc", "== disagrees with canonical forms, b=" + refv::str(u.value(S[q])), bstr(e), bstr(r == q));
            OK(k, !(l1 && l2), "lt-asymmetric", "b=" + refv::str(u.value(S[q])));
            OK(k, (r == q) ? !(l1 || l2) : (l1 || l2), "lt-total-consistent", "b=" + refv::str(u.value(S[q])));
            if (l1 != (r < q)) ++diffRef;
          }
          OK(k, diffRef == 0, "lt-differs-from-reference-order", "operator< is not the size-then-lexicographic order on " + std::to_string(diffRef) + " partners (transitivity over this class is derived from that agreement)");
          c.rep.count("evaluations", S.size()); c.rep.count("nontrivial", S.size() - 1);
          c.done();
        }
      }
    }
  }
}

// ================================================================================================
// E2: value semantics
struct VSObj {
  StructuredData h[3];
  Value m[3];
  int lvl[3]{ 1, 1, 2 };
  bool lazy[3]{ false, false, false };
};

struct VSys {
  using Obj = VSObj; using Op = OpRec;
  int nIds{ 2 }, nLits{ 2 };
  int seeds() const { return 3; }
  static Value lit2(int b) { return b == 0 ? Value{} : b == 1 ? refv::Set({ refv::Elem(1) }) : refv::Set({ refv::Elem(1), refv::Elem(2) }); }
  std::unique_ptr<Obj> fresh(int seed) {
    auto o = std::make_unique<Obj>();
    if (seed == 1) {        // a value shared by two handles, and a set of sets
      o->h[0] = Factory::SetV({ 1, 2 }); o->m[0] = refv::Set({ refv::Elem(1), refv::Elem(2) });
      o->h[1] = o->h[0]; o->m[1] = o->m[0];
      o->h[2] = Factory::Singleton(Factory::SetV({ 1 })); o->m[2] = refv::singleton(lit2(1));
    } else if (seed == 2) { // a lazy power set whose base is shared with a handle
      o->h[0] = Factory::SetV({ 1 }); o->m[0] = lit2(1);
      o->h[2] = Factory::Boolean(o->h[0]); o->m[2] = refv::powerset(o->m[0]); o->lazy[2] = true;
    }
    return o;
  }
  std::vector<Op> enabled(const Obj& o) {
    std::vector<Op> v;
    for (int i = 0; i < 3; ++i) for (int j = 0; j < 3; ++j) if (i != j) v.push_back(Op{ 0, i, j, 0 });
    for (int i = 0; i < 3; ++i) for (int e = 0; e < (o.lvl[i] == 1 ? nIds : nLits); ++e) v.push_back(Op{ 1, i, e, 0 });
    for (int i = 0; i < 3; ++i) for (int j = 0; j < 3; ++j) if (i != j && o.lvl[i] == 2 && o.lvl[j] == 1) v.push_back(Op{ 2, i, j, 0 });
    for (int i = 0; i < 3; ++i) for (int j = 0; j < 3; ++j) for (int l = j; l < 3; ++l) if (o.lvl[j] == o.lvl[l]) v.push_back(Op{ 3, i, j, l });
    for (int i = 0; i < 3; ++i) for (int j = 0; j < 3; ++j) if (o.lvl[j] == 1) v.push_back(Op{ 4, i, j, 0 });
    for (int i = 0; i < 3; ++i) for (int j = 0; j < 3; ++j) if (o.lvl[j] == 2 && !o.m[j].items.empty()) v.push_back(Op{ 5, i, j, 0 });
    return v;
  }
  std::string describe(const Op& op) {
    auto H = [](int i) { return "h" + std::to_string(i); };
    switch (op.k) {
    case 0: return H(op.a) + ":=copy(" + H(op.b) + ")";
    case 1: return H(op.a) + ".ModifyB().AddElement(lit" + std::to_string(op.b) + ")";
    case 2: return H(op.a) + ".ModifyB().AddElement(" + H(op.b) + ")";
    case 3: return H(op.a) + ":=Union(" + H(op.b) + "," + H(op.c) + ")";
    case 4: return H(op.a) + ":=Boolean(" + H(op.b) + ")";
    default: return H(op.a) + ":=first(" + H(op.b) + ")";
    }
  }
  static std::string values(const Obj& o) { std::string s; for (int i = 0; i < 3; ++i) s += refv::str(refv::from_sd(o.h[i])) + ";"; return s; }
  void add(Obj& o, int a, const StructuredData& x, const Value& xm, Ctx* c) {
    Value others[3]; if (c) for (int i = 0; i < 3; ++i) others[i] = refv::from_sd(o.h[i]);
    const bool r = o.h[a].ModifyB().AddElement(x);
    bool expected = false;
    if (!o.lazy[a]) { expected = !refv::contains(o.m[a], xm); o.m[a] = refv::unite(o.m[a], refv::singleton(xm)); }
    if (c) {
      c->rep.count("checks");
      if (r != expected) c->fail("C15:addelement-return", "AddElement returned " + bstr(r) + " on handle " + std::to_string(a), bstr(r), bstr(expected));
      for (int i = 0; i < 3; ++i) if (i != a || !r) { c->rep.count("checks"); const Value now = refv::from_sd(o.h[i]); if (!(now == others[i])) c->fail(i == a ? "C15:refused-add-changed-value" : "C15:copy-changes-original", "h" + std::to_string(i) + " changed when h" + std::to_string(a) + " was modified", refv::str(now), refv::str(others[i])); }
    }
  }
  void apply(Obj& o, const Op& op, Ctx* c, const std::string&) {
    switch (op.k) {
    case 0: o.h[op.a] = o.h[op.b]; o.m[op.a] = o.m[op.b]; o.lvl[op.a] = o.lvl[op.b]; o.lazy[op.a] = o.lazy[op.b]; break;
    case 1: if (o.lvl[op.a] == 1) add(o, op.a, Factory::Val(op.b + 1), refv::Elem(op.b + 1), c); else add(o, op.a, refv::to_sd(lit2(op.b)), lit2(op.b), c); break;
    case 2: { const Value xm = o.m[op.b]; add(o, op.a, o.h[op.b], xm, c); break; }
    case 3: { auto r = o.h[op.b].B().Union(o.h[op.c].B()); o.h[op.a] = r; o.m[op.a] = refv::unite(o.m[op.b], o.m[op.c]); o.lvl[op.a] = o.lvl[op.b]; o.lazy[op.a] = false; break; }
    case 4: { auto r = Factory::Boolean(o.h[op.b]); const Value pm = refv::powerset(o.m[op.b]); o.h[op.a] = r; o.m[op.a] = pm; o.lvl[op.a] = 2; o.lazy[op.a] = true; break; }
    default: { StructuredData first = *o.h[op.b].B().begin(); const Value fm = o.m[op.b].items[0]; o.h[op.a] = first; o.m[op.a] = fm; o.lvl[op.a] = 1; o.lazy[op.a] = false; break; }
    }
  }
  void check_state(Obj& o, Ctx& c, const std::string&) {
    for (int i = 0; i < 3; ++i) {
      c.rep.count("checks", 3);
      const Value g = refv::from_sd(o.h[i]);
      if (!(g == o.m[i])) c.fail("C15:value-semantics", "handle h" + std::to_string(i) + " does not hold the model's value", refv::str(g), refv::str(o.m[i]));
      if (o.h[i].B().Cardinality() != static_cast<int>(o.m[i].items.size())) c.fail("C15:cardinality", "Cardinality of h" + std::to_string(i), std::to_string(o.h[i].B().Cardinality()), std::to_string(o.m[i].items.size()));
      const bool isLazy = dynamic_cast<const ob::SDPowerSet*>(o.h[i].B().impl.get()) != nullptr;
      if (isLazy != o.lazy[i]) c.fail("C15:representation", "h" + std::to_string(i) + " lazy flag", bstr(isLazy), bstr(o.lazy[i]));
      for (int j = 0; j < 3; ++j) if (o.lvl[i] == o.lvl[j]) { c.rep.count("checks"); if ((o.h[i] == o.h[j]) != (o.m[i] == o.m[j])) c.fail("C15:eq-vs-canonical-handles", "h" + std::to_string(i) + " == h" + std::to_string(j), bstr(o.h[i] == o.h[j]), bstr(o.m[i] == o.m[j])); }
    }
    c.rep.outcome(std::string("lvl") + std::to_string(o.lvl[0]) + std::to_string(o.lvl[1]) + std::to_string(o.lvl[2]) + (o.lazy[0] || o.lazy[1] || o.lazy[2] ? "+lazy" : "") + ((o.h[0].data == o.h[1].data || o.h[0].data == o.h[2].data || o.h[1].data == o.h[2].data) ? "+shared" : ""));
  }
  // exact dump: value, representation, pointer-sharing classes and use counts of handles and of the elements they contain
  std::string key(const Obj& o) {
    std::string s;
    // observing a lazy set fills its cache (and raises the use counts of the base's elements): observe everything first so that the
    // dump does not depend on the order in which the handles are visited (the caches here never reach the eviction limit)
    Value seen[3]; for (int i = 0; i < 3; ++i) seen[i] = refv::from_sd(o.h[i]);
    auto who = [&](const StructuredData& d) { for (int i = 0; i < 3; ++i) if (o.h[i].data == d.data) return std::to_string(i); return std::string("-"); };
    for (int i = 0; i < 3; ++i) {
      const auto* impl = o.h[i].B().impl.get();
      const auto* ps = dynamic_cast<const ob::SDPowerSet*>(impl);
      s += "h" + std::to_string(i) + "[lvl" + std::to_string(o.lvl[i]) + (o.lazy[i] ? "L" : "E") + " m=" + refv::str(o.m[i]) + " v=" + refv::str(seen[i]) +
           " alias=" + who(o.h[i]) + " uc=" + std::to_string(o.h[i].data.use_count());
      if (ps != nullptr) {
        std::vector<uint32_t> ck; for (const auto& [idx, val] : ps->cachedElements) ck.push_back(idx); std::sort(ck.begin(), ck.end());
        s += " P(base alias=" + who(ps->base) + " uc=" + std::to_string(ps->base.data.use_count()) + " size=" + std::to_string(ps->size) + " cache="; for (auto x : ck) s += std::to_string(x) + ","; s += ")";
      } else {
        s += " E(";
        for (auto it = impl->begin(); it != impl->end(); ++it) s += who(*it) + ":" + std::to_string(it->data.use_count()) + ",";
        s += ")";
      }
      s += "] ";
    }
    return s;
  }
};

// ================================================================================================
// lazy sets under two live cursors
struct LazyObj { std::string name; StructuredData sd; std::vector<Value> expect; };

LazyObj make_lazy(char kind, int size) {   // 'P': power set of {1..size};  'D': product {1..size} x {1..size}
  LazyObj o; std::vector<ob::DataID> ids; for (int i = 1; i <= size; ++i) ids.push_back(i);
  const auto base = Factory::SetV(ids);
  Value bm; for (int i = 1; i <= size; ++i) bm.items.push_back(refv::Elem(i));
  if (kind == 'P') { o.sd = Factory::Boolean(base); o.expect = refv::powerset(bm).items; o.name = "P(" + std::to_string(size) + ")"; }
  else { o.sd = Factory::Decartian({ base, base }); o.expect = refv::product({ bm, bm }).items; o.name = "D(" + std::to_string(size) + "x" + std::to_string(size) + ")"; }
  return o;
}

struct Cursor {
  ob::SDIterator it; size_t pos{ 0 }; int policy;   // 0 deref every position, 1 even positions, 2 odd positions, 3 never, 4 deref twice
  bool wants() const { return policy == 0 || policy == 4 || (policy == 1 && pos % 2 == 0) || (policy == 2 && pos % 2 == 1); }
};

void run_lazy(Ctx& c, int psSize, int dSize) {
  struct K { char kind; int size; };
  // huge lazy sets (added after a round-8 seed): products of k power sets over n elements, far beyond every enumerable size. Whatever
  // cardinality the library reports for them (it saturates), a set with elements is not empty: cardinality > 0, != the empty set,
  // begin() != end(), its first element is a member, and a member built by hand is contained.
  for (const auto& [n, kf] : std::vector<std::pair<int, int>>{ { 3, 2 }, { 16, 2 }, { 16, 4 }, { 20, 3 }, { 22, 3 }, { 27, 3 }, { 28, 2 }, { 31, 2 }, { 16, 8 }, { 8, 8 } }) {
    if (!c.take()) continue;
    const std::string desc = "lazy:huge product of " + std::to_string(kf) + " power sets over " + std::to_string(n) + " elements";
    c.begin(desc);
    Checker k{ c };
    std::vector<ob::DataID> ids; for (int i = 1; i <= n; ++i) ids.push_back(i);
    const auto base = Factory::SetV(ids);
    std::vector<StructuredData> factors(static_cast<size_t>(kf), Factory::Boolean(base));
    const auto D = Factory::Decartian(factors);
    OK(k, !D.B().IsEmpty(), "huge-product-empty", desc + ": IsEmpty() although every factor has elements");
    OK(k, D.B().Cardinality() > 0, "huge-product-cardinality", desc + ": Cardinality()", std::to_string(D.B().Cardinality()), "> 0");
    OK(k, !(D == Factory::EmptySet()) && !(Factory::EmptySet() == D), "huge-product-equals-empty", desc + ": compares equal to the empty set");
    OK(k, D.B().begin() != D.B().end(), "huge-product-no-iteration", desc + ": begin() == end()");
    std::vector<StructuredData> member(static_cast<size_t>(kf), Factory::SetV({ 1 }));
    OK(k, D.B().Contains(Factory::Tuple(member)), "huge-product-contains", desc + ": a tuple of members of the factors is not contained");
    if (D.B().begin() != D.B().end()) { const StructuredData first = *D.B().begin(); OK(k, D.B().Contains(first), "huge-product-first-not-member", desc + ": the first element iterated is not contained"); }
    const auto P = Factory::Boolean(D);
    OK(k, !P.B().IsEmpty() && P.B().Cardinality() > 0 && P.B().Contains(Factory::EmptySet()), "huge-powerset", desc + ": power set of the product is empty or lacks the empty set");
    c.rep.count("evaluations"); c.rep.count("nontrivial"); c.rep.outcome("huge-lazy");
    c.done();
  }
  // below and above the cache limit; the last two have more than 256 elements (positions beyond one byte): selected lags / positions only
  const std::vector<K> kinds = { { 'P', psSize - 1 }, { 'D', 8 }, { 'P', psSize }, { 'D', dSize }, { 'P', 9 }, { 'D', 20 } };
  for (const auto& kd : kinds) {
    const LazyObj proto = make_lazy(kd.kind, kd.size);
    const size_t N = proto.expect.size();
    auto visit = [&](Checker& k, const LazyObj& o, Cursor& cu, const char* who) {
      if (cu.wants()) {
        for (int rep = 0; rep < (cu.policy == 4 ? 2 : 1); ++rep) {
          const StructuredData val = *cu.it;   // copy discipline
          const Value g = refv::from_sd(val);
          OK(k, cu.pos < N && g == o.expect[cu.pos], "lazy-cursor-wrong-element", std::string("cursor ") + who + " at position " + std::to_string(cu.pos) + " of " + o.name, refv::str(g), cu.pos < N ? refv::str(o.expect[cu.pos]) : "end");
        }
      }
      ++cu.it; ++cu.pos;
    };
    // F1: B lags behind A by d positions, all deref policies
    const bool big = N > 256;
    auto selected = [&](size_t x) { return !big || x <= 1 || x == 100 || (x >= 255 && x <= 257) || x == 300 || x + 1 >= N; };
    for (size_t d = 0; d <= N; ++d) for (int pa : { 0, 1, 3, 4 }) for (int pb : { 0, 2 }) {
      if (!selected(d)) continue;
      if (!c.take()) continue;
      const std::string desc = "lazy:lag " + proto.name + " d=" + std::to_string(d) + " policyA=" + std::to_string(pa) + " policyB=" + std::to_string(pb);
      c.begin(desc);
      Checker k{ c };
      const LazyObj o = make_lazy(kd.kind, kd.size);
      Cursor A{ o.sd.B().begin(), 0, pa }, B{ o.sd.B().begin(), 0, pb };
      const auto end = o.sd.B().end();
      for (size_t t = 0; t < d && A.it != end; ++t) visit(k, o, A, "A");
      while (A.it != end || B.it != end) { if (A.it != end) visit(k, o, A, "A"); if (B.it != end) visit(k, o, B, "B"); }
      OK(k, A.pos == N && B.pos == N, "lazy-cursor-length", "cursors visited " + std::to_string(A.pos) + "/" + std::to_string(B.pos) + " positions of " + std::to_string(N));
      c.rep.count("evaluations"); if (d > 0 && d < N) c.rep.count("nontrivial");
      c.rep.outcome(std::string("lag:") + (N > 100 ? "over-cache-limit" : "within-cache-limit"));
      if (c.idx % 577 == 1) c.rep.sample(desc);
      c.done();
    }
    // F2: copy of a cursor in the middle of the traversal; F3: nested traversal (copy discipline)
    for (size_t i = 0; i < N; ++i) {
      if (!selected(i)) continue;
      if (c.take()) {
        c.begin("lazy:iterator-copy " + proto.name + " at=" + std::to_string(i));
        Checker k{ c };
        const LazyObj o = make_lazy(kd.kind, kd.size);
        Cursor A{ o.sd.B().begin(), 0, 0 }; const auto end = o.sd.B().end();
        for (size_t t = 0; t < i; ++t) visit(k, o, A, "A");
        Cursor C{ A.it, A.pos, 0 };
        while (A.it != end || C.it != end) { if (C.it != end) visit(k, o, C, "C"); if (A.it != end) visit(k, o, A, "A"); }
        OK(k, A.pos == N && C.pos == N, "lazy-cursor-length", "copy of a cursor visited " + std::to_string(C.pos) + " positions of " + std::to_string(N));
        c.rep.count("evaluations"); c.rep.count("nontrivial"); c.rep.outcome("iterator-copy");
        c.done();
      }
      if (c.take()) {
        c.begin("lazy:nested-copy " + proto.name + " outer=" + std::to_string(i));
        Checker k{ c };
        const LazyObj o = make_lazy(kd.kind, kd.size);
        Cursor A{ o.sd.B().begin(), 0, 3 }; const auto end = o.sd.B().end();
        for (size_t t = 0; t < i; ++t) visit(k, o, A, "A");
        const StructuredData outer = *A.it;
        Cursor B{ o.sd.B().begin(), 0, 0 };
        while (B.it != end) visit(k, o, B, "B");
        const Value g1 = refv::from_sd(outer), g2 = refv::from_sd(*A.it);
        OK(k, g1 == o.expect[i] && g2 == o.expect[i], "lazy-nested-outer-element", "outer element after a full inner traversal", refv::str(g1) + " / " + refv::str(g2), refv::str(o.expect[i]));
        c.rep.count("evaluations"); c.rep.count("nontrivial"); c.rep.outcome("nested-copy");
        c.done();
      }
    }
    // F4: reference obtained from one cursor is still in use while the other cursor traverses the same set
    //     (what `for (const auto& a : S) { for (const auto& b : S) ...; use(a); }` does, and what ASTInterpreter::ViDeclarative does
    //     when a declarative set and a quantifier inside its predicate range over the same stored power set).
    //     NOT asserted: a reference surviving the advance of the cursor that produced it (full forward-iterator guarantee) —
    //     the property speaks of iteration, and no range-for needs it.
    for (size_t i : { size_t{ 0 }, N / 2, N - 1 }) {
      if (c.take()) {
        c.begin("lazy:held-reference-two-cursors " + proto.name + " outer=" + std::to_string(i));
        Checker k{ c };
        const LazyObj o = make_lazy(kd.kind, kd.size);
        auto A = o.sd.B().begin(); for (size_t t = 0; t < i; ++t) ++A;
        const StructuredData& ra = *A;
        size_t inner = 0;
        for (const auto& b : o.sd.B()) { OK(k, refv::from_sd(b) == o.expect[inner], "lazy-cursor-wrong-element", "inner loop element " + std::to_string(inner)); ++inner; }
        const Value g = refv::from_sd(ra);
        OK(k, g == o.expect[i], "lazy-held-reference-value", "element referenced by the outer loop changed during the inner loop", refv::str(g), refv::str(o.expect[i]));
        c.rep.count("evaluations"); c.rep.count("nontrivial"); c.rep.outcome("held-reference");
        c.done();
      }
    }
  }
}

}  // namespace

int main(int argc, char** argv) {
  Options opt = parse_args(argc, argv);
  const double t0 = now_s();
  Result res; res.property = "C15"; res.harness = "h_sdata"; res.mode = opt.mode; res.tier = opt.tier;
  RunInfo ri; bool exhaustive = true;
  if (opt.mode == "algebra") {
    AlgebraCfg cfg;
    cfg.maxPerm = static_cast<int>(opt.num("maxperm", opt.thorough() ? 5 : 4));
    cfg.boolMax = static_cast<int>(opt.num("boolmax", opt.thorough() ? 5 : 4));
    cfg.prodMax = static_cast<int>(opt.num("prodmax", opt.thorough() ? 36 : 16));
    cfg.bigUnary = static_cast<int>(opt.num("bigunary", opt.thorough() ? 16 : 3));
    cfg.bigOrder = static_cast<int>(opt.num("bigorder", opt.thorough() ? 3 : 2));
    const std::string bp = opt.str("bigpairs", opt.thorough() ? "16:0,3:1,2:2" : "2:1");
    { std::istringstream is(bp); std::string t; while (std::getline(is, t, ',')) { const auto p = t.find(':'); if (p != std::string::npos) cfg.bigPairs.emplace_back(atoi(t.substr(0, p).c_str()), atoi(t.substr(p + 1).c_str())); } }
    const auto us = make_universes(opt.str("u3", opt.thorough() ? "0,1,2,3,4,5,8,9" : "0,1,2,5"), opt.str("u4", opt.thorough() ? "0,1,2,5" : ""));
    res.rep = run_sharded(opt, "algebra", [&](Ctx& c) { run_algebra(c, us, cfg); }, &ri);
    std::string ul; uint64_t total = 0; for (const auto& u : us) { ul += u.name + ":" + std::to_string(u.n) + " "; total += u.n; }
    res.alphabet = "universes (type|base size:values) " + ul;
    res.completed_bound = std::to_string(us.size()) + " universes, " + std::to_string(total) + " values; every value, all ordered pairs x all operations and all triples (order laws) in every universe of <= 4096 values; in B(B(B(E)))|E=2 (65536 values) "
                          "margin classes (values with <= m or >= 16-m members): unary battery m=" + std::to_string(cfg.bigUnary) + ", pairs (mA:mJ) " + bp + ", == / < over all ordered pairs of m=" + std::to_string(cfg.bigOrder);
    res.rule = "case = one value (unary battery over every construction: all permutations for <= " + std::to_string(cfg.maxPerm) + " elements, else identity/reverse/rotations/riffle; with duplicates; incremental AddElement; alt/lazy element "
               "representations; Boolean/Decartian form when the value is a full power set/product; copy-then-modify) or one value x block of partners (==, !=, <, Compare, IsSubsetOrEq, Union, Intersect, Diff, SymDiff, Decartian in "
               "canonical x lazy/alt representations) or one universe (irreflexive/asymmetric/total/transitive over ALL triples, n <= 512); evaluations = values + ordered pairs; non-trivial = sets with >= 2 elements or tuples (unary), "
               "different non-empty partners (pairs)";
    res.assumptions = { "operations are called inside their preconditions only (Projection on sets of tuples with valid indices, Reduce on sets of sets, Debool on singletons, Decartian on sets, values of ONE type compared)",
                        "AddElement on a power set / product is refused by design (upstream tests BooleanAddElement / DecartianAddElement) and asserted as 'returns false, changes nothing'",
                        "cardinalities far below BOOL_INFINITY / SET_INFINITY", "clang 14 + libstdc++ 12, ASan+UBSan build" };
  } else if (opt.mode == "valuesem") {
    VSys sys; sys.nIds = static_cast<int>(opt.num("ids", opt.thorough() ? 3 : 2)); sys.nLits = static_cast<int>(opt.num("lits", opt.thorough() ? 3 : 2));
    const int depth = static_cast<int>(opt.num("depth", opt.thorough() ? 5 : 4));
    if (opt.kv.count("bfs-replay")) { Ctx c; Bfs<VSys>::replay_history(sys, opt.kv.at("bfs-replay"), c); res.rep = c.rep; }
    else {
      BfsStats st = Bfs<VSys>::run(sys, opt, depth, res.rep, "valuesem");
      exhaustive = st.exhaustive;
      res.states = st.states; res.transitions = st.transitions;
      std::string lv; for (auto x : st.level_sizes) lv += std::to_string(x) + " ";
      res.completed_bound = "depth " + std::to_string(st.completed_depth) + " of " + std::to_string(depth) + "; level sizes " + lv;
      res.extra["x_level_sizes"] = jstr(lv);
      res.distinct_nontrivial = st.changed;
    }
    res.alphabet = "3 handles (levels B(E) / BB(E)); h:=copy(h'), h.ModifyB().AddElement(literal | other handle), h:=Union(h',h''), h:=Boolean(h'), h:=first element of h'; " + std::to_string(sys.nIds) + " ids, " + std::to_string(sys.nLits) + " set literals; seeds: empty / shared value + set of sets / lazy power set sharing its base with a handle";
    res.rule = "state = exact dump of the three handles (value, representation, pointer-sharing classes, use counts, cache keys) + model; every state: each handle's value by iteration == model, Cardinality, == between handles; every AddElement: return value, no OTHER handle changes; non-trivial = transitions changing the state";
    res.assumptions = { "handles only receive values of their level (typing discipline)" };
  } else if (opt.mode == "lazy") {
    const int ps = static_cast<int>(opt.num("psbase", 7)), ds = static_cast<int>(opt.num("dbase", 11));
    res.rep = run_sharded(opt, "lazy", [&](Ctx& c) { run_lazy(c, ps, ds); }, &ri);
    res.alphabet = "power sets of " + std::to_string(ps - 1) + " / " + std::to_string(ps) + " element bases (64 / 128 elements), products 8x8 / " + std::to_string(ds) + "x" + std::to_string(ds) + "; cache limit of the library = 100";
    res.completed_bound = "all lags 0..N between two cursors x 4x2 deref policies; iterator copy at every position; nested traversal from every outer position; held reference at first/middle/last position";
    res.rule = "case = one schedule of two cursors on ONE lazy set object; every dereferenced element compared with the model's element at that position; non-trivial = both cursors live inside the set";
    res.assumptions = { "iterators are compared with end() only (it != end()), as every loop in the library does" };
  } else { fprintf(stderr, "unknown mode\n"); return 2; }
  if (opt.mode != "valuesem") {
    res.states = res.rep.counters["evaluations"]; res.transitions = res.rep.counters["checks"];
    res.distinct_nontrivial = res.rep.counters["nontrivial"];
    exhaustive = !ri.deadline_hit && !ri.crash_cap_hit;
  }
  res.evaluations = opt.mode == "valuesem" ? res.transitions + res.rep.counters["states_checked"] : res.rep.counters["evaluations"];
  res.traces_validated = res.evaluations;
  res.exhaustive = exhaustive;
  res.wall_s = now_s() - t0;
  res.write(opt.out.empty() ? "/dev/stdout" : opt.out);
  return 0;
}
