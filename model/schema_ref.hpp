// Reference pieces for the schema harness (h_schema.cpp): deliberately naive, no code shared with /repo.
//   * whole-identifier renamer over RSLang MATH text (definitions, conventions, type strings, AST dumps)
//   * entity renamer over "@{NAME|tags}" text references
//   * mentions(): which global names / referenced entities a text mentions
//   * cycle detection on a small digraph given as adjacency map
//   * structural diff of two JSON values -> list of generalised paths
// Identifier grammar transcribed from MathLexerImpl.l (maximal munch):
//   alnum = _ | 0-9 | A-Z | a-z | U+03B1..U+03C9 ; word = maximal alnum run not starting with a digit
//   a word is a GLOBAL name (ID_GLOBAL / ID_FUNCTION / ID_PREDICATE) iff it starts with A-Z except B and is none of
//   D R I Z, R<digits> (radical), Pr<digits>, Fi<digits> (operators with index).
#pragma once
#include <map>
#include <set>
#include <string>
#include <vector>
#include <functional>

namespace sref {

inline size_t alnum_len(const std::string& s, size_t i) {  // length in bytes of an alnum symbol at i, 0 if none
  const auto c = static_cast<unsigned char>(s[i]);
  if (c == '_' || (c >= '0' && c <= '9') || (c >= 'A' && c <= 'Z') || (c >= 'a' && c <= 'z')) return 1;
  if (i + 1 < s.size()) {
    const auto d = static_cast<unsigned char>(s[i + 1]);
    if (c == 0xCE && d >= 0xB1 && d <= 0xBF) return 2;  // α..ο
    if (c == 0xCF && d >= 0x80 && d <= 0x89) return 2;  // π..ω
  }
  return 0;
}
inline bool all_digits(const std::string& w, size_t from) {
  if (from >= w.size()) return false;
  for (size_t i = from; i < w.size(); ++i) if (w[i] < '0' || w[i] > '9') return false;
  return true;
}
inline bool is_global_word(const std::string& w) {
  if (w.empty()) return false;
  const char c = w[0];
  if (c < 'A' || c > 'Z' || c == 'B') return false;
  if (w == "D" || w == "R" || w == "I" || w == "Z") return false;
  if (c == 'R' && all_digits(w, 1)) return false;
  if (w.size() > 2 && (w.compare(0, 2, "Pr") == 0 || w.compare(0, 2, "Fi") == 0) && all_digits(w, 2)) return false;
  return true;
}

// calls f(word, isGlobal) for every word; returns the text with global words replaced by f's result (if non-empty optional)
inline std::string map_globals(const std::string& s, const std::function<std::string(const std::string&)>& f, int* replaced = nullptr) {
  std::string out; size_t i = 0;
  while (i < s.size()) {
    const auto c = static_cast<unsigned char>(s[i]);
    if (c >= '0' && c <= '9') {  // number: digits only; a following letter starts a new word
      while (i < s.size() && s[i] >= '0' && s[i] <= '9') out += s[i++];
      continue;
    }
    size_t l = alnum_len(s, i);
    if (l == 0) { out += s[i++]; continue; }
    std::string w;
    while (i < s.size() && (l = alnum_len(s, i)) != 0) { w.append(s, i, l); i += l; }
    if (is_global_word(w)) { const auto r = f(w); if (r != w && replaced) ++*replaced; out += r; }
    else out += w;
  }
  return out;
}
inline std::string rename_globals(const std::string& s, const std::map<std::string, std::string>& m, int* replaced = nullptr) {
  return map_globals(s, [&](const std::string& w) { auto it = m.find(w); return it == m.end() ? w : it->second; }, replaced);
}
inline std::set<std::string> globals_of(const std::string& s) {
  std::set<std::string> r; map_globals(s, [&](const std::string& w) { r.insert(w); return w; }); return r;
}

// text references: "@{" FIELD1 "|" ... "}" without nesting (the harness alphabet contains no nested groups)
struct RefSpan { size_t nameFrom, nameLen; std::string name; };
inline std::vector<RefSpan> refs_of(const std::string& s) {
  std::vector<RefSpan> r; size_t i = 0;
  while ((i = s.find("@{", i)) != std::string::npos) {
    const size_t close = s.find('}', i); if (close == std::string::npos) break;
    const size_t bar = s.find('|', i);
    if (bar != std::string::npos && bar < close) {
      const std::string name = s.substr(i + 2, bar - (i + 2));
      if (!name.empty() && ((name[0] >= 'A' && name[0] <= 'Z') || (name[0] >= 'a' && name[0] <= 'z'))) r.push_back({ i + 2, name.size(), name });
    }
    i = close + 1;
  }
  return r;
}
inline std::string rename_refs(const std::string& s, const std::map<std::string, std::string>& m, int* replaced = nullptr) {
  std::string out; size_t last = 0;
  for (auto& sp : refs_of(s)) {
    out.append(s, last, sp.nameFrom - last);
    auto it = m.find(sp.name);
    if (it != m.end() && it->second != sp.name) { out += it->second; if (replaced) ++*replaced; } else out += sp.name;
    last = sp.nameFrom + sp.nameLen;
  }
  out.append(s, last, std::string::npos);
  return out;
}
inline std::set<std::string> ref_names_of(const std::string& s) { std::set<std::string> r; for (auto& sp : refs_of(s)) r.insert(sp.name); return r; }

// vertices on a directed cycle (incl. self loops) of a small graph: v -> set of successors
template <class V>
std::set<V> on_cycle(const std::map<V, std::set<V>>& succ) {
  std::set<V> res;
  for (auto& [v, _] : succ) {  // v is on a cycle iff v reachable from one of its successors
    std::set<V> seen; std::vector<V> st;
    auto it = succ.find(v); if (it == succ.end()) continue;
    for (auto& w : it->second) st.push_back(w);
    bool hit = false;
    while (!st.empty() && !hit) {
      V w = st.back(); st.pop_back();
      if (w == v) { hit = true; break; }
      if (!seen.insert(w).second) continue;
      auto jt = succ.find(w); if (jt == succ.end()) continue;
      for (auto& x : jt->second) st.push_back(x);
    }
    if (hit) res.insert(v);
  }
  return res;
}
// everything reachable from `from` (inclusive)
template <class V>
std::set<V> reach(const std::map<V, std::set<V>>& succ, const std::set<V>& from) {
  std::set<V> seen; std::vector<V> st(from.begin(), from.end());
  while (!st.empty()) { V w = st.back(); st.pop_back(); if (!seen.insert(w).second) continue; auto jt = succ.find(w); if (jt != succ.end()) for (auto& x : jt->second) st.push_back(x); }
  return seen;
}

}  // namespace sref
