// refvalue.hpp — canonical finite-set values: the reference model of ccl::object::StructuredData.
//
// Shares no code with /repo (it only *reads* library objects through their public iteration API in the
// conversion functions at the bottom). Deliberately naive: a set is a sorted duplicate-free std::vector.
// Used by h_sdata (C15), h_compact (C16) and the evaluation harnesses (C01 / C02).
//
// ---------------------------------------------------------------------------------------------------
// INTERFACE (namespace refv)
//
//  Values
//    struct Value { Kind kind (Elem|Tuple|Set); int32_t id; std::vector<Value> items; }
//      Elem : id;  Tuple : items = components in order (arity >= 2);  Set : items sorted by cmp(), no duplicates.
//    Value Elem(int32_t) / Tuple(std::vector<Value>) / Set(std::vector<Value>)   constructors (Set normalises;
//      Tuple of ONE component is that component itself — same convention as the library and RSLang)
//    int  cmp(a, b)              canonical total order (-1/0/+1): kind; Elem by id; Tuple by arity then lexicographic;
//                                Set by size then lexicographic over the sorted elements.  operator== / < use it.
//    std::string str(v)          "3", "(3, (3, 5))", "{3, 5}"
//
//  Set algebra (arguments must be Sets; results normalised)
//    contains(s, e)  subseteq(a, b)  unite  intersect  diff  symdiff
//    projection(s, {i1..ik})     1-based component indices; one index yields the component itself
//    reduce(s)                   union of the elements of a set of sets
//    debool(s)                   the single element (precondition |s| == 1)
//    powerset(s)  product({s1..sk})  singleton(v)  card(s)
//
//  Types (own description, independent of ccl::rslang::Typification)
//    struct Type { Kind kind (Base|Tuple|Bool); std::string base; std::vector<Type> kids; }
//    TBase(name)  TTuple({..})  TBool(t)   str(t) -> "B(X1*B(Z))"   nodes(t)
//    enumerate_types(maxNodes, maxArity, bases)      all types, smallest first
//    compatible(value, type)     DEEP check: every element of every set, at every depth
//
//  Enumeration of all values of a type over small base domains
//    using Domains = std::map<std::string, std::vector<int32_t>>   (key "*" = default for unlisted bases)
//    subsets_card_lex(n, cap, &complete)   subsets of {0..n-1} as index lists, by size then lexicographic; if 2^n > cap
//                                          only the first cap/2 and the complements of those (the last cap/2) are produced
//                                          (n > 64: the first cap only)
//    enumerate(type, domains, cap, &complete)  all values in canonical (cmp) order; capped as above per set level
//
//  Bridge to the library (the only part that includes ccl headers)
//    to_typification(Type) / from_typification(Typification)
//    to_sd(Value)                 builds the enumerated library value (Factory::Val / Tuple / Set)
//    lazy_sd(Value, altParts)     the value as Factory::Boolean(base) / Factory::Decartian(factors) when it IS a full power set /
//                                 product of its projections (nullopt otherwise); altParts: bases / factors built by alt_sd
//    alt_sd(Value)                the same value built "the other way": lazy where possible (recursively), otherwise elements
//                                 inserted in descending order with a duplicate — equal to to_sd(v) by the property under test
//    from_sd(StructuredData)      converts by ITERATING the library value (works for enumerated, power-set, product)
//    iterate(SDSet)               raw iteration sequence converted element by element (not sorted, duplicates kept)
//    compatible_sd(sd, typif)     deep compatibility of a library value with a library typification (by iteration;
//                                 unlike ccl::object::CheckCompatible it visits every element)
// ---------------------------------------------------------------------------------------------------
#pragma once
#include "ccl/rslang/StructuredData.h"
#include "ccl/rslang/Typification.h"

#include <algorithm>
#include <cstdint>
#include <functional>
#include <map>
#include <optional>
#include <string>
#include <vector>

namespace refv {

// ======================================== values ========================================
struct Value {
  enum class Kind : uint8_t { Elem = 0, Tuple = 1, Set = 2 };
  Kind kind{ Kind::Set };
  int32_t id{ 0 };
  std::vector<Value> items;
  bool isElem() const { return kind == Kind::Elem; }
  bool isTuple() const { return kind == Kind::Tuple; }
  bool isSet() const { return kind == Kind::Set; }
};

inline int cmp(const Value& a, const Value& b) {
  if (a.kind != b.kind) return a.kind < b.kind ? -1 : 1;
  if (a.kind == Value::Kind::Elem) return a.id < b.id ? -1 : a.id > b.id ? 1 : 0;
  if (a.items.size() != b.items.size()) return a.items.size() < b.items.size() ? -1 : 1;
  for (size_t i = 0; i < a.items.size(); ++i) {
    const int c = cmp(a.items[i], b.items[i]);
    if (c != 0) return c;
  }
  return 0;
}
inline bool operator==(const Value& a, const Value& b) { return cmp(a, b) == 0; }
inline bool operator!=(const Value& a, const Value& b) { return cmp(a, b) != 0; }
inline bool operator<(const Value& a, const Value& b) { return cmp(a, b) < 0; }

inline Value Elem(int32_t id) { Value v; v.kind = Value::Kind::Elem; v.id = id; return v; }
inline Value Tuple(std::vector<Value> comps) {
  if (comps.size() == 1) return comps[0];
  Value v; v.kind = Value::Kind::Tuple; v.items = std::move(comps); return v;
}
inline Value Set(std::vector<Value> elems) {
  Value v; v.kind = Value::Kind::Set;
  std::sort(elems.begin(), elems.end());
  elems.erase(std::unique(elems.begin(), elems.end()), elems.end());
  v.items = std::move(elems); return v;
}
inline Value EmptySet() { return Value{}; }

inline std::string str(const Value& v) {
  if (v.isElem()) return std::to_string(v.id);
  std::string s(1, v.isTuple() ? '(' : '{');
  for (size_t i = 0; i < v.items.size(); ++i) { if (i) s += ", "; s += str(v.items[i]); }
  return s + (v.isTuple() ? ')' : '}');
}

// ======================================== set algebra ========================================
inline size_t card(const Value& s) { return s.items.size(); }
inline bool contains(const Value& s, const Value& e) {
  for (const auto& x : s.items) if (x == e) return true;
  return false;
}
inline bool subseteq(const Value& a, const Value& b) {
  for (const auto& x : a.items) if (!contains(b, x)) return false;
  return true;
}
inline Value unite(const Value& a, const Value& b) { auto v = a.items; v.insert(v.end(), b.items.begin(), b.items.end()); return Set(std::move(v)); }
inline Value intersect(const Value& a, const Value& b) { std::vector<Value> v; for (const auto& x : a.items) if (contains(b, x)) v.push_back(x); return Set(std::move(v)); }
inline Value diff(const Value& a, const Value& b) { std::vector<Value> v; for (const auto& x : a.items) if (!contains(b, x)) v.push_back(x); return Set(std::move(v)); }
inline Value symdiff(const Value& a, const Value& b) { return unite(diff(a, b), diff(b, a)); }
inline Value singleton(const Value& e) { return Set({ e }); }
inline Value projection(const Value& s, const std::vector<int>& indices1) {
  std::vector<Value> out;
  for (const auto& t : s.items) {
    std::vector<Value> comps;
    for (int i : indices1) comps.push_back(t.items.at(static_cast<size_t>(i - 1)));
    out.push_back(Tuple(std::move(comps)));
  }
  return Set(std::move(out));
}
inline Value reduce(const Value& s) { std::vector<Value> out; for (const auto& e : s.items) out.insert(out.end(), e.items.begin(), e.items.end()); return Set(std::move(out)); }
inline Value debool(const Value& s) { return s.items.at(0); }
inline Value powerset(const Value& s) {
  std::vector<Value> out; const size_t n = s.items.size();
  for (uint64_t m = 0; m < (uint64_t{ 1 } << n); ++m) {
    std::vector<Value> sub; for (size_t i = 0; i < n; ++i) if (m >> i & 1U) sub.push_back(s.items[i]);
    out.push_back(Set(std::move(sub)));
  }
  return Set(std::move(out));
}
inline Value product(const std::vector<Value>& factors) {
  std::vector<std::vector<Value>> rows{ {} };
  for (const auto& f : factors) {
    std::vector<std::vector<Value>> next;
    for (const auto& r : rows) for (const auto& e : f.items) { auto r2 = r; r2.push_back(e); next.push_back(std::move(r2)); }
    rows = std::move(next);
  }
  std::vector<Value> out; for (auto& r : rows) out.push_back(Tuple(std::move(r)));
  return Set(std::move(out));
}

// ======================================== types ========================================
struct Type {
  enum class Kind : uint8_t { Base = 0, Tuple = 1, Bool = 2 };
  Kind kind{ Kind::Base };
  std::string base;
  std::vector<Type> kids;   // Tuple: components; Bool: exactly one
};
inline Type TBase(std::string name) { Type t; t.kind = Type::Kind::Base; t.base = std::move(name); return t; }
inline Type TTuple(std::vector<Type> comps) { Type t; t.kind = Type::Kind::Tuple; t.kids = std::move(comps); return t; }
inline Type TBool(Type b) { Type t; t.kind = Type::Kind::Bool; t.kids.push_back(std::move(b)); return t; }
inline std::string str(const Type& t) {
  if (t.kind == Type::Kind::Base) return t.base;
  if (t.kind == Type::Kind::Bool) return "B(" + str(t.kids[0]) + ")";
  std::string s;
  for (size_t i = 0; i < t.kids.size(); ++i) { if (i) s += "*"; s += t.kids[i].kind == Type::Kind::Tuple ? "(" + str(t.kids[i]) + ")" : str(t.kids[i]); }
  return s;
}
inline int nodes(const Type& t) { int n = 1; for (const auto& k : t.kids) n += nodes(k); return n; }

inline bool compatible(const Value& v, const Type& t) {
  switch (t.kind) {
  case Type::Kind::Base: return v.isElem();
  case Type::Kind::Tuple:
    if (!v.isTuple() || v.items.size() != t.kids.size()) return false;
    for (size_t i = 0; i < t.kids.size(); ++i) if (!compatible(v.items[i], t.kids[i])) return false;
    return true;
  case Type::Kind::Bool:
    if (!v.isSet()) return false;
    for (const auto& e : v.items) if (!compatible(e, t.kids[0])) return false;
    return true;
  }
  return false;
}

// all types with <= maxNodes nodes (Base = 1, Bool = 1 + |base|, Tuple = 1 + sum), tuple arity 2..maxArity
inline std::vector<Type> enumerate_types(int maxNodes, int maxArity, const std::vector<std::string>& bases) {
  std::vector<std::vector<Type>> bySize(static_cast<size_t>(maxNodes) + 1);
  for (int n = 1; n <= maxNodes; ++n) {
    auto& out = bySize[static_cast<size_t>(n)];
    if (n == 1) { for (const auto& b : bases) out.push_back(TBase(b)); continue; }
    for (const auto& b : bySize[static_cast<size_t>(n - 1)]) out.push_back(TBool(b));
    // tuples: compositions of n-1 into k parts, k = 2..maxArity
    for (int k = 2; k <= maxArity; ++k) {
      std::vector<int> parts(static_cast<size_t>(k), 1);
      std::function<void(int, int)> rec = [&](int pos, int left) {
        if (pos == k - 1) {
          if (left < 1) return;
          parts[static_cast<size_t>(pos)] = left;
          std::vector<std::vector<Type>> acc{ {} };
          for (int p : parts) { std::vector<std::vector<Type>> nx; for (auto& a : acc) for (const auto& c : bySize[static_cast<size_t>(p)]) { auto a2 = a; a2.push_back(c); nx.push_back(std::move(a2)); } acc = std::move(nx); }
          for (auto& a : acc) out.push_back(TTuple(std::move(a)));
          return;
        }
        for (int p = 1; p <= left - (k - 1 - pos); ++p) { parts[static_cast<size_t>(pos)] = p; rec(pos + 1, left - p); }
      };
      rec(0, n - 1);
    }
  }
  std::vector<Type> all; for (auto& v : bySize) for (auto& t : v) all.push_back(std::move(t));
  return all;
}

// ======================================== enumeration of values ========================================
using Domains = std::map<std::string, std::vector<int32_t>>;

// subsets of {0..n-1} as sorted index lists, ordered by size then lexicographically.
// If 2^n > cap: *complete = false and, for n <= 64, the first cap/2 of that order followed by the complements of those in reverse
// (= the last cap/2); for n > 64 just the first cap (the complements would be huge sets).
inline std::vector<std::vector<int>> subsets_card_lex(int n, size_t cap, bool* complete = nullptr) {
  const bool all = n < 62 && (uint64_t{ 1 } << n) <= cap;
  if (complete != nullptr && !all) *complete = false;
  const bool tail = !all && n <= 64;
  const size_t want = all ? (size_t{ 1 } << n) : tail ? cap / 2 : cap;
  std::vector<std::vector<int>> out;
  for (int k = 0; k <= n && out.size() < want; ++k) {
    std::vector<int> c(static_cast<size_t>(k)); for (int i = 0; i < k; ++i) c[static_cast<size_t>(i)] = i;
    while (true) {
      out.push_back(c);
      if (out.size() >= want) break;
      int p = k - 1;
      while (p >= 0 && c[static_cast<size_t>(p)] == n - k + p) --p;
      if (p < 0) break;
      ++c[static_cast<size_t>(p)];
      for (int q = p + 1; q < k; ++q) c[static_cast<size_t>(q)] = c[static_cast<size_t>(q - 1)] + 1;
    }
  }
  if (tail) {
    const size_t first = out.size();
    for (size_t i = first; i-- > 0;) {
      std::vector<int> comp; size_t p = 0;
      for (int x = 0; x < n; ++x) { if (p < out[i].size() && out[i][p] == x) ++p; else comp.push_back(x); }
      out.push_back(std::move(comp));
    }
  }
  return out;
}

// all values of `t` in canonical order (see cmp); set levels with more than `cap` values are cut as subsets_card_lex does
inline std::vector<Value> enumerate(const Type& t, const Domains& dom, size_t cap = 1U << 20, bool* complete = nullptr) {
  switch (t.kind) {
  case Type::Kind::Base: {
    auto it = dom.find(t.base); if (it == dom.end()) it = dom.find("*");
    std::vector<Value> out; if (it != dom.end()) for (auto id : it->second) out.push_back(Elem(id));
    std::sort(out.begin(), out.end()); out.erase(std::unique(out.begin(), out.end()), out.end());
    return out;
  }
  case Type::Kind::Tuple: {
    std::vector<std::vector<Value>> rows{ {} };
    for (const auto& k : t.kids) {
      const auto vals = enumerate(k, dom, cap, complete);
      std::vector<std::vector<Value>> next;
      for (const auto& r : rows) for (const auto& v : vals) {
        if (next.size() >= cap) { if (complete != nullptr) *complete = false; break; }
        auto r2 = r; r2.push_back(v); next.push_back(std::move(r2));
      }
      rows = std::move(next);
    }
    std::vector<Value> out; for (auto& r : rows) out.push_back(Tuple(std::move(r)));
    return out;  // lexicographic over sorted component lists = canonical order
  }
  case Type::Kind::Bool: {
    const auto elems = enumerate(t.kids[0], dom, cap, complete);
    const auto subs = subsets_card_lex(static_cast<int>(elems.size()), cap, complete);
    std::vector<Value> out; out.reserve(subs.size());
    for (const auto& s : subs) { Value v; v.kind = Value::Kind::Set; for (int i : s) v.items.push_back(elems[static_cast<size_t>(i)]); out.push_back(std::move(v)); }
    return out;
  }
  }
  return {};
}

// ======================================== bridge to the library ========================================
inline ccl::rslang::Typification to_typification(const Type& t) {
  using ccl::rslang::Typification;
  switch (t.kind) {
  case Type::Kind::Base: return Typification(t.base);
  case Type::Kind::Bool: return to_typification(t.kids[0]).Bool();
  case Type::Kind::Tuple: { std::vector<Typification> f; for (const auto& k : t.kids) f.push_back(to_typification(k)); return Typification::Tuple(std::move(f)); }
  }
  return Typification("?");
}
inline Type from_typification(const ccl::rslang::Typification& t) {
  if (t.IsElement()) return TBase(t.E().baseID);
  if (t.IsCollection()) return TBool(from_typification(t.B().Base()));
  std::vector<Type> k; for (const auto& c : t.T()) k.push_back(from_typification(c));
  return TTuple(std::move(k));
}

inline ccl::object::StructuredData to_sd(const Value& v) {
  using ccl::object::Factory;
  if (v.isElem()) return Factory::Val(v.id);
  std::vector<ccl::object::StructuredData> parts; parts.reserve(v.items.size());
  for (const auto& x : v.items) parts.push_back(to_sd(x));
  return v.isTuple() ? Factory::Tuple(parts) : Factory::Set(parts);
}

inline ccl::object::StructuredData alt_sd(const Value& v);
inline std::optional<ccl::object::StructuredData> lazy_sd(const Value& v, bool altParts) {
  using ccl::object::Factory; using ccl::object::StructuredData;
  if (!v.isSet() || v.items.empty()) return std::nullopt;
  bool allSets = true, allTuples = true;
  for (const auto& e : v.items) { allSets = allSets && e.isSet(); allTuples = allTuples && e.isTuple() && e.items.size() == v.items[0].items.size(); }
  if (allSets) {
    const Value U = reduce(v);
    if (U.items.size() <= 20 && v.items.size() == (size_t{ 1 } << U.items.size())) return Factory::Boolean(altParts ? alt_sd(U) : to_sd(U));
    return std::nullopt;
  }
  if (allTuples) {
    const size_t m = v.items[0].items.size(); size_t prod = 1; std::vector<StructuredData> parts;
    for (size_t i = 0; i < m; ++i) { const Value f = projection(v, { static_cast<int>(i + 1) }); prod *= f.items.size(); parts.push_back(altParts ? alt_sd(f) : to_sd(f)); }
    if (prod == v.items.size()) return Factory::Decartian(parts);
  }
  return std::nullopt;
}
inline ccl::object::StructuredData alt_sd(const Value& v) {
  using ccl::object::Factory; using ccl::object::StructuredData;
  if (v.isElem()) return Factory::Val(v.id);
  if (v.isTuple()) { std::vector<StructuredData> c; for (const auto& x : v.items) c.push_back(alt_sd(x)); return Factory::Tuple(c); }
  if (auto l = lazy_sd(v, true); l.has_value()) return *l;
  std::vector<StructuredData> el;
  for (size_t i = v.items.size(); i-- > 0;) el.push_back(alt_sd(v.items[i]));
  if (!el.empty()) el.push_back(el.front());
  return Factory::Set(el);
}

inline Value from_sd(const ccl::object::StructuredData& d);
inline std::vector<Value> iterate(const ccl::object::SDSet& s) {
  std::vector<Value> out;
  const auto e = s.end();
  for (auto it = s.begin(); it != e; ++it) out.push_back(from_sd(*it));
  return out;
}
inline Value from_sd(const ccl::object::StructuredData& d) {
  if (d.IsElement()) return Elem(d.E().Value());
  if (d.IsTuple()) {
    std::vector<Value> comps; const auto n = d.T().Arity();
    for (ccl::rslang::Index i = 0; i < n; ++i) comps.push_back(from_sd(d.T().Component(static_cast<ccl::rslang::Index>(ccl::rslang::Typification::PR_START + i))));
    Value v; v.kind = Value::Kind::Tuple; v.items = std::move(comps); return v;   // arity kept as observed (even if 1)
  }
  return Set(iterate(d.B()));
}

inline bool compatible_sd(const ccl::object::StructuredData& d, const ccl::rslang::Typification& t) {
  if (t.IsElement()) return d.IsElement();
  if (t.IsTuple()) {
    if (!d.IsTuple() || d.T().Arity() != t.T().Arity()) return false;
    for (ccl::rslang::Index i = ccl::rslang::Typification::PR_START; i < t.T().Arity() + ccl::rslang::Typification::PR_START; ++i)
      if (!compatible_sd(d.T().Component(i), t.T().Component(i))) return false;
    return true;
  }
  if (!d.IsCollection()) return false;
  const auto e = d.B().end();
  for (auto it = d.B().begin(); it != e; ++it) if (!compatible_sd(*it, t.B().Base())) return false;
  return true;
}

}  // namespace refv
