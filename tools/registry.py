"""Registry: which harness modes serve which property (consumed by ./check and tools/gen_manifest.py)."""

CHECKS = {
    'C20': {
        'title': 'UTF-8 string utilities and interval algebra agree with their definitions',
        'design_ref': 'DESIGN.md §5 C20',
        'runs': [
            {'harness': 'h_strings', 'flavour': 'fast', 'mode': 'utf8',
             'args': {'quick': {'maxlen': 5}, 'thorough': {'maxlen': 6}}, 'share': 0.8},
            {'harness': 'h_strings', 'flavour': 'fast', 'mode': 'ranges',
             'args': {'quick': {'window': 8}, 'thorough': {'window': 16}}, 'share': 0.2},
        ],
        'technique': 'bounded-exhaustive enumeration of all strings / range pairs on the real header code vs naive reference (E1)',
        'level_text': 'every string of <= 5 (thorough 6) code points over a 17-symbol alphabet (ASCII symbols with a role + first/typical/last code point of every encoded length), and every ordered '
                      'pair of ranges in a window, is run through the real functions and an independent naive reference; complete within the bound',
        'level_note': 'well-formed UTF-8 only (as the property states); alphabet of 17 symbols; clang14/libstdc++12',
    },
}


# fragments written per harness family: tools/registry.d/*.json  ({"C14": {...}, ...})
import glob as _glob, json as _json, os as _os
for _f in sorted(_glob.glob(_os.path.join(_os.path.dirname(_os.path.abspath(__file__)), 'registry.d', '*.json'))):
    CHECKS.update(_json.load(open(_f)))
