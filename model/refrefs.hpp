// C17 reference model: the @{...} reference grammar fixed in DESIGN.md §5 C17, a term-context / resolution model and
// a text-with-ranges (list of segments) model for Resolve / OutputRefs / TranslateRaw / Insert / EraseIn.
// Plain C++, shares no code with /repo, deliberately naive (byte loops, quadratic searches).
//
// Grammar (the precise reading of "well-formed @{...} occurrences"):
//   text   ::= (plain | group)*         scanned left to right
//   group  ::= "@{" ... "}"             closed by brace counting from the opening brace; a lone '@' that is not followed
//                                       by '{' is plain text; an unterminated group swallows the rest of the text
//   a group is a reference iff its payload (between "@{" and the closing "}") parses:
//     fields = payload split at every '|'
//     entity        : 2..4 fields, field 0 non-empty and starting with an ASCII letter, and at least one valid grammeme:
//                       2 fields   -> field 1 is a comma separated tag list (each tag trimmed)
//                       3..4 fields-> legacy spelling, every field after the first is ONE tag (trimmed, no comma split);
//                                     a last field that starts with an ASCII digit is a legacy index and is dropped
//                     unknown tags are ignored; "UNKN" is not a grammeme
//     collaboration : exactly 2 fields, field 0 matches -?[0-9]+ and its value lies within int16; field 1 = nominal text
//   Groups nested inside a group belong to the outer group (the harness does NOT assert this reading: `nested` is
//   reported so that the caller can leave those texts unasserted).
// Canonical spelling: entity "@{name|t1,t2}" with tags in grammeme order; collaboration "@{offset|nominal}" (decimal).
#pragma once
#include <algorithm>
#include <cstdint>
#include <map>
#include <set>
#include <string>
#include <vector>

namespace refrefs {

// ------------------------------------------------------------------------------------------------ code points
inline bool is_cont(char b) { return (static_cast<unsigned char>(b) & 0xC0) == 0x80; }
inline int cp_count(const std::string& s) { int n = 0; for (char c : s) if (!is_cont(c)) ++n; return n; }
// byte offset of code point number cp (cp == cp_count -> size)
inline size_t byte_of_cp(const std::string& s, int cp) {
  int n = 0;
  for (size_t i = 0; i < s.size(); ++i) { if (!is_cont(s[i])) { if (n == cp) return i; ++n; } }
  return s.size();
}
inline int cp_of_byte(const std::string& s, size_t b) { int n = 0; for (size_t i = 0; i < b && i < s.size(); ++i) if (!is_cont(s[i])) ++n; return n; }
inline std::string cp_substr(const std::string& s, int a, int b) {
  if (a < 0) a = 0; if (b < a) b = a;
  const size_t x = byte_of_cp(s, a), y = byte_of_cp(s, b);
  return s.substr(x, y - x);
}
inline std::vector<std::string> cp_split(const std::string& s) {
  std::vector<std::string> out;
  for (size_t i = 0; i < s.size();) { size_t j = i + 1; while (j < s.size() && is_cont(s[j])) ++j; out.push_back(s.substr(i, j - i)); i = j; }
  return out;
}

// ------------------------------------------------------------------------------------------------ grammemes
// index in this table + 1 == numeric value of the grammeme (transcribed from the documentation order of the tag set)
inline const std::vector<std::string>& tag_names() {
  static const std::vector<std::string> t = {
    "NOUN", "NPRO", "INFN", "VERB", "ADJF", "ADJS", "PRTF", "PRTS", "ADVB", "GRND", "COMP", "PRED", "NUMR",
    "CONJ", "INTJ", "PRCL", "PREP", "PNCT", "pres", "past", "futr", "1per", "2per", "3per", "sing", "plur",
    "masc", "femn", "neut", "nomn", "gent", "datv", "ablt", "accs", "loct" };
  return t;
}
inline int tag_index(const std::string& t) {  // 1..35, 0 = not a grammeme
  const auto& n = tag_names();
  for (size_t i = 0; i < n.size(); ++i) if (n[i] == t) return static_cast<int>(i) + 1;
  return 0;
}
inline bool is_ws(char c) { return c == ' ' || c == '\t' || c == '\n' || c == '\v' || c == '\f' || c == '\r'; }
inline std::string trim(const std::string& s) {
  size_t a = 0, b = s.size();
  while (a < b && is_ws(s[a])) ++a;
  while (b > a && is_ws(s[b - 1])) --b;
  return s.substr(a, b - a);
}
inline std::vector<std::string> split(const std::string& s, char d) {
  std::vector<std::string> out; std::string cur;
  for (char c : s) { if (c == d) { out.push_back(cur); cur.clear(); } else cur += c; }
  out.push_back(cur);
  return out;
}
using Tags = std::vector<int>;  // sorted, unique
inline std::string tags_text(const Tags& t) {
  std::string s;
  for (size_t i = 0; i < t.size(); ++i) { if (i) s += ","; s += tag_names()[static_cast<size_t>(t[i] - 1)]; }
  return s;
}

// ------------------------------------------------------------------------------------------------ references
enum class Kind { none, entity, collab };
struct Ref {
  Kind kind{ Kind::none };
  std::string entity; Tags tags;       // entity
  int offset{ 0 }; std::string nominal;  // collaboration
  std::string why;                     // for kind == none: which rule rejected the payload (diagnostics / classification)
  bool operator==(const Ref& o) const { return kind == o.kind && entity == o.entity && tags == o.tags && offset == o.offset && nominal == o.nominal; }
  bool operator!=(const Ref& o) const { return !(*this == o); }
  std::string canonical() const {
    if (kind == Kind::entity) return "@{" + entity + "|" + tags_text(tags) + "}";
    if (kind == Kind::collab) return "@{" + std::to_string(offset) + "|" + nominal + "}";
    return "";
  }
  std::string show() const {
    if (kind == Kind::entity) return "E(" + entity + ";" + tags_text(tags) + ")";
    if (kind == Kind::collab) return "C(" + std::to_string(offset) + ";" + nominal + ")";
    return "none";
  }
};
inline bool ascii_letter(char c) { return (c >= 'a' && c <= 'z') || (c >= 'A' && c <= 'Z'); }
inline bool ascii_digit(char c) { return c >= '0' && c <= '9'; }

inline Ref parse_payload(const std::string& payload) {
  Ref r;
  const auto f = split(payload, '|');
  if (f.size() < 2 || f.size() > 4) { r.why = "field-count"; return r; }
  if (f[0].empty()) { r.why = "empty-first-field"; return r; }
  if (ascii_letter(f[0][0])) {
    std::vector<std::string> cand;
    if (f.size() == 2) { for (auto& t : split(f[1], ',')) cand.push_back(t); }
    else {
      for (size_t i = 1; i < f.size(); ++i) cand.push_back(f[i]);
      if (!cand.back().empty() && ascii_digit(cand.back()[0])) cand.pop_back();  // legacy index
    }
    std::set<int> tags;
    for (auto& t : cand) { const int k = tag_index(trim(t)); if (k != 0) tags.insert(k); }
    if (tags.empty()) { r.why = "no-grammeme"; return r; }
    r.kind = Kind::entity; r.entity = f[0]; r.tags.assign(tags.begin(), tags.end());
    return r;
  }
  // collaboration: -?[0-9]+ within int16, exactly two fields
  size_t p = 0; bool neg = false;
  if (f[0][0] == '-') { neg = true; p = 1; }
  if (p >= f[0].size()) { r.why = "not-integer"; return r; }
  long long v = 0; bool big = false;
  for (size_t i = p; i < f[0].size(); ++i) {
    if (!ascii_digit(f[0][i])) { r.why = "not-integer"; return r; }
    if (!big) { v = v * 10 + (f[0][i] - '0'); if (v > 1000000) big = true; }
  }
  if (f.size() != 2) { r.why = "collab-field-count"; return r; }
  if (neg) v = -v;
  if (big || v < -32768 || v > 32767) { r.why = "offset-out-of-int16"; return r; }
  r.kind = Kind::collab; r.offset = static_cast<int>(v); r.nominal = f[1];
  return r;
}

struct Group {
  size_t b0{ 0 }, b1{ 0 };   // byte range of the whole group incl. "@{" and the closing "}" (b1 = size for unterminated)
  int c0{ 0 }, c1{ 0 };      // the same in code points
  bool terminated{ true };
  bool nested{ false };      // a '{' occurs inside the group
  std::string text;          // the group's spelling
  Ref ref;                   // kind none: malformed group
};
struct Scan {
  std::vector<Group> groups;  // every group, left to right
  bool nested{ false };       // some group contains an inner '{' -> outside the asserted reading
  bool unterminated{ false };
  std::vector<Group> refs() const { std::vector<Group> r; for (auto& g : groups) if (g.terminated && g.ref.kind != Kind::none) r.push_back(g); return r; }
};

inline Scan scan(const std::string& s) {
  Scan out; const size_t n = s.size();
  size_t i = 0;
  while (i < n) {
    if (!(s[i] == '@' && i + 1 < n && s[i + 1] == '{')) { ++i; continue; }
    Group g; g.b0 = i;
    int depth = 0; size_t j = i + 1; bool closed = false;
    for (; j < n; ++j) {
      if (s[j] == '{') { if (depth >= 1) g.nested = true; ++depth; }
      else if (s[j] == '}') { --depth; if (depth == 0) { closed = true; break; } }
    }
    g.terminated = closed;
    g.b1 = closed ? j + 1 : n;
    g.c0 = cp_of_byte(s, g.b0); g.c1 = cp_of_byte(s, g.b1);
    g.text = s.substr(g.b0, g.b1 - g.b0);
    if (closed) g.ref = parse_payload(s.substr(g.b0 + 2, j - (g.b0 + 2))); else { g.ref.why = "unterminated"; out.unterminated = true; }
    out.nested = out.nested || g.nested;
    out.groups.push_back(g);
    i = g.b1;
  }
  return out;
}

// Parse of ONE group spelling ("@{" ... matching "}" at the very end). Returns false if s is not exactly one group.
inline bool parse_group(const std::string& s, Ref& out, bool* nested = nullptr) {
  const Scan sc = scan(s);
  if (sc.groups.size() != 1 || !sc.groups[0].terminated || sc.groups[0].b0 != 0 || sc.groups[0].b1 != s.size()) return false;
  out = sc.groups[0].ref; if (nested) *nested = sc.groups[0].nested;
  return true;
}

// ------------------------------------------------------------------------------------------------ term contexts
struct TermModel { std::string nominal; std::map<Tags, std::string> manual; };
struct ContextModel {
  std::string name;
  std::map<std::string, TermModel> terms;
  // 0: the library's default text processor (inflection = identity);
  // 1: the harness' marking processor: Inflect(t, form) = t.empty() ? "" : t + "^" + tags; InflectDependant(d, m) = d + "<" + m + ">"
  int processor{ 0 };
};
inline std::string inflect(const ContextModel& c, const std::string& t, const Tags& tags) {
  if (c.processor == 0) return t;
  return t.empty() ? std::string{} : t + "^" + tags_text(tags);
}
inline std::string inflect_dependant(const ContextModel& c, const std::string& dep, const std::string& main) {
  if (c.processor == 0) return dep;
  return dep + "<" + main + ">";
}
inline std::string or_empty_marker(const std::string& s) { return s.empty() ? std::string("!Empty reference!") : s; }
inline std::string resolve_entity(const ContextModel& c, const Ref& r) {
  if (r.entity.empty()) return "!Empty reference!";
  auto it = c.terms.find(r.entity);
  if (it == c.terms.end()) return "!Cannot find entity: '" + r.entity + "'!";
  const auto& term = it->second;
  std::string form;
  auto m = term.manual.find(r.tags);
  if (m != term.manual.end()) form = m->second; else form = inflect(c, term.nominal, r.tags);
  if (form.empty()) return or_empty_marker(term.nominal);
  return form;
}

// ------------------------------------------------------------------------------------------------ text with ranges
struct RefRec {
  Ref ref;
  std::string spelling;   // how the reference was written in the raw text (canonical for inserted references)
  int start{ 0 }, finish{ 0 };  // code-point range in the RESOLVED text
  std::string resolved;
};
struct Segment { bool isRef{ false }; std::string text; /* plain: the text; ref: resolved text */ size_t refIndex{ 0 }; };

struct Doc {
  std::vector<std::string> cps;   // resolved text, one element per code point
  std::vector<RefRec> refs;       // ordered by start
  bool broken{ false };           // set when the implementation accepted something the model cannot follow

  int length() const { return static_cast<int>(cps.size()); }
  std::string text() const { std::string s; for (auto& c : cps) s += c; return s; }
  std::string slice(int a, int b) const { std::string s; for (int i = a; i < b && i < length(); ++i) s += cps[static_cast<size_t>(i)]; return s; }

  // the list-of-segments view: plain pieces and references alternate; concatenation of segment texts == text()
  std::vector<Segment> segments() const {
    std::vector<Segment> out; int cur = 0;
    for (size_t i = 0; i < refs.size(); ++i) {
      if (refs[i].start > cur) out.push_back(Segment{ false, slice(cur, refs[i].start), 0 });
      out.push_back(Segment{ true, refs[i].resolved, i });
      cur = refs[i].finish;
    }
    if (cur < length()) out.push_back(Segment{ false, slice(cur, length()), 0 });
    return out;
  }
  // references written back over the resolved text, each in canonical spelling
  std::string canonical_raw() const { std::string s; for (auto& g : segments()) s += g.isRef ? refs[g.refIndex].ref.canonical() : g.text; return s; }
  // internal consistency: ordered, disjoint, every range delimits its resolved text
  bool aligned() const {
    int cur = 0;
    for (auto& r : refs) { if (r.start < cur || r.finish < r.start || r.finish > length()) return false; if (slice(r.start, r.finish) != r.resolved) return false; cur = r.finish; }
    return true;
  }
  bool separated() const {  // no two references touch
    for (size_t i = 1; i < refs.size(); ++i) if (refs[i - 1].finish >= refs[i].start) return false;
    return true;
  }

  // master of the collaboration at index i: the |offset|-th ENTITY reference to the right (offset > 0) / left (offset < 0)
  const RefRec* master(size_t i, int offset) const {
    if (offset == 0) return nullptr;
    int need = offset > 0 ? offset : -offset;
    if (offset > 0) { for (size_t k = i + 1; k < refs.size(); ++k) if (refs[k].ref.kind == Kind::entity && --need == 0) return &refs[k]; }
    else { for (size_t k = i; k-- > 0;) if (refs[k].ref.kind == Kind::entity && --need == 0) return &refs[k]; }
    return nullptr;
  }
  std::string resolve_one(const ContextModel& c, size_t i) const {
    const auto& r = refs[i].ref;
    if (r.kind == Kind::entity) return resolve_entity(c, r);
    if (r.nominal.empty()) return "!Empty reference!";
    const RefRec* m = master(i, r.offset);
    if (m == nullptr) return "!Invalid offset for " + r.nominal + ": '" + std::to_string(r.offset) + "'!";
    return or_empty_marker(inflect_dependant(c, r.nominal, m->resolved));
  }

  // Resolve: every reference of the scan is replaced by its resolution, everything else is copied byte for byte.
  static Doc resolve(const std::string& raw, const std::vector<Group>& references, const ContextModel& c) {
    Doc d;
    for (auto& g : references) { RefRec r; r.ref = g.ref; r.spelling = g.text; d.refs.push_back(r); }
    for (size_t i = 0; i < d.refs.size(); ++i) if (d.refs[i].ref.kind == Kind::entity) d.refs[i].resolved = resolve_entity(c, d.refs[i].ref);
    for (size_t i = 0; i < d.refs.size(); ++i) if (d.refs[i].ref.kind == Kind::collab) d.refs[i].resolved = d.resolve_one(c, i);
    size_t cur = 0;
    d.cps.reserve(raw.size() + 64);
    for (size_t i = 0; i < references.size(); ++i) {
      for (auto& cp : cp_split(raw.substr(cur, references[i].b0 - cur))) d.cps.push_back(cp);
      d.refs[i].start = d.length();
      for (auto& cp : cp_split(d.refs[i].resolved)) d.cps.push_back(cp);
      d.refs[i].finish = d.length();
      cur = references[i].b1;
    }
    for (auto& cp : cp_split(raw.substr(cur))) d.cps.push_back(cp);
    return d;
  }

  // ---- Insert(ref, pos): refused iff pos lies inside or on the border of a reference (upstream tests: Insert at 3,4,6,7
  // refused for a reference at [3,7); 2 and 8 accepted). Accepted: the new reference is resolved in place (only the new
  // one), its resolution is inserted into the text at pos, every later range moves right by its length.
  bool can_insert(int pos) const {
    if (pos < 0 || pos > length()) return false;
    for (auto& r : refs) if (r.start <= pos && pos <= r.finish) return false;
    return true;
  }
  const RefRec& insert(const Ref& ref, int pos, const ContextModel& c) {
    size_t k = 0; while (k < refs.size() && refs[k].start < pos) ++k;
    RefRec nr; nr.ref = ref; nr.spelling = ref.canonical();
    refs.insert(refs.begin() + static_cast<long>(k), nr);
    refs[k].resolved = resolve_one(c, k);
    const auto piece = cp_split(refs[k].resolved); const int len = static_cast<int>(piece.size());
    cps.insert(cps.begin() + pos, piece.begin(), piece.end());
    refs[k].start = pos; refs[k].finish = pos + len;
    for (size_t i = k + 1; i < refs.size(); ++i) { refs[i].start += len; refs[i].finish += len; }
    return refs[k];
  }

  // ---- EraseIn(range, expand)
  struct ErasePlan {
    int a{ 0 }, b{ 0 };        // final range (expanded to the containing reference when asked to)
    bool expanded{ false };
    bool partial{ false };     // the final range cuts a reference without covering it -> must be refused
    bool squeezed{ false };    // a reference ends exactly at a and another starts exactly at b (upstream: EraseIn{7,11} refused)
    bool accept() const { return !partial && !squeezed; }
  };
  ErasePlan plan_erase(int a, int b, bool expand) const {
    ErasePlan p; p.a = a; p.b = b;
    auto inside = [&](const RefRec& r) { return a == b ? (r.start < a && a < r.finish) : (r.start <= a && b <= r.finish); };
    if (expand) for (auto& r : refs) if (inside(r)) { p.a = r.start; p.b = r.finish; p.expanded = !(r.start == a && r.finish == b); break; }
    bool left = false, right = false;
    for (auto& r : refs) {
      const bool covered = p.a <= r.start && r.finish <= p.b;
      const bool overlap = p.a == p.b ? (r.start < p.a && p.a < r.finish) : (std::max(r.start, p.a) < std::min(r.finish, p.b));
      if (overlap && !covered) p.partial = true;
      if (r.finish == p.a && !covered) left = true;
      if (r.start == p.b && !covered) right = true;
    }
    p.squeezed = left && right;
    return p;
  }
  // erase [a,b) from the text; references inside disappear, later ones move left. Pre: no reference is cut by [a,b).
  void erase(int a, int b) {
    const int len = b - a;
    std::vector<RefRec> keep;
    for (auto& r : refs) {
      if (len > 0 && a <= r.start && r.finish <= b) continue;
      RefRec x = r; if (x.start >= b && len > 0) { x.start -= len; x.finish -= len; }
      keep.push_back(x);
    }
    refs = keep;
    cps.erase(cps.begin() + a, cps.begin() + b);
  }
  bool cuts(int a, int b) const {  // [a,b) covers part of a reference but not all of it
    for (auto& r : refs) {
      const bool covered = a <= r.start && r.finish <= b;
      const bool overlap = a == b ? false : (std::max(r.start, a) < std::min(r.finish, b));
      if (overlap && !covered) return true;
    }
    return false;
  }
};

// raw text with every entity reference renamed through `map` (absent or identical name: reference left exactly as
// written; renamed: canonical spelling with the new name); everything else byte for byte
inline std::string translate_raw(const std::string& raw, const std::vector<Group>& references, const std::map<std::string, std::string>& map) {
  std::string out; size_t cur = 0;
  for (auto& g : references) {
    out += raw.substr(cur, g.b0 - cur);
    auto it = g.ref.kind == Kind::entity ? map.find(g.ref.entity) : map.end();
    if (it != map.end() && it->second != g.ref.entity) { Ref r = g.ref; r.entity = it->second; out += r.canonical(); }
    else out += g.text;
    cur = g.b1;
  }
  out += raw.substr(cur);
  return out;
}
inline std::set<std::string> referals(const std::vector<Group>& references) {
  std::set<std::string> s; for (auto& g : references) if (g.ref.kind == Kind::entity) s.insert(g.ref.entity); return s;
}

}  // namespace refrefs
