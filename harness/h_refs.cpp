// C17 — text references: extract, resolve, write back (cclLang: Reference, RefsManager, ManagedText, LexicalTerm).
// modes: scan     E1: every token sequence / raw string -> Reference::ExtractAll / Parse / ToString vs the grammar model
//        resolve  E1: every token sequence x 3 term contexts -> RefsManager::Resolve / get() / OutputRefs,
//                     ManagedText Str / Raw / Referals / TranslateRaw / UpdateFrom vs the segment model
//        edit     E2: BFS over Insert / EraseIn histories after a Resolve, lock-step with the text-with-ranges model
// All under the san build: "never faults" is decided by the engine's crash attribution (E3).
#include "engine/mc.hpp"
#include "model/refrefs.hpp"

#include "ccl/lang/EntityTermContext.hpp"
#include "ccl/lang/LexicalTerm.h"
#include "ccl/lang/ManagedText.h"
#include "ccl/lang/Reference.h"
#include "ccl/lang/RefsManager.h"
#include "ccl/lang/TextEnvironment.h"

#include <cxxabi.h>
#include <exception>
#include <typeinfo>

using namespace mc;
using ccl::StrRange;
using ccl::lang::Reference;
using ccl::lang::RefsManager;
namespace rr = refrefs;

namespace {

// ------------------------------------------------------------------------------------------------------------------
// An uncaught exception / noexcept violation ends in std::terminate. The handler only makes the engine's crash
// signature say WHICH exception it was (type + first word of what()), then aborts as the default handler would.
void on_terminate() {
  std::string type = "no-active-exception", what;
  if (auto e = std::current_exception()) {
    try { std::rethrow_exception(e); }
    catch (const std::exception& ex) {
      int st = 0; char* d = abi::__cxa_demangle(typeid(ex).name(), nullptr, nullptr, &st);
      type = (st == 0 && d != nullptr) ? d : typeid(ex).name(); free(d); what = ex.what();
    } catch (...) { type = "non-std-exception"; }
  }
  std::string w; for (char ch : what) { if (ch == ' ' || ch == '\n') break; w += ch; }
  while (!w.empty() && w.back() == ':') w.pop_back();
  std::string t; for (char ch : type) if (ch != ' ') t += ch;
  fprintf(stderr, "SUMMARY: uncaught: %s(%s)\nterminate called after throwing an instance of '%s'\n  what():  %s\n", t.c_str(), w.c_str(), type.c_str(), what.c_str());
  fflush(stderr);
  abort();
}

// ------------------------------------------------------------------------------------------------------------------
// Fault probe. A group that makes Reference::Parse die when parsed ALONE makes every text containing it die too; running
// each of those through the engine's crash attribution would cost one worker restart per text. So: the text that consists
// of exactly the group is run normally (the engine attributes the crash to it = minimal witness), every longer text that
// contains such a group is counted as `skipped_contains_faulting_group` and not evaluated. Which groups fault is MEASURED
// on the current tree (a long-lived child process parses the group; if it dies, the group faults), never predicted.
class FaultProbe {
  std::map<std::string, bool> memo;
  pid_t child{ -1 }; int wr{ -1 }, rd{ -1 };
  void spawn() {
    int a[2], b[2]; if (pipe(a) != 0 || pipe(b) != 0) { perror("pipe"); _exit(3); }
    fflush(nullptr);
    child = fork(); if (child < 0) { perror("fork"); _exit(3); }
    if (child == 0) {
      close(a[1]); close(b[0]);
      int dn = open("/dev/null", O_WRONLY); if (dn >= 0) { dup2(dn, 2); close(dn); }
      for (;;) {
        uint32_t n = 0; if (read(a[0], &n, sizeof n) != static_cast<ssize_t>(sizeof n)) _exit(0);
        std::string s(n, 0); size_t got = 0; while (got < n) { ssize_t r = read(a[0], s.data() + got, n - got); if (r <= 0) _exit(0); got += static_cast<size_t>(r); }
        alarm(10);
        volatile bool v = Reference::Parse(s).IsValid(); (void)v;
        alarm(0);
        char ok = 'k'; if (write(b[1], &ok, 1) != 1) _exit(0);
      }
    }
    close(a[0]); close(b[1]); wr = a[1]; rd = b[0];
  }
  void reap() { if (wr >= 0) close(wr); if (rd >= 0) close(rd); wr = rd = -1; if (child > 0) { int st = 0; waitpid(child, &st, 0); } child = -1; }
public:
  uint64_t probes{ 0 };
  ~FaultProbe() { reap(); }
  bool faults(const std::string& group) {
    auto it = memo.find(group); if (it != memo.end()) return it->second;
    ++probes;
    for (int attempt = 0; attempt < 2; ++attempt) {
      if (child < 0) spawn();
      const uint32_t n = static_cast<uint32_t>(group.size());
      if (write(wr, &n, sizeof n) != static_cast<ssize_t>(sizeof n) || (n != 0 && write(wr, group.data(), n) != static_cast<ssize_t>(n))) { reap(); continue; }
      char ok = 0; const ssize_t r = read(rd, &ok, 1);
      if (r == 1) return memo[group] = false;
      reap(); return memo[group] = true;   // the child died while parsing this group
    }
    fprintf(stderr, "HARNESS-ASSERT fault probe cannot talk to its child\n"); abort();
  }
};

// ------------------------------------------------------------------------------------------------------------------
// Term contexts: one description table drives both the library-side context (own EntityTermContext) and the model.
ccl::lang::Morphology to_morph(const rr::Tags& t) { ccl::lang::Morphology m; for (int k : t) m.tags.insert(static_cast<ccl::lang::Grammem>(k)); return m; }
rr::Tags to_tags(const ccl::lang::Morphology& m) { rr::Tags t; for (auto g : m.tags) t.push_back(static_cast<int>(g)); return t; }

struct HCtx : ccl::lang::EntityTermContext {
  std::unordered_map<std::string, ccl::lang::LexicalTerm> terms;
  explicit HCtx(const rr::ContextModel& m) {
    for (auto& [name, t] : m.terms) {
      ccl::lang::LexicalTerm lt{ t.nominal };
      for (auto& [tags, txt] : t.manual) lt.SetForm(to_morph(tags), txt);
      terms.emplace(name, std::move(lt));
    }
  }
  const ccl::lang::LexicalTerm* At(const std::string& e) const override { auto it = terms.find(e); return it == terms.end() ? nullptr : &it->second; }
  bool Contains(const std::string& e) const override { return terms.count(e) != 0; }
};
struct MarkProcessor : ccl::lang::TextProcessor {   // makes the requested form and the collaboration master observable
  std::string Inflect(const std::string& target, const ccl::lang::Morphology& form) const override { return target.empty() ? std::string{} : target + "^" + rr::tags_text(to_tags(form)); }
  std::string InflectDependant(const std::string& dep, const std::string& main) const override { return dep + "<" + main + ">"; }
};
void install_environment(const rr::ContextModel& cm) {
  using ccl::lang::TextEnvironment;
  TextEnvironment::Instance().skipResolving = false;
  if (cm.processor == 0) TextEnvironment::SetProcessor(std::make_unique<ccl::lang::TextProcessor>());
  else TextEnvironment::SetProcessor(std::make_unique<MarkProcessor>());
}

const rr::Tags kSingDatv = { rr::tag_index("sing"), rr::tag_index("datv") };
rr::Tags sorted_tags(std::vector<int> t) { std::sort(t.begin(), t.end()); return t; }
// two forms whose tag codes have the same count and the same sum (any additive hash of a form collides on them)
const rr::Tags kPlurNomn = sorted_tags({ rr::tag_index("plur"), rr::tag_index("nomn") });
const rr::Tags kSingGent = sorted_tags({ rr::tag_index("sing"), rr::tag_index("gent") });
const std::string kYa = "\xD1\x8F", kB = "\xE2\x84\xAC", kHan = "\xF0\xA0\x9C\x8E", kZhe = "\xD0\xB6";

std::vector<rr::ContextModel> resolve_contexts() {
  std::vector<rr::ContextModel> v(3);
  v[0].name = "ascii"; v[0].processor = 0;            // X3 missing, X4 empty term, X2 has a manual form
  v[0].terms["X1"] = { "Test", {} }; v[0].terms["X2"] = { "cat", { { kSingDatv, "to-cat" }, { kPlurNomn, "cats" }, { kSingGent, "of-cat" } } }; v[0].terms["X4"] = { "", {} };
  v[1].name = "multibyte"; v[1].processor = 1;        // X1 shorter, X2 longer (in code points) than the reference text
  v[1].terms["X1"] = { kYa + kB, {} };
  v[1].terms["X2"] = { "\xD1\x87\xD0\xB5\xD0\xBB\xD0\xBE\xD0\xB2\xD0\xB5\xD0\xBA" + kHan + "\xD1\x80\xD0\xB0\xD0\xB7\xD1\x83\xD0\xBC\xD0\xBD\xD1\x8B\xD0\xB9" + kB, {} };
  v[1].terms["X4"] = { "", {} };
  v[2].name = "empty"; v[2].processor = 0;            // X1, X3 missing; X4 empty; X2 has an empty manual form
  v[2].terms["X2"] = { kHan, { { kSingDatv, "" } } }; v[2].terms["X4"] = { "", {} };
  return v;
}

// ------------------------------------------------------------------------------------------------------------------
// alphabets
const std::vector<std::string> kTokens = {
  "@{X1|nomn}", "@{X2|sing,datv}", "@{X3|nomn}", "@{X4|plur}", "@{-1|" + kZhe + "}", "@{1|abc}", "@{2|q}", "@{0|z}",
  "@{X1|}", "@{|nomn}", "@{X1|nomn|}", "@{X1|nomn|sing|1}", "@{99999999999|a}", "@{40000|a}",
  "@", "{", "}", "@{", "|", "a", kYa, kB, kHan, " ",
  "@{1|}", "@{X2| datv ,UNKN,sing}", "@{-32768|a}",
  "@{X2|plur,nomn}", "@{X2|sing,gent}" };   // the same entity in two more forms with manual word forms of their own (context ascii)
const std::string kRaw = "@{}|X1,";

rr::Ref to_model(const Reference& r) {
  rr::Ref m;
  if (r.IsEntity()) { m.kind = rr::Kind::entity; m.entity = std::string(r.GetEntity()); m.tags = to_tags(r.GetForm()); }
  else if (r.IsCollaboration()) { m.kind = rr::Kind::collab; m.offset = r.GetOffset(); m.nominal = r.GetNominal(); }
  return m;
}
std::string rng(int a, int b) { return "[" + std::to_string(a) + "," + std::to_string(b) + ")"; }
std::string show_impl(const std::vector<Reference>& v) {
  std::string s; for (auto& r : v) s += to_model(r).show() + rng(r.position.start, r.position.finish) + (r.resolvedText.empty() ? "" : "=\"" + r.resolvedText + "\"") + " "; return s;
}
std::string show_model(const std::vector<rr::Group>& v) { std::string s; for (auto& g : v) s += g.ref.show() + rng(g.c0, g.c1) + " "; return s; }

// Layer 1: the references found == the model's reference list. Returns "" iff the lists agree, else the mismatch class.
// assertIt == false (texts with nested groups): only compared, never reported.
std::string compare_extract(Ctx& c, const std::string& text, const rr::Scan& sc, const std::vector<Reference>& got, bool assertIt) {
  const auto exp = sc.refs();
  std::string sig;
  size_t i = 0, j = 0;
  while (sig.empty() && (i < got.size() || j < exp.size())) {
    if (j == exp.size() || (i < got.size() && got[i].position.finish <= exp[j].c0)) {
      // the implementation reports a reference where the model has none: look at the model's group there
      std::string why = "other";
      for (auto& g : sc.groups) if (g.c0 == got[i].position.start && g.c1 == got[i].position.finish) why = g.ref.why.empty() ? "other" : g.ref.why;
      sig = "C17:extract-extra-ref:" + why;
    } else if (i == got.size() || exp[j].c1 <= got[i].position.start) {
      const bool afterAt = exp[j].b0 > 0 && text[exp[j].b0 - 1] == '@';
      sig = std::string("C17:extract-missing-ref:") + (afterAt ? "after-lone-at" : "other");
    } else if (got[i].position.start != exp[j].c0 || got[i].position.finish != exp[j].c1) sig = "C17:extract-range";
    else if (to_model(got[i]) != exp[j].ref) sig = "C17:extract-fields";
    else { ++i; ++j; }
  }
  c.rep.count("checks");
  if (!sig.empty() && assertIt) c.fail(sig, "ExtractAll differs from the reference grammar", show_impl(got), show_model(exp));
  return sig;
}

// Checks that need no reading of the grammar: ordered, disjoint, inside the text, each range spells one @{...} group that
// parses to the very reference reported.
void check_extract_structure(Ctx& c, const std::string& text, const std::vector<Reference>& got) {
  const int n = rr::cp_count(text); int cur = 0;
  for (auto& r : got) {
    c.rep.count("checks");
    if (!(r.position.start >= cur && r.position.start < r.position.finish && r.position.finish <= n)) { c.fail("C17:extract-order", "ranges not ordered / disjoint / inside the text", show_impl(got)); return; }
    cur = r.position.finish;
    const std::string piece = rr::cp_substr(text, r.position.start, r.position.finish);
    rr::Ref dummy;
    if (!rr::parse_group(piece, dummy)) { c.fail("C17:extract-range-not-group", "range does not delimit one @{...} group", piece); continue; }
    if (!r.IsValid()) c.fail("C17:extract-invalid-ref", "ExtractAll returned an invalid reference", piece);
    const auto again = Reference::Parse(piece);
    if (to_model(again) != to_model(r)) c.fail("C17:extract-reparse", "Parse of the delimited text differs from the extracted reference", to_model(again).show(), to_model(r).show());
  }
}

// Parse / ToString of one group spelling against the grammar model
void check_parse(Ctx& c, const rr::Group& g) {
  const auto r = Reference::Parse(g.text);
  const auto m = to_model(r);
  c.rep.count("checks");
  if (g.ref.kind == rr::Kind::none) {
    if (m.kind != rr::Kind::none) c.fail("C17:parse-accepts:" + g.ref.why, "Parse accepts a group the grammar rejects", m.show() + " -> " + r.ToString(), "invalid (" + g.ref.why + ")");
    else if (!r.ToString().empty()) c.fail("C17:tostring", "ToString of an invalid reference is not empty", r.ToString());
    return;
  }
  if (m.kind == rr::Kind::none) { c.fail(std::string("C17:parse-rejects:") + (g.ref.kind == rr::Kind::entity ? "entity" : "collab"), "Parse rejects a well-formed reference", "invalid", g.ref.show()); return; }
  if (m != g.ref) { c.fail("C17:parse-fields", "Parse fields differ", m.show(), g.ref.show()); return; }
  const std::string s = r.ToString();
  c.rep.count("checks", 2);
  if (s != g.ref.canonical()) c.fail("C17:tostring", "ToString is not the canonical spelling", s, g.ref.canonical());
  const auto again = Reference::Parse(s);
  if (to_model(again) != g.ref || again.ToString() != s) c.fail("C17:tostring-reparse", "canonical spelling does not parse back to the same reference", to_model(again).show() + " " + again.ToString(), g.ref.show() + " " + s);
}

// true -> the text must not be evaluated (contains a group that faults when parsed alone, and is not that group itself).
// Every balanced "@{...}" substring is a candidate, whatever the scanner makes of it (inner groups, groups after a lone '@').
bool skip_for_faulting_group(Ctx& c, FaultProbe& probe, const std::string& text) {
  for (size_t i = 0; i + 1 < text.size(); ++i) {
    if (text[i] != '@' || text[i + 1] != '{') continue;
    int depth = 0; size_t j = i + 1; bool closed = false;
    for (; j < text.size(); ++j) { if (text[j] == '{') ++depth; else if (text[j] == '}' && --depth == 0) { closed = true; break; } }
    if (!closed) continue;
    const std::string g = text.substr(i, j + 1 - i);
    if (g != text && probe.faults(g)) { c.rep.count("skipped_contains_faulting_group"); return true; }
  }
  return false;
}

std::string scan_class(const rr::Scan& sc) {
  size_t n = 0; int ent = 0, col = 0;
  for (auto& g : sc.groups) if (g.terminated && g.ref.kind != rr::Kind::none) { ++n; (g.ref.kind == rr::Kind::entity ? ent : col)++; }
  return "refs" + std::to_string(n) + (ent && col ? "+mixed" : "") + (sc.groups.size() > n ? "+malformed" : "") + (sc.nested ? "+nested" : "") + (sc.unterminated ? "+unterminated" : "");
}

void scan_case(Ctx& c, FaultProbe& probe, const std::string& text, const std::string& family) {
  const rr::Scan sc = rr::scan(text);
  if (skip_for_faulting_group(c, probe, text)) return;
  c.begin(text);
  const auto got = Reference::ExtractAll(text);
  check_extract_structure(c, text, got);
  const std::string diff = compare_extract(c, text, sc, got, !sc.nested);
  const bool same = diff.empty();
  if (sc.nested) c.rep.count(same ? "nested_unasserted_agree_with_outer_group_reading" : "nested_unasserted_differ/" + diff.substr(4));
  for (auto& g : sc.groups) if (g.terminated && !g.nested) check_parse(c, g);
  c.rep.count("evaluations"); c.rep.count("evaluations_" + family);
  bool anyRef = false; for (auto& g : sc.groups) anyRef = anyRef || (g.terminated && g.ref.kind != rr::Kind::none);
  if (anyRef) c.rep.count("nontrivial");
  c.rep.outcome(family + ":" + scan_class(sc) + (same ? "" : "+DIFF"));
  if (c.idx % 300007 == 11 || (anyRef && c.idx % 100003 == 5)) c.rep.sample(text);
  c.done();
}

// The only two tokenisations of one text are [@][{] and [@{]: sequences with '@' directly before '{' are left out,
// so every text of the token family is enumerated exactly once.
constexpr int kTokAt = 14, kTokBrace = 15;
bool redundant_tokenisation(const std::vector<int>& idx) { for (size_t i = 0; i + 1 < idx.size(); ++i) if (idx[i] == kTokAt && idx[i + 1] == kTokBrace) return true; return false; }

template <class F> void for_sequences(Ctx& c, size_t alphabet, int maxLen, bool tokens, F&& f) {   // f(indices) is called only when take() said so
  std::vector<int> idx;
  for (int len = 0; len <= maxLen && !c.stop(); ++len) {
    idx.assign(static_cast<size_t>(len), 0);
    while (true) {
      if (!(tokens && redundant_tokenisation(idx)) && c.take()) f(idx);
      int p = len - 1;
      while (p >= 0 && ++idx[static_cast<size_t>(p)] == static_cast<int>(alphabet)) { idx[static_cast<size_t>(p)] = 0; --p; }
      if (p < 0) break;
    }
  }
}
std::string join_tokens(const std::vector<int>& idx) { std::string s; for (int k : idx) s += kTokens[static_cast<size_t>(k)]; return s; }

// ------------------------------------------------------------------------------------------------------------------
// resolve mode
const std::vector<std::map<std::string, std::string>> kTranslators = {
  { { "X1", "X2" }, { "X2", "X1" } },            // simultaneous swap
  { { "X1", "X11" }, { "X4", "Y" } },            // longer / shorter names
  { { "X3", "X3" }, { "X9", "X1" } } };          // identity + absent: nothing may change

void resolve_case(Ctx& c, FaultProbe& probe, const std::string& text, const rr::ContextModel& cm, const HCtx& ctx) {
  const rr::Scan sc = rr::scan(text);
  if (skip_for_faulting_group(c, probe, text)) return;
  c.begin("[" + cm.name + "] " + text);
  install_environment(cm);
  RefsManager mgr{ ctx };
  const std::string out = mgr.Resolve(text);
  const auto& L = mgr.get();
  c.rep.count("evaluations");
  // layer 1
  const auto ext = Reference::ExtractAll(text);
  const std::string diff = compare_extract(c, text, sc, ext, !sc.nested);
  const bool same = diff.empty();
  if (!same) {
    c.rep.count(sc.nested ? "nested_unasserted_differ/" + diff.substr(4) : "downstream_skipped_after_extract_mismatch");
    c.rep.outcome("extract-differs"); c.done(); return;
  }
  if (sc.nested) c.rep.count("nested_unasserted_agree_with_outer_group_reading");
  // layer 2
  const auto refs = sc.refs();
  const rr::Doc d = rr::Doc::resolve(text, refs, cm);
  auto bad = [&](const std::string& sig, const std::string& msg, const std::string& obs = "", const std::string& exp = "") { c.fail("C17:" + sig, msg, obs, exp); };
  c.rep.count("checks", 3);
  if (out != d.text()) bad("resolve-text", "Resolve output differs (plain text must be kept byte for byte, references replaced by their resolution)", out, d.text());
  bool masterFound = false, unresolved = false;
  if (L.size() != refs.size()) bad("resolve-count", "number of references kept by the manager", show_impl(L), show_model(refs));
  else for (size_t i = 0; i < L.size(); ++i) {
    c.rep.count("checks", 4);
    const auto& e = d.refs[i];
    if (to_model(L[i]) != e.ref) bad("resolve-ref-fields", "reference " + std::to_string(i) + " fields", to_model(L[i]).show(), e.ref.show());
    if (L[i].position.start != e.start || L[i].position.finish != e.finish) bad("resolve-range", "reference " + std::to_string(i) + " range in the resolved text", rng(L[i].position.start, L[i].position.finish), rng(e.start, e.finish));
    if (L[i].resolvedText != e.resolved) bad(std::string("resolve-reftext-") + (e.ref.kind == rr::Kind::entity ? "entity" : "collab"), "reference " + std::to_string(i) + " resolution", L[i].resolvedText, e.resolved);
    if (rr::cp_substr(out, L[i].position.start, L[i].position.finish) != L[i].resolvedText) bad("resolve-range-delimits", "range of reference " + std::to_string(i) + " does not delimit its resolution in the output", rr::cp_substr(out, L[i].position.start, L[i].position.finish), L[i].resolvedText);
    if (e.ref.kind == rr::Kind::collab && d.master(i, e.ref.offset) != nullptr) masterFound = true;
    if (e.resolved[0] == '!') unresolved = true;
  }
  { const std::string back = mgr.OutputRefs(out);
    if (back != d.canonical_raw()) bad("outputrefs", "OutputRefs(resolved) is not the input with canonical references", back, d.canonical_raw());
    bool allCanonical = true; for (auto& g : refs) allCanonical = allCanonical && g.text == g.ref.canonical();
    if (allCanonical && back != text) bad("outputrefs-identity", "all references canonical, yet OutputRefs(resolved) differs from the input", back, text); }
  // a manager that already resolved another text (with references) answers for THIS text exactly like a fresh one
  { RefsManager reused{ ctx };
    (void)reused.Resolve("@{X1|nomn} z @{-1|basic} @{X2|sing,datv}");
    const std::string out2 = reused.Resolve(text);
    const auto& L2 = reused.get();
    c.rep.count("checks", 3);
    if (out2 != out) bad("reused-manager-resolve", "Resolve on a manager that resolved another text before differs from a fresh manager", out2, out);
    bool sameRefs = L2.size() == L.size();
    for (size_t i = 0; sameRefs && i < L.size(); ++i) sameRefs = to_model(L2[i]) == to_model(L[i]) && L2[i].position.start == L[i].position.start && L2[i].position.finish == L[i].position.finish && L2[i].resolvedText == L[i].resolvedText;
    if (!sameRefs) bad("reused-manager-refs", "references held after Resolve on a reused manager differ from a fresh manager", show_impl(L2), show_impl(L));
    else if (reused.OutputRefs(out2) != mgr.OutputRefs(out)) bad("reused-manager-outputrefs", "OutputRefs on a reused manager differs from a fresh manager", reused.OutputRefs(out2), mgr.OutputRefs(out)); }
  // ManagedText
  { ccl::lang::ManagedText mt; mt.InitFrom(text, ctx);
    c.rep.count("checks", 3);
    if (mt.Raw() != text) bad("managed-raw", "Raw() after InitFrom", mt.Raw(), text);
    if (mt.Str() != d.text()) bad("managed-str", "Str() after InitFrom", mt.Str(), d.text());
    std::set<std::string> got; for (auto& s : mt.Referals()) got.insert(s);
    if (got != rr::referals(refs)) { std::string a, b; for (auto& s : got) a += s + " "; for (auto& s : rr::referals(refs)) b += s + " "; bad("referals", "Referals()", a, b); }
    for (size_t t = 0; t < kTranslators.size(); ++t) {
      const auto& tr = kTranslators[t];
      ccl::lang::ManagedText m2{ text };
      m2.TranslateRaw([&tr](const std::string& s) -> std::optional<std::string> { auto it = tr.find(s); if (it == tr.end()) return std::nullopt; return it->second; });
      const std::string exp = rr::translate_raw(text, refs, tr);
      c.rep.count("checks", 2);
      if (m2.Raw() != exp) { bad("translate-raw", "TranslateRaw with translator " + std::to_string(t), m2.Raw(), exp); continue; }
      if (exp == text) continue;   // nothing renamed: resolution of this very text is checked above
      m2.UpdateFrom(ctx);
      const rr::Scan s2 = rr::scan(exp);
      const rr::Doc d2 = rr::Doc::resolve(exp, s2.refs(), cm);
      if (m2.Str() != (d2.text().empty() ? exp : d2.text())) bad("translate-refs-str", "Str() after TranslateRaw + UpdateFrom, translator " + std::to_string(t), m2.Str(), d2.text());
    } }
  if (!refs.empty()) c.rep.count("nontrivial");
  c.rep.outcome(scan_class(sc) + (masterFound ? "+master" : "") + (unresolved ? "+unresolved" : ""));
  if (c.idx % 200003 == 7 || (refs.size() >= 2 && c.idx % 70001 == 3)) c.rep.sample("[" + cm.name + "] " + text + "  =>  " + out);
  c.done();
}

// ------------------------------------------------------------------------------------------------------------------
// edit mode (E2)
struct EditSeed { std::string text; rr::ContextModel cm; };
std::vector<EditSeed> edit_seeds() {
  rr::ContextModel a; a.name = "edit-ascii"; a.processor = 0; a.terms["X1"] = { "ab", {} }; a.terms["X2"] = { "c", {} };
  rr::ContextModel b; b.name = "edit-multibyte"; b.processor = 0; b.terms["X1"] = { kYa + kB, {} }; b.terms["X2"] = { kHan, {} };
  return {
    { "", a },                                                               // empty manager
    { "a @{X1|nomn} b", a },                                                 // typical, ASCII
    { "a@{X1|nomn} " + kYa + "@{-1|" + kZhe + "}b", b },                     // entity + collaboration, multi-byte text and terms
    { "@{X1|nomn}@{X2|plur}" + kHan + "@{-1|q}", b },                        // awkward: adjacent references at position 0
    { "ab  cd", a },                                                         // plain text only: every position accepts a reference
    { kYa + " @{X2|plur} " + kB + kHan + " @{1|q} @{X1|nomn}.", b } };       // three references, forward collaboration, room between them
}
const std::vector<std::string> kInsertMenu = { "@{X1|nomn}", "@{X2|plur}", "@{-1|" + kZhe + "}" };

std::string dump(const RefsManager& m) {
  std::string s;
  for (auto& r : m.get()) s += to_model(r).show() + "@" + rng(r.position.start, r.position.finish) + "=" + r.resolvedText + "|" + r.ToString() + ";";
  return s;
}

struct EditSys {
  struct Obj { rr::ContextModel cm; std::unique_ptr<HCtx> ctx; RefsManager mgr; rr::Doc doc; int seed{ 0 }; };
  using Op = mc::OpRec;
  std::vector<EditSeed> seedSpecs = edit_seeds();
  std::vector<rr::Ref> menuModel;
  EditSys() { for (auto& s : kInsertMenu) { rr::Ref r; if (!rr::parse_group(s, r) || r.kind == rr::Kind::none) { fprintf(stderr, "HARNESS-ERROR bad insert menu\n"); exit(2); } menuModel.push_back(r); } }

  int seeds() const { return static_cast<int>(seedSpecs.size()); }
  std::unique_ptr<Obj> fresh(int seed) {
    const auto& sp = seedSpecs[static_cast<size_t>(seed)];
    auto o = std::make_unique<Obj>();
    o->seed = seed; o->cm = sp.cm;
    install_environment(o->cm);
    o->ctx = std::make_unique<HCtx>(o->cm);
    o->mgr.SetContext(*o->ctx);
    (void)o->mgr.Resolve(sp.text);
    o->doc = rr::Doc::resolve(sp.text, rr::scan(sp.text).refs(), o->cm);
    return o;
  }
  std::vector<Op> enabled(const Obj& o) {
    std::vector<Op> ops;
    if (o.doc.broken) return ops;
    const int L = o.doc.length();
    for (int m = 0; m < static_cast<int>(kInsertMenu.size()); ++m) for (int p = 0; p <= L; ++p) ops.push_back(Op{ 0, m, p, 0 });
    for (int len = 0; len <= L; ++len) for (int a = 0; a + len <= L; ++a) for (int ex = 0; ex <= 1; ++ex) ops.push_back(Op{ 1, a, a + len, ex });
    return ops;
  }
  std::string describe(const Op& op) {
    if (op.k == 0) return "Insert(" + kInsertMenu[static_cast<size_t>(op.a)] + "," + std::to_string(op.b) + ")";
    return "EraseIn(" + rng(op.a, op.b) + (op.c ? ",expand" : "") + ")";
  }
  void apply(Obj& o, const Op& op, Ctx* c, const std::string&) {
    install_environment(o.cm);
    const std::string before = dump(o.mgr);
    auto fail = [&](const std::string& sig, const std::string& msg, const std::string& obs = "", const std::string& exp = "") { if (c) c->fail("C17:" + sig, msg + "  | state: " + before + " text: " + o.doc.text(), obs, exp); };
    if (op.k == 0) {
      const bool predict = o.doc.can_insert(op.b);
      const Reference nr = Reference::Parse(kInsertMenu[static_cast<size_t>(op.a)]);
      const Reference* got = o.mgr.Insert(nr, op.b);
      if (c) { c->rep.count("checks"); c->rep.outcome(got ? "insert-accepted" : "insert-refused"); }
      if ((got != nullptr) != predict) fail("insert-policy", "Insert must be refused exactly when the position lies inside or on the border of a reference", got ? "accepted" : "refused", predict ? "accepted" : "refused");
      if (got == nullptr) { if (dump(o.mgr) != before) fail("insert-refused-changed", "refused Insert changed the manager", dump(o.mgr), before); return; }
      if (!predict) { o.doc.broken = true; return; }
      const auto& mr = o.doc.insert(menuModel[static_cast<size_t>(op.a)], op.b, o.cm);
      if (c) c->rep.count("checks", 2);
      if (got->resolvedText != mr.resolved) fail("insert-reftext", "resolution of the inserted reference", got->resolvedText, mr.resolved);
      if (got->position.start != mr.start || got->position.finish != mr.finish) fail("insert-range", "range of the inserted reference", rng(got->position.start, got->position.finish), rng(mr.start, mr.finish));
      return;
    }
    const auto plan = o.doc.plan_erase(op.a, op.b, op.c != 0);
    const bool separated = o.doc.separated();
    const auto got = o.mgr.EraseIn(StrRange{ op.a, op.b }, op.c != 0);
    if (c) c->rep.count("checks");
    if (!got.has_value()) {
      if (c) c->rep.outcome("erase-refused");
      if (dump(o.mgr) != before) fail("erase-refused-changed", "refused EraseIn changed the manager", dump(o.mgr), before);
      // acceptance policy is asserted only where upstream pins it: states whose references do not touch each other
      if (separated && plan.accept()) fail("erase-policy", "EraseIn refused a range that cuts no reference and is not squeezed between two references", "refused", "accepted " + rng(plan.a, plan.b));
      return;
    }
    const int a2 = got->start, b2 = got->finish;
    if (c) c->rep.outcome(a2 != op.a || b2 != op.b ? "erase-accepted-expanded" : (o.doc.cuts(a2, b2) ? "erase-accepted-cut" : "erase-accepted"));
    if (separated && !plan.accept()) fail("erase-policy", "EraseIn accepted a range that must be refused", "accepted " + rng(a2, b2), plan.partial ? "refused (cuts a reference)" : "refused (squeezed between two references)");
    if (a2 != op.a || b2 != op.b) {
      bool isRef = false; for (auto& r : o.doc.refs) if (r.start == a2 && r.finish == b2 && r.start <= op.a && op.b <= r.finish) isRef = true;
      if (op.c == 0) fail("erase-range-changed", "EraseIn without expand returned a different range", rng(a2, b2), rng(op.a, op.b));
      else if (!isRef) fail("erase-expand-range", "expanded range is not the range of a reference containing the request", rng(a2, b2), rng(plan.a, plan.b));
    } else if (op.c != 0 && plan.expanded && separated) fail("erase-expand-range", "request lies inside a reference but was not expanded", rng(a2, b2), rng(plan.a, plan.b));
    if (a2 < 0 || b2 > o.doc.length() || a2 > b2 || o.doc.cuts(a2, b2)) {
      fail("erase-accepted-cut", "EraseIn accepted a range that cuts a reference: the remaining ranges cannot stay aligned", rng(a2, b2));
      o.doc.broken = true; return;
    }
    o.doc.erase(a2, b2);
  }
  void check_state(Obj& o, Ctx& c, const std::string&) {
    if (o.doc.broken) { c.rep.count("states_after_unfollowable_transition"); return; }
    install_environment(o.cm);
    const auto& L = o.mgr.get();
    const std::string text = o.doc.text();
    auto bad = [&](const std::string& sig, const std::string& msg, const std::string& obs = "", const std::string& exp = "") { c.fail("C17:" + sig, msg + "  | text: " + text, obs, exp); };
    if (!o.doc.aligned()) bad("MODEL-INTERNAL", "the model's own ranges are not aligned (harness defect)");
    c.rep.count("checks", 2 + L.size());
    int cur = 0;
    for (auto& r : L) {
      if (!(r.position.start >= cur && r.position.start < r.position.finish && r.position.finish <= o.doc.length())) { bad("edit-ranges-order", "ranges not ordered / disjoint / inside the text", show_impl(L)); break; }
      cur = r.position.finish;
      if (o.doc.slice(r.position.start, r.position.finish) != r.resolvedText) bad("edit-range-misaligned", "range does not delimit the reference's resolution in the edited text", o.doc.slice(r.position.start, r.position.finish), r.resolvedText);
    }
    std::string exp; for (auto& r : o.doc.refs) exp += r.ref.show() + rng(r.start, r.finish) + "=\"" + r.resolved + "\" ";
    bool same = L.size() == o.doc.refs.size();
    for (size_t i = 0; same && i < L.size(); ++i) same = to_model(L[i]) == o.doc.refs[i].ref && L[i].position.start == o.doc.refs[i].start && L[i].position.finish == o.doc.refs[i].finish && L[i].resolvedText == o.doc.refs[i].resolved;
    if (!same) bad("edit-refs", "references after the edit history differ from the segment model", show_impl(L), exp);
    else {
      const std::string back = o.mgr.OutputRefs(text);
      if (back != o.doc.canonical_raw()) bad("edit-outputrefs", "OutputRefs over the edited text", back, o.doc.canonical_raw());
    }
    c.rep.outcome("state-refs" + std::to_string(std::min<size_t>(L.size(), 6)) + (o.doc.separated() ? "" : "+touching"));
  }
  std::string key(const Obj& o) {
    std::string k = o.cm.name + "\n" + dump(o.mgr) + "\n" + o.doc.text() + "\n" + (o.doc.broken ? "B" : "");
    for (auto& r : o.doc.refs) k += r.ref.show() + rng(r.start, r.finish) + r.resolved + ";";
    return k;
  }
};

// ------------------------------------------------------------------------------------------------------------------
// Anchors: the model must agree with the behaviour documented by the upstream tests (exit 2 otherwise).
void anchors() {
  int failed = 0;
  auto need = [&](bool ok, const char* what) { if (!ok) { fprintf(stderr, "HARNESS-ERROR: model contradicts upstream anchor: %s\n", what); ++failed; } };
  rr::Ref r;
  for (const char* s : { "@{}", "@{ }", "@{|}", "@{ | }", "@{ || }", "@{-1a|text}", "@{X1}" }) need(rr::parse_group(s, r) && r.kind == rr::Kind::none, s);
  need(!rr::parse_group("invalid", r) && !rr::parse_group("", r) && !rr::parse_group("@{X1|nomn,sing} @{X2|nomn,sing}", r), "not one group");
  for (const char* s : { "@{X1|nomn,sing}", "@{X1|nomn|sing|0}", "@{X1|nomn|sing}", "@{X1|sing,nomn}" }) need(rr::parse_group(s, r) && r.kind == rr::Kind::entity && r.canonical() == "@{X1|sing,nomn}", s);
  need(rr::parse_group("@{X1|nomn,plur}", r) && r.canonical() == "@{X1|plur,nomn}", "literal");
  need(rr::parse_group("@{-1|\xD1\x82\xD0\xB5\xD1\x81\xD1\x82}", r) && r.kind == rr::Kind::collab && r.offset == -1 && r.canonical() == "@{-1|\xD1\x82\xD0\xB5\xD1\x81\xD1\x82}", "collaboration");
  { const auto g = rr::scan("42 @{X1|nomn,sing} 43 @{-1|basic} 44 @{X1|nomn,sing} 45").refs();
    need(g.size() == 3 && g[0].c0 == 3 && g[0].c1 == 18 && g[1].c0 == 22 && g[1].c1 == 33 && g[2].c0 == 37 && g[2].c1 == 52 && g[1].ref.nominal == "basic", "ParseReferences"); }
  { const auto g = rr::scan("@{X2|nomn,sing} text @{abc|nomn,sing} X4 @{-1|testing} @{X1|nomn,sing} @{X2,datv,sing}").refs();
    need(rr::referals(g) == std::set<std::string>({ "X2", "abc", "X1" }), "ReferalsMultiple"); }
  rr::ContextModel cm; cm.terms["X1"] = { "Test", {} }; cm.terms["X2"] = { "Test2", {} };
  auto res = [&](const std::string& t) { return rr::Doc::resolve(t, rr::scan(t).refs(), cm); };
  const std::string complex = "42 @{X1|sing,nomn} 43 @{-1|basic} 44 @{X1|sing,nomn} 45";
  auto ranges = [](const rr::Doc& d) { std::string s; for (auto& x : d.refs) s += rng(x.start, x.finish); return s; };
  { auto d = res(complex); need(d.text() == "42 Test 43 basic 44 Test 45" && ranges(d) == "[3,7)[11,16)[20,24)" && d.canonical_raw() == complex, "ResolveValid/OutputRefs"); }
  need(res("@{-1|basic}").text() == "!Invalid offset for basic: '-1'!", "offset -1 alone");
  need(res("@{-1|basic} @{X1|sing,nomn}").text() == "!Invalid offset for basic: '-1'! Test", "offset -1 first");
  need(res("@{X1|sing,nomn} @{-1|basic}").text() == "Test basic" && res("@{1|basic} @{X1|sing,nomn}").text() == "basic Test", "offset +-1");
  need(res("@{2|basic1} @{1|basic1} @{X1|sing,nomn}").text() == "!Invalid offset for basic1: '2'! basic1 Test", "offset 2");
  need(res("@{X3|nomn}").text() == "!Cannot find entity: 'X3'!", "missing entity");
  { auto d = res(complex); for (int p : { 3, 4, 6, 7, 20, 21, 23, 24 }) need(!d.can_insert(p), "Insert refused"); for (int p : { 2, 19, 8 }) need(d.can_insert(p), "Insert accepted");
    rr::Ref x2; rr::parse_group("@{X2|sing,nomn}", x2); const auto& nr = d.insert(x2, 8, cm); need(nr.resolved == "Test2" && ranges(d) == "[3,7)[8,13)[16,21)[25,29)" && d.aligned(), "Insert ranges"); }
  { auto d = res(complex);
    const int no[][2] = { { 0, 4 }, { 0, 5 }, { 0, 6 }, { 3, 6 }, { 6, 7 }, { 4, 5 }, { 5, 5 }, { 7, 11 } };
    for (auto& q : no) need(!d.plan_erase(q[0], q[1], false).accept(), "EraseIn refused");
    auto er = [&](int a, int b, bool ex) { auto x = res(complex); auto p = x.plan_erase(a, b, ex); if (!p.accept()) return std::string("refused"); x.erase(p.a, p.b); return rng(p.a, p.b) + ":" + ranges(x) + (x.aligned() ? "" : "MISALIGNED"); };
    need(er(0, 27, false) == "[0,27):", "erase all"); need(er(0, 3, false) == "[0,3):[0,4)[8,13)[17,21)", "erase 0-3"); need(er(0, 7, false) == "[0,7):[4,9)[13,17)", "erase 0-7");
    need(er(20, 24, false) == "[20,24):[3,7)[11,16)", "erase 20-24"); need(er(2, 3, true) == "[2,3):[2,6)[10,15)[19,23)", "expand 2-3");
    need(er(3, 4, true) == "[3,7):[7,12)[16,20)", "expand 3-4"); need(er(6, 7, true) == "[3,7):[7,12)[16,20)", "expand 6-7");
    auto x = res(complex); x.erase(7, 10); need(!x.plan_erase(7, 8, true).accept(), "squeezed after erase"); }
  if (failed) exit(2);
}

}  // namespace

int main(int argc, char** argv) {
  std::set_terminate(on_terminate);
  signal(SIGPIPE, SIG_IGN);
  Options opt = parse_args(argc, argv);
  opt.max_crashes_per_shard = static_cast<int>(opt.num("max-crashes", 200));
  if (kTokens[kTokAt] != "@" || kTokens[kTokBrace] != "{") { fprintf(stderr, "HARNESS-ERROR token indices\n"); return 2; }
  anchors();
  const double t0 = now_s();
  Result res; res.property = "C17"; res.harness = "h_refs"; res.mode = opt.mode; res.tier = opt.tier;
  RunInfo ri;
  std::string tokenAlphabet; for (auto& t : kTokens) tokenAlphabet += (tokenAlphabet.empty() ? "" : "  ") + (t == " " ? std::string("<space>") : t);
  const auto contexts = resolve_contexts();
  if (opt.mode == "scan") {
    const int T = static_cast<int>(opt.num("tokens", opt.thorough() ? 5 : 4));
    const int R = static_cast<int>(opt.num("rawlen", opt.thorough() ? 8 : 7));
    res.rep = run_sharded(opt, "scan", [&](Ctx& c) {
      FaultProbe probe;
      // raw family first: it is the cheap one, and a worker restart after a crash re-runs everything before the crash
      for_sequences(c, kRaw.size(), R, false, [&](const std::vector<int>& idx) { std::string s; for (int k : idx) s += kRaw[static_cast<size_t>(k)]; scan_case(c, probe, s, "raw"); });
      for_sequences(c, kTokens.size(), T, true, [&](const std::vector<int>& idx) { scan_case(c, probe, join_tokens(idx), "tok"); });
      c.rep.count("fault_probes", probe.probes);
    }, &ri);
    res.completed_bound = "all sequences of <= " + std::to_string(T) + " tokens over a " + std::to_string(kTokens.size()) + "-token alphabet + all raw strings of <= " + std::to_string(R) + " characters over {@ { } | X 1 ,}";
    res.alphabet = tokenAlphabet;
    res.rule = "case = one text (each text once per family: token sequences with the redundant tokenisation [@][{] of [@{] are left out; the two families share only reference-free texts over {@ { } |}); non-trivial = the grammar finds >= 1 reference; per case: ExtractAll list (kinds, fields, code-point ranges) vs the independent scanner, "
               "order / disjointness / each range spells one group that re-parses to the same reference, Parse + ToString + re-Parse of every group; texts with a '{' inside a group are run but the list equality is not asserted";
  } else if (opt.mode == "resolve") {
    const int T = static_cast<int>(opt.num("tokens", opt.thorough() ? 5 : 4));
    // sequences longer than `fullctx` tokens are resolved under the first `topctx` contexts of (multibyte, ascii, empty) only (cost)
    const int F = static_cast<int>(opt.num("fullctx", T));
    const size_t topCtx = static_cast<size_t>(std::max(1L, std::min(3L, opt.num("topctx", 2))));   // contexts used above `fullctx`
    const std::vector<size_t> ctxOrder = { 1, 0, 2 };   // multibyte, ascii, empty
    res.rep = run_sharded(opt, "resolve", [&](Ctx& c) {
      FaultProbe probe;
      // the library-side contexts live as long as the worker (their terms cache inflected forms, as in real use)
      std::vector<std::unique_ptr<HCtx>> hctx; for (auto& cm : contexts) { install_environment(cm); hctx.push_back(std::make_unique<HCtx>(cm)); }
      std::vector<int> idx;
      for (int len = 0; len <= T && !c.stop(); ++len) {
        idx.assign(static_cast<size_t>(len), 0);
        while (true) {
          if (!redundant_tokenisation(idx)) for (size_t k = 0; k < (len <= F ? contexts.size() : topCtx); ++k) { const size_t ci = ctxOrder[k]; if (c.take()) resolve_case(c, probe, join_tokens(idx), contexts[ci], *hctx[ci]); }
          int p = len - 1;
          while (p >= 0 && ++idx[static_cast<size_t>(p)] == static_cast<int>(kTokens.size())) { idx[static_cast<size_t>(p)] = 0; --p; }
          if (p < 0) break;
        }
      }
      c.rep.count("fault_probes", probe.probes);
    }, &ri);
    res.completed_bound = "all sequences of <= " + std::to_string(std::min(T, F)) + " tokens over a " + std::to_string(kTokens.size()) + "-token alphabet x 3 term contexts" +
                          (T > F ? " + all sequences of " + std::to_string(F + 1) + ".." + std::to_string(T) + " tokens x " + (topCtx == 1 ? "the multibyte term context" : topCtx == 2 ? "2 term contexts (multibyte, ascii)" : "3 term contexts") : "");
    res.alphabet = tokenAlphabet + "   contexts: ascii (X1=Test, X2=cat with manual sing,datv form, X4 empty, X3 missing; default processor) | multibyte (X1 2 code points, X2 17 code points, marking processor) | empty (X1,X3 missing, X2 with empty manual form, X4 empty)";
    res.rule = "case = (text, context), each text once (redundant tokenisation [@][{] left out); non-trivial = >= 1 reference; per case: Resolve output byte-for-byte vs segment model, per reference fields / range / resolution / range delimits resolution, OutputRefs(resolved) = canonical input, "
               "ManagedText Raw/Str/Referals, TranslateRaw x3 translators + UpdateFrom; cases whose ExtractAll already differs from the grammar are reported once and skipped downstream";
  } else if (opt.mode == "edit") {
    const int D = static_cast<int>(opt.num("depth", opt.thorough() ? 3 : 2));
    EditSys sys;
    if (opt.kv.count("bfs-replay")) { Ctx c; c.label = "edit"; Bfs<EditSys>::replay_history(sys, opt.kv.at("bfs-replay"), c); res.rep = c.rep; }
    else {
      BfsStats st = Bfs<EditSys>::run(sys, opt, D, res.rep, "edit");
      res.states = st.states; res.transitions = st.transitions; res.traces_validated = st.transitions; res.evaluations = st.transitions + res.rep.counters["states_checked"];
      res.distinct_nontrivial = st.states; res.exhaustive = st.exhaustive;
      std::string lv; for (auto n : st.level_sizes) lv += (lv.empty() ? "" : ",") + std::to_string(n);
      res.extra["x_level_sizes"] = "[" + lv + "]"; res.extra["x_transitions_changing_state"] = std::to_string(st.changed);
      res.completed_bound = "BFS depth " + std::to_string(st.completed_depth) + " of " + std::to_string(D) + " from " + std::to_string(sys.seeds()) + " resolved seed texts";
    }
    res.alphabet = "seeds: \"\" | \"a @{X1|nomn} b\" | multi-byte text with entity + collaboration | adjacent references at position 0 | plain text only | three references with a forward collaboration;  ops: Insert(one of 3 references, every position 0..len), EraseIn(every range 0<=a<=b<=len, expand on/off)";
    res.rule = "state = exact dump of the manager's references (fields, range, resolution) + edited text; distinct_nontrivial = distinct states; every transition: acceptance policy (Insert always; EraseIn where references do not touch), "
               "refused => unchanged, returned range / inserted reference vs model; every state: ranges ordered, disjoint, delimit their resolutions in the edited text, equal to the segment model, OutputRefs over the edited text";
    res.assumptions = { "edits stay inside the text (positions 0..len); the client applies exactly the returned range / resolution to its text" };
  } else { fprintf(stderr, "unknown mode\n"); return 2; }
  if (opt.mode != "edit") {
    res.evaluations = res.rep.counters["evaluations"];
    res.distinct_nontrivial = res.rep.counters["nontrivial"];
    res.states = res.evaluations; res.transitions = res.rep.counters["checks"]; res.traces_validated = res.evaluations;
    const auto skipped = res.rep.counters.count("skipped_contains_faulting_group") ? res.rep.counters["skipped_contains_faulting_group"] : 0;
    res.exhaustive = !ri.deadline_hit && !ri.crash_cap_hit && skipped == 0;
    if (skipped != 0) res.rep.notes.push_back(std::to_string(skipped) + " texts contain a group on which Reference::Parse faults when parsed alone (reported as crash violations on the minimal text); they were not evaluated further");
  }
  res.assumptions.push_back("inputs are well-formed UTF-8 built from the alphabet");
  res.assumptions.push_back("texts with a '{' inside a @{...} group (nested groups): run for faults and structural checks, reference-list equality not asserted");
  res.assumptions.push_back("clang 14 + libstdc++ 12, ASan+UBSan, asserts on");
  res.wall_s = now_s() - t0;
  res.write(opt.out.empty() ? "/dev/stdout" : opt.out);
  return 0;
}
