// Reference model of a finite directed graph: a set of vertices and a set of ordered pairs.
// Deliberately naive (fixpoint closures, quadratic SCC by mutual reachability); shares no code with /repo.
// The mutators state the behaviour CGraph documents through its upstream tests
// (ccl/cclGraph/test/src/testConnectionsGraph.cpp):
//   AddItem            idempotent insertion                                   (AddDuplicateItem)
//   EraseItem          removes the vertex and every incident edge; absent vertex: no-op   (EraseConnectedItem)
//   AddConnection      inserts missing end points, then the edge; duplicates are ignored  (AddConnectionWithItems, AddDoubleConnection)
//   SetItemInputs      inserts the item and every listed source, then REPLACES the in-edges of the item by exactly
//                      { (s,item) | s in sources } - a source equal to the item makes a self-loop   (SetConnections, SetConnectionsReplacing)
//   Clear              empty graph
#pragma once
#include <algorithm>
#include <cstdint>
#include <map>
#include <set>
#include <string>
#include <utility>
#include <vector>

namespace refgraph {

using V = uint32_t;
using VSet = std::set<V>;
using E = std::pair<V, V>;  // (source, destination)

inline std::string show(const VSet& s) {
  std::string o = "{"; bool first = true;
  for (auto v : s) { o += (first ? "" : ",") + std::to_string(v); first = false; }
  return o + "}";
}
inline std::string show(const std::vector<V>& s) {
  std::string o = "["; bool first = true;
  for (auto v : s) { o += (first ? "" : ",") + std::to_string(v); first = false; }
  return o + "]";
}
inline std::string show(const std::set<VSet>& g) {
  std::string o = "{"; bool first = true;
  for (auto& s : g) { o += (first ? "" : " ") + show(s); first = false; }
  return o + "}";
}

struct Digraph {
  VSet vs;
  std::set<E> es;

  // ---- mutation
  void clear() { vs.clear(); es.clear(); }
  void add_item(V v) { vs.insert(v); }
  void erase_item(V v) {
    vs.erase(v);
    std::set<E> keep;
    for (auto& e : es) if (e.first != v && e.second != v) keep.insert(e);
    es = keep;
  }
  void add_edge(V s, V d) { vs.insert(s); vs.insert(d); es.insert({ s, d }); }
  void set_inputs(V item, const VSet& sources) {
    vs.insert(item);
    std::set<E> keep;
    for (auto& e : es) if (e.second != item) keep.insert(e);
    es = keep;
    for (auto s : sources) { vs.insert(s); es.insert({ s, item }); }
  }

  // ---- elementary queries
  bool has(V v) const { return vs.count(v) != 0; }
  bool has_edge(V s, V d) const { return es.count({ s, d }) != 0; }
  size_t item_count() const { return vs.size(); }
  size_t edge_count() const { return es.size(); }
  VSet inputs(V v) const { VSet r; for (auto& e : es) if (e.second == v) r.insert(e.first); return r; }
  VSet outputs(V v) const { VSet r; for (auto& e : es) if (e.first == v) r.insert(e.second); return r; }

  // ---- closures. Both contain the live members of `from` themselves (path of length 0) - this is what
  //      CGraph::ExpandOutputs / ExpandInputs return (upstream tests ExpandIntoReachableReverse, ForeignItem, EmptyGroupInput)
  VSet succ_closure(const VSet& from) const {
    VSet r; for (auto v : from) if (has(v)) r.insert(v);
    for (bool grown = true; grown;) { grown = false; for (auto& e : es) if (r.count(e.first) && !r.count(e.second)) { r.insert(e.second); grown = true; } }
    return r;
  }
  VSet pred_closure(const VSet& from) const {
    VSet r; for (auto v : from) if (has(v)) r.insert(v);
    for (bool grown = true; grown;) { grown = false; for (auto& e : es) if (r.count(e.second) && !r.count(e.first)) { r.insert(e.first); grown = true; } }
    return r;
  }
  // path of length >= 1 from s to d
  bool path(V s, V d) const { return succ_closure(outputs(s)).count(d) != 0; }
  bool on_cycle(V v) const { return path(v, v); }
  bool has_cycle() const { for (auto v : vs) if (on_cycle(v)) return true; return false; }
  // reach[u] = everything reachable from u by a path of length >= 1 (one closure per vertex, for callers that ask many pairs)
  std::map<V, VSet> reach_map() const { std::map<V, VSet> r; for (auto u : vs) r[u] = succ_closure(outputs(u)); return r; }

  // ---- strongly connected components: u ~ v  iff  u == v or (u reaches v and v reaches u)
  std::set<VSet> sccs() const {
    const auto reach = reach_map();
    std::set<VSet> out;
    for (auto u : vs) { VSet c{ u }; for (auto v : vs) if (v != u && reach.at(u).count(v) && reach.at(v).count(u)) c.insert(v); out.insert(c); }
    return out;
  }
  // components that contain a cycle: more than one vertex, or a single vertex with a self-loop
  std::set<VSet> cyclic_sccs() const {
    std::set<VSet> out;
    for (auto& c : sccs()) if (c.size() > 1 || has_edge(*c.begin(), *c.begin())) out.insert(c);
    return out;
  }

  // ---- orders
  bool is_permutation_of_items(const std::vector<V>& order) const {
    return order.size() == vs.size() && VSet(order.begin(), order.end()) == vs;
  }
  // every edge goes from an earlier to a later position (false for a self-loop or a vertex missing from the order)
  bool edges_forward(const std::vector<V>& order) const {
    auto pos = [&](V v) { return std::find(order.begin(), order.end(), v) - order.begin(); };
    for (auto& e : es) {
      const auto ps = pos(e.first), pd = pos(e.second);
      if (ps >= static_cast<long>(order.size()) || pd >= static_cast<long>(order.size()) || ps >= pd) return false;
    }
    return true;
  }
  static std::vector<V> subsequence(const std::vector<V>& order, const VSet& keep) {
    std::vector<V> r; for (auto v : order) if (keep.count(v)) r.push_back(v); return r;
  }

  std::string show_graph() const {
    std::string o = "V=" + show(vs) + " E={"; bool first = true;
    for (auto& e : es) { o += (first ? "" : " ") + std::to_string(e.first) + ">" + std::to_string(e.second); first = false; }
    return o + "}";
  }
};

}  // namespace refgraph
