// C19 — operation schema (OSS) stays sound and never shows outdated synthesis as current.
// E2 (explicit-state BFS over operation histories, state = history replayed on a fresh OSSchema), hook H1,
// environment model model/fake_sources.hpp registered with ccl::Environment as THE source manager in fresh().
//
// modes (all share one transition system; they differ in the enabled part of the alphabet and the depth):
//   full    whole alphabet (structure + definition + execution + operand edits + source events + save/load)
//   struct  InsertBase / Connect / InsertOperation / Erase / InitFor / Execute / ExecuteAll / save->load
//   fresh   InitFor / Execute / ExecuteAll / operand edits (pending or announced) / announce / close / open / save->load
//
// Pictograms are addressed by their rank in ascending uid order (never by uid), constituents by list position.
#include "engine/mc.hpp"
#include "model/uid_policy.hpp"
#include "model/fake_sources.hpp"

#include "ccl/oss/OSSchema.h"
#include "ccl/ops/RSOperations.h"
#include "ccl/tools/JSON.h"

#include <map>
#include <set>

using namespace mc;
using ccl::EntityUID;
using ccl::oss::OSSchema;
using ccl::oss::PictID;
using ccl::ops::EquationOptions;
using ccl::semantic::CstType;
using ccl::semantic::RSForm;
using JSON = nlohmann::ordered_json;

namespace {

enum Kind : int {
  K_INSERT_BASE = 1, K_CONNECT = 2, K_INSERT_OP = 3, K_ERASE = 4, K_INIT = 5, K_EXEC = 6, K_EXEC_ALL = 7,
  K_EDIT = 8, K_ANNOUNCE = 9, K_CLOSE = 10, K_OPEN = 11, K_SAVELOAD = 12
};
constexpr unsigned bit(int k) { return 1U << k; }
constexpr unsigned kMaskStruct = bit(K_INSERT_BASE) | bit(K_CONNECT) | bit(K_INSERT_OP) | bit(K_ERASE) | bit(K_INIT) | bit(K_EXEC) | bit(K_EXEC_ALL) | bit(K_SAVELOAD);
constexpr unsigned kMaskFresh = bit(K_INIT) | bit(K_EXEC) | bit(K_EXEC_ALL) | bit(K_EDIT) | bit(K_ANNOUNCE) | bit(K_CLOSE) | bit(K_OPEN) | bit(K_SAVELOAD);
constexpr unsigned kMaskFull = kMaskStruct | kMaskFresh;

constexpr PictID kMissingPid = 424242;
constexpr int kEditAddBase = 0, kEditAddTerm = 1, kEditErase = 2, kEditTermText = 3, kEditAddPair = 4;   // add-pair: two terms, the first listed mentions the second
constexpr int kInitMerge = 0, kInitSyntFF = 1, kInitSyntFL = 2, kInitSyntLF = 3, kInitSyntInvalid = 9;
constexpr int kSeedKinds = 4;

// ------------------------------------------------------------------------------------------------------------
// dumps (exact, unordered containers sorted; plain field reads only - nothing that could trigger lazy updates)
std::string s8(const std::u8string& s) { return std::string(reinterpret_cast<const char*>(s.data()), s.size()); }
void put(std::string& out, const std::string& s) { out += std::to_string(s.size()); out += ':'; out += s; out += ' '; }
void put(std::string& out, uint64_t v) { out += std::to_string(v); out += ' '; }

std::string dumpTranslation(const ccl::EntityTranslation& t) {
  std::vector<std::pair<EntityUID, EntityUID>> v(t.begin(), t.end());
  std::sort(v.begin(), v.end());
  std::string out = "{";
  for (auto& [k, x] : v) out += std::to_string(k) + ">" + std::to_string(x) + ",";
  return out + "}";
}

std::string dumpOptions(const ccl::ops::Options* opt) {
  if (opt == nullptr) return "null";
  const auto* eq = dynamic_cast<const EquationOptions*>(opt);
  if (eq == nullptr) return "foreign";
  std::vector<std::string> v;
  for (const auto& [k, x] : *eq) {
    const auto& p = eq->PropsFor(k);
    v.push_back(std::to_string(k) + "=" + std::to_string(x) + "/" + std::to_string(static_cast<int>(p.mode)) + "/" + p.arg);
  }
  std::sort(v.begin(), v.end());
  std::string out = "eq{";
  for (auto& s : v) out += s + ",";
  // properties without a translation entry would be an internal inconsistency: make it visible
  if (eq->properties.size() != eq->translation.size()) out += "props#" + std::to_string(eq->properties.size());
  return out + "}";
}

std::string dumpRSForm(const RSForm& f) {
  std::string out = "RSForm ";
  put(out, f.title); put(out, f.alias); put(out, f.comment);
  for (const auto uid : f.List()) {
    const auto& rs = f.GetRS(uid);
    const auto& tx = f.GetText(uid);
    const auto& pi = f.GetParse(uid);
    out += "[";
    put(out, uid); put(out, rs.alias); put(out, static_cast<uint64_t>(rs.type)); put(out, rs.definition); put(out, rs.convention);
    put(out, tx.alias); put(out, tx.term.Text().Raw()); put(out, tx.term.Text().Str()); put(out, tx.term.Nominal());
    { std::vector<std::string> forms; for (const auto& [m, s] : tx.term.GetAllManual()) forms.push_back(m.ToString() + "=" + s); std::sort(forms.begin(), forms.end()); for (auto& s : forms) put(out, s); }
    put(out, tx.definition.Raw()); put(out, tx.definition.Str());
    put(out, static_cast<uint64_t>(pi.status)); put(out, static_cast<uint64_t>(pi.valueClass));
    if (pi.exprType.has_value()) put(out, std::holds_alternative<ccl::rslang::Typification>(*pi.exprType) ? std::get<ccl::rslang::Typification>(*pi.exprType).ToString() : std::string("LOGIC"));
    else put(out, std::string("-"));
    out += "]";
  }
  { // tracking flags
    std::vector<std::pair<EntityUID, int>> v;
    for (const auto& [uid, fl] : f.Mods().cvs) v.emplace_back(uid, (fl.allowEdit ? 1 : 0) | (fl.term ? 2 : 0) | (fl.definition ? 4 : 0) | (fl.convention ? 8 : 0));
    std::sort(v.begin(), v.end());
    out += "mods{"; for (auto& [u, x] : v) out += std::to_string(u) + ":" + std::to_string(x) + ","; out += "}";
  }
  { // identifier registries (decide future uids / aliases)
    std::vector<EntityUID> ids(f.core.identifiers.idGenerator.entities.begin(), f.core.identifiers.idGenerator.entities.end());
    std::sort(ids.begin(), ids.end());
    out += "ids{"; for (auto u : ids) out += std::to_string(u) + ","; out += "}";
    std::vector<std::string> names(f.core.identifiers.aliasGenerator.names.begin(), f.core.identifiers.aliasGenerator.names.end());
    std::sort(names.begin(), names.end());
    out += "names{"; for (auto& n : names) out += n + ","; out += "}";
  }
  return out;
}

// ------------------------------------------------------------------------------------------------------------
// the bundle: real OSSchema + environment + monitor of the "announced change" clause
struct World;
World* g_live = nullptr;  // the one world whose OSS is alive (ccl::Environment is a process-wide singleton)

struct World {
  int seedKind{ 0 }, policy{ 0 };
  bool inert{ false };                   // placeholder for a seed that is switched off in this run
  fakesrc::Manager* mgr{ nullptr };      // owned by ccl::Environment
  std::unique_ptr<OSSchema> oss{};
  bool ossLive{ false };
  std::u8string domain{};
  // monitor: operations that had a stored result when an announced change altered the formal content of a parent's
  // source and have not been re-executed since -> must report outdated or broken
  // value: how the change was announced (1 = while the OSS was listening, 2 = while it had its do-not-disturb guard up)
  std::map<PictID, int> obligations{};
  struct Fresh { uint64_t seq{ 0 }; int how{ 0 }; };
  std::map<PictID, Fresh> fresh{};       // obligations created during the current transition: operation -> last sequence number

  World() = default;
  World(const World&) = delete;
  World& operator=(const World&) = delete;
  ~World() { Teardown(); }

  void Teardown() {
    if (g_live == this) g_live = nullptr;
    ossLive = false;
    if (oss != nullptr) {
      oss.reset();                        // closes its sources through the (still installed) manager
      if (mgr != nullptr) mgr->onAnnounce = nullptr;
    }
    mgr = nullptr;
  }

  void Boot(int seedKind_, int policy_) {
    if (g_live != nullptr) g_live->Teardown();  // the engine keeps the previous replay alive a little longer: retire it first
    seedKind = seedKind_; policy = policy_;
    uidpolicy::install(policy);
    mgr = &fakesrc::InstallFresh();
    NewDocument();
    g_live = this;
  }

  void NewDocument() {
    oss = std::make_unique<OSSchema>();
    oss->Src().ossDomain = domain;
    ossLive = true;
    mgr->onAnnounce = [this](fakesrc::Source& src, bool coreChanged, uint64_t seq) { OnAnnounce(src, coreChanged, seq); };
  }

  // "announced change": every SrcChanged the manager issues for the source attached to pictogram P (DESIGN C19)
  void OnAnnounce(fakesrc::Source& src, bool coreChanged, uint64_t seq) {
    if (!coreChanged || !ossLive || oss == nullptr) return;
    auto pid = oss->Src().Src2PID(src);
    if (!pid.has_value()) for (const auto p : Picts()) if (SourceOf(p) == &src) { pid = p; break; }   // announced while (re)opening: not attached yet, named by the handle
    if (!pid.has_value()) return;
    for (const auto child : oss->Graph().ChildrenOf(*pid)) {
      const auto* handle = oss->Src()(child);
      if (oss->Ops()(child) != nullptr && handle != nullptr && !std::empty(*handle)) {
        auto& f = fresh[child];
        if (const auto* rs = SourceOf(child); f.seq != 0 && rs != nullptr && rs->lastWriteSeq > f.seq) f.how = 0;  // re-executed in between
        f.seq = seq; f.how |= oss->DndStatus() ? 2 : 1;
      }
    }
  }

  [[nodiscard]] std::vector<PictID> Picts() const {
    std::vector<PictID> v;
    for (const auto& p : *oss) v.push_back(p.uid);
    std::sort(v.begin(), v.end());
    return v;
  }
  [[nodiscard]] PictID PidAt(int idx) const { const auto v = Picts(); return idx >= 0 && idx < static_cast<int>(v.size()) ? v[static_cast<size_t>(idx)] : kMissingPid; }

  // source of a pictogram as the ENVIRONMENT knows it (attached, or closed but named by the handle); no side effects
  [[nodiscard]] fakesrc::Source* SourceOf(PictID pid) const {
    const auto* handle = oss->Src()(pid);
    if (handle == nullptr) return nullptr;
    if (handle->src != nullptr) return mgr->Cast(handle->src);
    if (std::empty(handle->desc.name)) return nullptr;
    return mgr->FindAny(mgr->Convert2Global(handle->desc, oss->Src().ossDomain).name);
  }
  [[nodiscard]] fakesrc::Source* AttachedOpen(PictID pid) const {
    const auto* handle = oss->Src()(pid);
    if (handle == nullptr || handle->src == nullptr) return nullptr;
    auto* src = mgr->Cast(handle->src);
    return src != nullptr && src->IsOpened() ? src : nullptr;
  }

  std::map<PictID, ccl::change::Hash> lastCore{};   // formal content of the last source each pictogram had (kept when a result is discarded)
  void BeginTransition() { mgr->ResetSeq(); fresh.clear(); }
  void RecordCores() {
    for (auto it = lastCore.begin(); it != lastCore.end();) it = oss->Contains(it->first) ? std::next(it) : lastCore.erase(it);
    for (const auto pid : Picts()) if (const auto* src = SourceOf(pid); src != nullptr) lastCore[pid] = src->schema.CoreHash();
  }
  // The OSS's own write: an execution that stored a result with different formal content changed the source of that pictogram. The
  // environment does not announce a write (it announces on save / close), but the OSS made the change itself and knows it
  // (SaveOperationResult compensates for "change of the result was not observed under guard"): counted like an announced change.
  void OwnWrites() {
    if (!ossLive || oss == nullptr) return;
    for (const auto pid : Picts()) {
      if (oss->Ops()(pid) == nullptr) continue;
      const auto* src = SourceOf(pid);
      if (src == nullptr || src->lastWriteSeq == 0) continue;        // this pictogram's result was not written in this transition
      const auto before = lastCore.find(pid);
      const auto now = src->schema.CoreHash();
      for (const auto child : oss->Graph().ChildrenOf(pid)) {
        const auto* handle = oss->Src()(child);
        if (oss->Ops()(child) == nullptr || handle == nullptr || std::empty(*handle)) continue;
        const auto* rs = SourceOf(child);
        if (rs == nullptr) continue;
        // formal content this parent had when the child's stored result was (last) written: the parent's last write before the child's,
        // else its content before the transition (kept across a discarded result); unknown -> nothing asserted
        std::optional<ccl::change::Hash> asOfChild;
        if (before != lastCore.end()) asOfChild = before->second;
        if (rs->lastWriteSeq > 0) for (const auto& [seq, hash] : src->writeLog) if (seq < rs->lastWriteSeq) asOfChild = hash;
        if (!asOfChild.has_value() || *asOfChild == now) continue;
        auto& f = fresh[child];
        if (f.seq < src->lastWriteSeq) f.seq = src->lastWriteSeq;
        f.how |= 4;
      }
    }
  }
  // end of a transition: fold the obligations created in it into the monitor state, drop the discharged ones
  void Settle() {
    OwnWrites(); RecordCores();
    std::map<PictID, Fresh> pending;
    for (auto& [o, how] : obligations) pending[o] = Fresh{ 0, how };
    for (auto& [o, f] : fresh) {  // a re-execution between an old and a new obligation discharges the old one
      auto& p = pending[o];
      const auto* src = oss->Contains(o) ? SourceOf(o) : nullptr;
      const bool oldDischarged = src != nullptr && src->lastWriteSeq > 0 && src->lastWriteSeq < f.seq;
      p.how = (oldDischarged ? 0 : p.how) | f.how; p.seq = f.seq;
    }
    obligations.clear(); fresh.clear();
    for (auto& [o, f] : pending) {
      const auto t = f.seq;
      if (!oss->Contains(o) || oss->Ops()(o) == nullptr) continue;       // erased
      const auto* handle = oss->Src()(o);
      if (handle == nullptr || std::empty(*handle)) continue;               // no stored result any more
      const auto* src = SourceOf(o);
      if (src != nullptr && src->lastWriteSeq > t) continue;                // re-executed after the change
      obligations[o] = f.how;
    }
  }
};

// content helpers ------------------------------------------------------------------------------------------
EntityUID addBase(RSForm& f, const std::string& term) { const auto u = f.Emplace(CstType::base); if (!term.empty()) f.SetTermFor(u, term); return u; }
EntityUID addTerm(RSForm& f, const std::string& term) {
  std::string def;
  for (const auto uid : f.List()) if (ccl::semantic::IsBaseSet(f.GetRS(uid).type)) { def = f.GetRS(uid).alias + "\\" + f.GetRS(uid).alias; break; }
  const auto u = f.Emplace(CstType::term, def);
  if (!term.empty()) f.SetTermFor(u, term);
  return u;
}
void fillPool(RSForm& f, int pool) {
  if (pool == 0) { addBase(f, "a"); }
  else if (pool == 1) { addBase(f, "b"); addTerm(f, "d"); }
  // pool 2: empty schema
}
std::vector<EntityUID> baseSets(const RSForm& f) {
  std::vector<EntityUID> v;
  for (const auto uid : f.List()) if (ccl::semantic::IsBaseSet(f.GetRS(uid).type)) v.push_back(uid);
  return v;
}
bool editable(const RSForm& f, EntityUID uid) { return !f.Mods().IsTracking(uid); }
std::optional<EntityUID> firstOwn(const RSForm& f) { for (const auto uid : f.List()) if (editable(f, uid)) return uid; return std::nullopt; }

// alias-insensitive shape of a definition: global identifiers keep their class letter only.
// The library rewrites a reference from a user addition to an inherited constituent that no longer exists in the
// new synthesis to `<alias>_ERROR` (rslang TFFactory::GetTransition); the property does not say what becomes of such
// a reference, so the marker is read as part of the identifier (narrowing, found by the thorough tier:
// `user adds D:=X1\X1 to a result; X1 disappears from the operand; Execute`).
std::string shape(const std::string& def) {
  std::string out;
  for (size_t i = 0; i < def.size(); ++i) {
    const char ch = def[i];
    const bool startOfId = std::strchr("XCSDAFPT", ch) != nullptr && i + 1 < def.size() && std::isdigit(static_cast<unsigned char>(def[i + 1])) &&
                           (i == 0 || !std::isalnum(static_cast<unsigned char>(def[i - 1])));
    out += ch;
    if (startOfId) {
      while (i + 1 < def.size() && std::isdigit(static_cast<unsigned char>(def[i + 1]))) ++i;
      if (def.compare(i + 1, 6, "_ERROR") == 0) i += 6;
      out += '#';
    }
  }
  return out;
}
std::string cstExact(const RSForm& f, EntityUID uid) {
  const auto& rs = f.GetRS(uid); const auto& tx = f.GetText(uid);
  std::string s; put(s, rs.alias); put(s, static_cast<uint64_t>(rs.type)); put(s, rs.definition); put(s, rs.convention); put(s, tx.term.Text().Raw()); put(s, tx.definition.Raw());
  return s;
}
std::string cstLoose(const RSForm& f, EntityUID uid) {
  const auto& rs = f.GetRS(uid); const auto& tx = f.GetText(uid);
  std::string s; put(s, static_cast<uint64_t>(rs.type)); put(s, shape(rs.definition)); put(s, rs.convention); put(s, shape(tx.term.Text().Raw())); put(s, shape(tx.definition.Raw()));
  return s;
}
// strict variant: the _ERROR marker is NOT swallowed
std::string shapeStrict(const std::string& def) {
  std::string out;
  for (size_t i = 0; i < def.size(); ++i) {
    const char ch = def[i];
    const bool startOfId = std::strchr("XCSDAFPT", ch) != nullptr && i + 1 < def.size() && std::isdigit(static_cast<unsigned char>(def[i + 1])) && (i == 0 || !std::isalnum(static_cast<unsigned char>(def[i - 1])));
    out += ch;
    if (startOfId) { while (i + 1 < def.size() && std::isdigit(static_cast<unsigned char>(def[i + 1]))) ++i; out += '#'; }
  }
  return out;
}
std::vector<std::string> idsOf(const std::string& def) {
  std::vector<std::string> ids;
  for (size_t i = 0; i < def.size(); ++i) {
    const char ch = def[i];
    const bool startOfId = std::strchr("XCSDAFPT", ch) != nullptr && i + 1 < def.size() && std::isdigit(static_cast<unsigned char>(def[i + 1])) && (i == 0 || !std::isalnum(static_cast<unsigned char>(def[i - 1])));
    if (!startOfId) continue;
    std::string id(1, ch); while (i + 1 < def.size() && std::isdigit(static_cast<unsigned char>(def[i + 1]))) id += def[++i];
    ids.push_back(id);
  }
  return ids;
}
std::string cstStrict(const RSForm& f, EntityUID uid) {
  const auto& rs = f.GetRS(uid); const auto& tx = f.GetText(uid);
  std::string s; put(s, static_cast<uint64_t>(rs.type)); put(s, shapeStrict(rs.definition)); put(s, rs.convention); put(s, shapeStrict(tx.term.Text().Raw())); put(s, shapeStrict(tx.definition.Raw()));
  return s;
}
std::string joined(const std::multiset<std::string>& m) { std::string s; for (auto& x : m) s += "<" + x + ">"; return s; }

// ------------------------------------------------------------------------------------------------------------
struct Sys {
  using Obj = World;
  using Op = OpRec;

  unsigned kinds{ kMaskFull };
  unsigned seedMask{ 0xF };
  int policies{ 2 };
  int maxPicts{ 5 };        // pictograms a history may add on top of the seed are limited by this total
  int maxExtra{ 2 };        // ... and by this many insertions beyond the seed's own size
  int maxSources{ 8 };
  bool richInit{ false };   // also the (first,last) / (last,first) equation tables
  unsigned editKinds{ 0x1F }; // bit e = edit kind e enabled
  unsigned editFlags{ 3 };   // 1 = pending variant, 2 = announced variant
  bool editBasesOnly{ false };
  int saveOrders{ 2 };

  // seed index = policy * 4 + kind, ALWAYS (so that a recorded history means the same under any arguments);
  // a seed that is switched off yields one inert state without successors
  bool seedOn(int idx) const { return idx / kSeedKinds < policies && (seedMask & (1U << (idx % kSeedKinds))) != 0; }
  std::pair<int, int> seedAt(int idx) const { return { idx % kSeedKinds, idx / kSeedKinds }; }
  int seeds() const { return 2 * kSeedKinds; }
  int seedsOn() const { int n = 0; for (int i = 0; i < 2 * kSeedKinds; ++i) n += seedOn(i) ? 1 : 0; return n; }
  static int seedSize(int kind) { return kind == 0 ? 0 : kind == 1 ? 3 : kind == 2 ? 6 : 5; }

  static fakesrc::Source& userSource(World& w, const std::function<void(RSForm&)>& fill) {
    auto& src = w.mgr->CreateUserSource(w.domain);
    fill(src.schema);
    src.MarkPristine();
    return src;
  }
  static void require(bool ok, const char* what) { if (!ok) { fprintf(stderr, "HARNESS-ASSERT seed construction failed: %s\n", what); fflush(stderr); abort(); } }

  std::unique_ptr<World> fresh(int seedIdx) {
    const auto [kind, policy] = seedAt(seedIdx);
    auto w = std::make_unique<World>();
    if (!seedOn(seedIdx)) { w->inert = true; w->Boot(0, 0); return w; }
    if (kind == 2) w->domain = u8"dom/";
    w->Boot(kind, policy);
    w->BeginTransition();
    auto& oss = *w->oss;
    auto merge = [&](PictID o) { require(oss.Ops().InitFor(o, ccl::ops::Type::rsMerge, nullptr), "InitFor merge"); };
    if (kind == 1) {          // two connected bases + one executed merge
      const auto b1 = oss.InsertBase()->uid, b2 = oss.InsertBase()->uid;
      require(oss.Src().ConnectPict2Src(b1, userSource(*w, [](RSForm& f) { addBase(f, "a"); })), "connect b1");
      require(oss.Src().ConnectPict2Src(b2, userSource(*w, [](RSForm& f) { addBase(f, "b"); addTerm(f, "d"); })), "connect b2");
      const auto o1 = oss.InsertOperation(b1, b2)->uid;
      merge(o1); require(oss.Ops().Execute(o1), "execute o1");
    } else if (kind == 2) {   // diamond b1,b2,b3 -> o1=b1+b2, o2=b2+b3 -> o3=o1+o2, everything executed; prefix domain
      const auto b1 = oss.InsertBase()->uid, b2 = oss.InsertBase()->uid, b3 = oss.InsertBase()->uid;
      require(oss.Src().ConnectPict2Src(b1, userSource(*w, [](RSForm& f) { addBase(f, "a"); })), "connect b1");
      require(oss.Src().ConnectPict2Src(b2, userSource(*w, [](RSForm& f) { addBase(f, "b"); addTerm(f, "d"); })), "connect b2");
      require(oss.Src().ConnectPict2Src(b3, userSource(*w, [](RSForm& f) { addBase(f, "c"); })), "connect b3");
      const auto o1 = oss.InsertOperation(b1, b2)->uid, o2 = oss.InsertOperation(b2, b3)->uid;
      const auto o3 = oss.InsertOperation(o1, o2)->uid;
      merge(o1); merge(o2); merge(o3);
      require(oss.Ops().Execute(o1) && oss.Ops().Execute(o2) && oss.Ops().Execute(o3), "execute diamond");
    } else if (kind == 3) {   // chain with equation tables: o1 = synt(b1,b2){X1=X1}, o2 = synt(o1,b3){X1=X1}, executed
      const auto b1 = oss.InsertBase()->uid, b2 = oss.InsertBase()->uid, b3 = oss.InsertBase()->uid;
      EntityUID x1b1 = 0, x1b2 = 0, x1b3 = 0;
      require(oss.Src().ConnectPict2Src(b1, userSource(*w, [&](RSForm& f) { x1b1 = addBase(f, "a"); addBase(f, "a2"); })), "connect b1");
      require(oss.Src().ConnectPict2Src(b2, userSource(*w, [&](RSForm& f) { x1b2 = addBase(f, "b"); })), "connect b2");
      require(oss.Src().ConnectPict2Src(b3, userSource(*w, [&](RSForm& f) { x1b3 = addBase(f, "c"); addTerm(f, "e"); })), "connect b3");
      const auto o1 = oss.InsertOperation(b1, b2)->uid;
      const auto o2 = oss.InsertOperation(o1, b3)->uid;
      require(oss.Ops().InitFor(o1, ccl::ops::Type::rsSynt, std::make_unique<EquationOptions>(x1b1, x1b2)), "InitFor o1");
      require(oss.Ops().Execute(o1), "execute o1");
      const auto* r1 = w->SourceOf(o1); require(r1 != nullptr && !baseSets(r1->schema).empty(), "o1 result");
      require(oss.Ops().InitFor(o2, ccl::ops::Type::rsSynt, std::make_unique<EquationOptions>(baseSets(r1->schema).front(), x1b3)), "InitFor o2");
      require(oss.Ops().Execute(o2), "execute o2");
    }
    w->Settle();
    require(w->obligations.empty(), "seed has pending obligations");
    return w;
  }

  // ---------------------------------------------------------------------------------------------------------
  std::vector<Op> enabled(const World& w) const {
    std::vector<Op> ops;
    if (w.inert) return ops;
    const auto picts = w.Picts();
    const int n = static_cast<int>(picts.size());
    auto on = [&](int k) { return (kinds & bit(k)) != 0; };
    auto isOp = [&](int i) { return w.oss->Ops()(picts[static_cast<size_t>(i)]) != nullptr; };
    const bool room = n < maxPicts && n < seedSize(w.seedKind) + maxExtra;
    if (on(K_INSERT_BASE) && room) ops.push_back({ K_INSERT_BASE, 0, 0, 0 });
    if (on(K_CONNECT) && static_cast<int>(w.mgr->sources.size()) < maxSources)
      for (int i = 0; i < n; ++i) if (!isOp(i)) for (int pool = 0; pool < 3; ++pool) ops.push_back({ K_CONNECT, i, pool, 0 });
    if (on(K_INSERT_OP)) {
      if (room) for (int a = 0; a < n; ++a) for (int b = 0; b < n; ++b) ops.push_back({ K_INSERT_OP, a, b, 0 });   // includes a == b (refused)
      ops.push_back({ K_INSERT_OP, 0, n, 0 }); ops.push_back({ K_INSERT_OP, n, 0, 0 }); ops.push_back({ K_INSERT_OP, n, n, 0 });  // missing operands (refused)
    }
    if (on(K_ERASE)) for (int a = 0; a <= n; ++a) ops.push_back({ K_ERASE, a, 0, 0 });   // a == n: missing
    if (on(K_INIT)) for (int i = 0; i < n; ++i) if (isOp(i)) {
      ops.push_back({ K_INIT, i, kInitMerge, 0 });
      const auto parents = w.oss->Graph().ParentsOf(picts[static_cast<size_t>(i)]);
      if (parents.size() == 2) {
        const auto* s1 = w.SourceOf(parents[0]); const auto* s2 = w.SourceOf(parents[1]);
        if (s1 != nullptr && s2 != nullptr) {
          const auto b1 = baseSets(s1->schema), b2 = baseSets(s2->schema);
          if (!b1.empty() && !b2.empty()) {
            ops.push_back({ K_INIT, i, kInitSyntFF, 0 });
            if (richInit && b2.size() > 1) ops.push_back({ K_INIT, i, kInitSyntFL, 0 });
            if (richInit && b1.size() > 1) ops.push_back({ K_INIT, i, kInitSyntLF, 0 });
          }
        }
      }
      ops.push_back({ K_INIT, i, kInitSyntInvalid, 0 });
    }
    if (on(K_EXEC)) {
      for (int i = 0; i < n; ++i) if (isOp(i)) ops.push_back({ K_EXEC, i, 0, 0 });
      for (int i = 0; i < n; ++i) if (!isOp(i)) { ops.push_back({ K_EXEC, i, 0, 0 }); break; }   // one base pictogram (refused)
    }
    if (on(K_EXEC_ALL) && n > 0) ops.push_back({ K_EXEC_ALL, 0, 0, 0 });
    if (on(K_EDIT)) for (int i = 0; i < n; ++i) if (const auto* src = w.AttachedOpen(picts[static_cast<size_t>(i)]); src != nullptr) {
      const bool own = firstOwn(src->schema).has_value();
      if (editBasesOnly && isOp(i)) continue;
      for (int e : { kEditAddBase, kEditAddTerm, kEditErase, kEditTermText, kEditAddPair }) {
        if ((editKinds & (1U << e)) == 0) continue;
        if ((e == kEditErase || e == kEditTermText) && !own) continue;
        if (e == kEditAddPair && (!isOp(i) || own)) continue;   // user additions to an operation's result, once
        if (editFlags & 1) ops.push_back({ K_EDIT, i, e, 0 });
        if (editFlags & 2) ops.push_back({ K_EDIT, i, e, 1 });
      }
    }
    if (on(K_EDIT) && (editFlags & 4)) for (int i = 0; i < n; ++i) if (!isOp(i)) {   // the document of a base pictogram changes while it is closed (another session)
      const auto* src = w.SourceOf(picts[static_cast<size_t>(i)]);
      if (src != nullptr && !src->IsOpened()) ops.push_back({ K_EDIT, i, kEditAddBase, 2 });
    }
    if (on(K_ANNOUNCE)) for (int i = 0; i < n; ++i) if (const auto* src = w.AttachedOpen(picts[static_cast<size_t>(i)]); src != nullptr && !src->IsSaved()) ops.push_back({ K_ANNOUNCE, i, 0, 0 });
    if (on(K_CLOSE)) for (int i = 0; i < n; ++i) if (w.AttachedOpen(picts[static_cast<size_t>(i)]) != nullptr) ops.push_back({ K_CLOSE, i, 0, 0 });
    if (on(K_OPEN)) for (int i = 0; i < n; ++i) {
      const auto* handle = w.oss->Src()(picts[static_cast<size_t>(i)]);
      if (handle != nullptr && handle->src == nullptr && !std::empty(*handle) && w.SourceOf(picts[static_cast<size_t>(i)]) != nullptr) ops.push_back({ K_OPEN, i, 0, 0 });
    }
    if (on(K_SAVELOAD) && n > 0) { ops.push_back({ K_SAVELOAD, 0, 0, 0 }); if (n > 1 && saveOrders > 1) ops.push_back({ K_SAVELOAD, 1, 0, 0 }); if (n > 2 && saveOrders > 1) ops.push_back({ K_SAVELOAD, 2, 0, 0 }); }
    return ops;
  }

  std::string describe(const Op& op) const {
    auto p = [](int i) { return "#" + std::to_string(i); };
    switch (op.k) {
    case K_INSERT_BASE: return "InsertBase";
    case K_CONNECT: return "Connect(" + p(op.a) + ",new source pool" + std::to_string(op.b) + ")";
    case K_INSERT_OP: return "InsertOperation(" + p(op.a) + "," + p(op.b) + ")";
    case K_ERASE: return "Erase(" + p(op.a) + ")";
    case K_INIT: return "InitFor(" + p(op.a) + "," + (op.b == kInitMerge ? "merge" : op.b == kInitSyntFF ? "synt{first=first}" : op.b == kInitSyntFL ? "synt{first=last}" : op.b == kInitSyntLF ? "synt{last=first}" : "synt{42=42}") + ")";
    case K_EXEC: return "Execute(" + p(op.a) + ")";
    case K_EXEC_ALL: return "ExecuteAll";
    case K_EDIT: return std::string("Edit(") + p(op.a) + "," + (op.b == kEditAddBase ? "add-base" : op.b == kEditAddTerm ? "add-term" : op.b == kEditErase ? "erase-first-own" : op.b == kEditAddPair ? "add-pair(first mentions second)" : "retext-first-own") + (op.c == 2 ? ",while-closed)" : op.c ? ",announce)" : ",pending)");
    case K_ANNOUNCE: return "Announce(" + p(op.a) + ")";
    case K_CLOSE: return "Close(" + p(op.a) + ")";
    case K_OPEN: return "Open(" + p(op.a) + ")";
    case K_SAVELOAD: return op.a == 0 ? "SaveLoad(items as stored)" : op.a == 1 ? "SaveLoad(items reversed)" : "SaveLoad(connections interleaved by child)";
    default: return "?";
    }
  }

  // ---------------------------------------------------------------------------------------------------------
  struct PreExec { std::map<PictID, std::multiset<std::string>> ownBefore, ownBeforeStrict; };   // strict: additions that mention nothing but other additions

  static PreExec snapshotOwn(const World& w) {
    PreExec pre;
    for (const auto pid : w.Picts()) if (w.oss->Ops()(pid) != nullptr) {
      const auto* src = w.SourceOf(pid);
      if (src == nullptr) continue;
      auto& m = pre.ownBefore[pid];
      for (const auto uid : src->schema.List()) if (!src->schema.Mods().IsTracking(uid)) m.insert(cstLoose(src->schema, uid));
      // an addition all of whose mentions name other (carried-over) additions has no reason to lose any of them: compared without the marker allowance
      std::set<std::string> ownAliases; for (const auto uid : src->schema.List()) if (!src->schema.Mods().IsTracking(uid)) ownAliases.insert(src->schema.GetRS(uid).alias);
      for (const auto uid : src->schema.List()) if (!src->schema.Mods().IsTracking(uid)) {
        const auto& rs = src->schema.GetRS(uid); const auto& tx = src->schema.GetText(uid);
        bool onlyOwn = true; size_t mentions = 0;
        for (const auto& text : { rs.definition, tx.term.Text().Raw(), tx.definition.Raw() }) for (const auto& id : idsOf(text)) { ++mentions; onlyOwn = onlyOwn && ownAliases.count(id) != 0; }
        if (onlyOwn && mentions > 0) pre.ownBeforeStrict[pid].insert(cstStrict(src->schema, uid));
      }
    }
    return pre;
  }

  // "immediately after a successful execution": every operation whose result was written in this transition and whose
  // parents' sources were not written afterwards
  void checkExecuted(World& w, Ctx& c, const PreExec& pre, std::optional<PictID> mustHave) const {
    for (const auto pid : w.Picts()) {
      const auto* op = w.oss->Ops()(pid);
      if (op == nullptr) continue;
      const auto* res = w.SourceOf(pid);
      const bool written = res != nullptr && res->lastWriteSeq > 0;
      if (mustHave.has_value() && *mustHave == pid && !written) { c.fail("C19:execute-true-without-result", "Execute returned true but no result was written for the operation"); continue; }
      if (!written) continue;
      const auto parents = w.oss->Graph().ParentsOf(pid);
      if (parents.size() != 2) continue;  // reported by the structural invariant
      const auto* s1 = w.SourceOf(parents[0]); const auto* s2 = w.SourceOf(parents[1]);
      if (s1 == nullptr || s2 == nullptr) { c.fail("C19:executed-without-operand-data", "operation result written although an operand has no source"); continue; }
      if (s1->lastWriteSeq > res->lastWriteSeq || s2->lastWriteSeq > res->lastWriteSeq) { c.rep.count("exec_checks_skipped_parent_rewritten"); continue; }
      c.rep.count("exec_result_checks");
      // (a) inherited part == synthesis of the parents' current schemas
      const auto* eq = dynamic_cast<const EquationOptions*>(op->options.get());
      ccl::ops::BinarySynthes synth(s1->schema, s2->schema, eq == nullptr ? EquationOptions{} : *eq);
      if (!synth.IsCorrectlyDefined()) { c.fail("C19:executed-although-undefined", "result written although BinarySynthes on the parents' current schemas is not correctly defined"); continue; }
      const auto expected = synth.Execute();
      std::multiset<std::string> exp, got, ownNow;
      for (const auto uid : expected->List()) exp.insert(cstExact(*expected, uid));
      for (const auto uid : res->schema.List()) {
        if (res->schema.Mods().IsTracking(uid)) got.insert(cstExact(res->schema, uid));
        else ownNow.insert(cstLoose(res->schema, uid));
      }
      if (exp != got) c.fail("C19:result-not-synthesis", "inherited part of the result differs from BinarySynthes(parents' current schemas)", joined(got), joined(exp));
      if (w.oss->Ops().StatusOf(pid) != ccl::ops::Status::done && w.oss->Ops().StatusOf(pid) != ccl::ops::Status::outdated)
        c.fail("C19:executed-status", "freshly executed operation reports neither done nor outdated", std::to_string(static_cast<int>(w.oss->Ops().StatusOf(pid))));
      // (b) the user's own additions to the previous result are still there
      if (const auto it = pre.ownBefore.find(pid); it != pre.ownBefore.end()) {
        bool all = true;
        auto rest = ownNow;
        for (const auto& x : it->second) { const auto f = rest.find(x); if (f == rest.end()) { all = false; break; } rest.erase(f); }
        if (!all) c.fail("C19:user-additions-lost", "a constituent the user added to the previous result is missing after re-execution", joined(ownNow), joined(it->second));
        if (!it->second.empty()) c.rep.count("exec_with_user_additions");
      }
      if (const auto it = pre.ownBeforeStrict.find(pid); it != pre.ownBeforeStrict.end()) {
        std::multiset<std::string> strictNow; for (const auto uid : res->schema.List()) if (!res->schema.Mods().IsTracking(uid)) strictNow.insert(cstStrict(res->schema, uid));
        bool all = true;
        for (const auto& x : it->second) { const auto f = strictNow.find(x); if (f == strictNow.end()) { all = false; break; } strictNow.erase(f); }
        if (!all) c.fail("C19:user-addition-corrupted", "a user addition that mentions only other user additions (all carried over) changed on re-execution", joined(strictNow), joined(it->second));
        c.rep.count("exec_with_addition_mentioning_addition");
      }
    }
  }

  void apply(World& w, const Op& op, Ctx* c, const std::string& /*histDesc*/) {
    auto& oss = *w.oss;
    w.BeginTransition();
    const auto picts = w.Picts();
    auto pid = [&](int i) { return i >= 0 && i < static_cast<int>(picts.size()) ? picts[static_cast<size_t>(i)] : kMissingPid; };
    std::string outcome = std::to_string(op.k);
    switch (op.k) {
    case K_INSERT_BASE: {
      const auto* p = oss.InsertBase();
      if (c && p == nullptr) c->fail("C19:insert-base-refused", "InsertBase returned nullptr");
      break;
    }
    case K_CONNECT: {
      auto& src = userSource(w, [&](RSForm& f) { fillPool(f, op.b); });
      const bool ok = oss.Src().ConnectPict2Src(pid(op.a), src);
      outcome += ok ? "+" : "-";
      break;
    }
    case K_INSERT_OP: {
      const auto a = pid(op.a), b = pid(op.b);
      const bool expectOk = a != b && oss.Contains(a) && oss.Contains(b);
      const std::string before = c ? key(w) : std::string{};
      const auto* p = oss.InsertOperation(a, b);
      outcome += p ? "+" : "-";
      if (c) {
        if ((p != nullptr) != expectOk) c->fail("C19:insert-operation-verdict", "InsertOperation accepted/refused against the rule (two distinct existing operands)", p ? "accepted" : "refused", expectOk ? "accepted" : "refused");
        if (p == nullptr && key(w) != before) c->fail("C19:refused-insert-changed-state", "refused InsertOperation changed the state");
        if (p != nullptr) { const auto par = oss.Graph().ParentsOf(p->uid); if (par != std::vector<PictID>{ a, b }) c->fail("C19:insert-operation-parents", "new operation does not have the requested parents in order"); }
      }
      break;
    }
    case K_ERASE: {
      const auto target = pid(op.a);
      bool hasChildren = false;
      for (const auto& [child, parent] : oss.Graph().EdgeList()) if (parent == target) hasChildren = true;
      const bool expectOk = oss.Contains(target) && !hasChildren;
      const std::string before = c ? key(w) : std::string{};
      const bool ok = oss.Erase(target);
      outcome += ok ? "+" : "-";
      if (c) {
        if (ok != expectOk) c->fail("C19:erase-verdict", "Erase succeeded/refused against the rule (exists and has no children)", ok ? "erased" : "refused", expectOk ? "erased" : "refused");
        if (!ok && key(w) != before) c->fail("C19:refused-erase-changed-state", "refused Erase changed the state");
        if (ok && oss.Contains(target)) c->fail("C19:erase-left-pictogram", "erased pictogram is still there");
      }
      break;
    }
    case K_INIT: {
      const auto o = pid(op.a);
      bool ok = false;
      if (op.b == kInitMerge) ok = oss.Ops().InitFor(o, ccl::ops::Type::rsMerge, nullptr);
      else if (op.b == kInitSyntInvalid) ok = oss.Ops().InitFor(o, ccl::ops::Type::rsSynt, std::make_unique<EquationOptions>(42U, 42U));
      else {
        const auto parents = oss.Graph().ParentsOf(o);
        const auto* s1 = parents.size() == 2 ? w.SourceOf(parents[0]) : nullptr; const auto* s2 = parents.size() == 2 ? w.SourceOf(parents[1]) : nullptr;
        if (s1 != nullptr && s2 != nullptr && !baseSets(s1->schema).empty() && !baseSets(s2->schema).empty()) {
          const auto b1 = baseSets(s1->schema), b2 = baseSets(s2->schema);
          const auto k = op.b == kInitSyntLF ? b1.back() : b1.front();
          const auto v = op.b == kInitSyntFL ? b2.back() : b2.front();
          ok = oss.Ops().InitFor(o, ccl::ops::Type::rsSynt, std::make_unique<EquationOptions>(k, v));
        }
      }
      outcome += std::to_string(op.b) + (ok ? "+" : "-") + std::to_string(static_cast<int>(oss.Ops().StatusOf(o)));
      break;
    }
    case K_EXEC: {
      const auto o = pid(op.a);
      const auto pre = c ? snapshotOwn(w) : PreExec{};
      const bool ok = oss.Ops().Execute(o);
      outcome += ok ? "+" : "-";
      if (c) {
        if (ok && oss.Ops()(o) == nullptr) c->fail("C19:execute-non-operation", "Execute succeeded on a pictogram that is not an operation");
        checkExecuted(w, *c, pre, ok ? std::optional<PictID>{ o } : std::nullopt);
        if (ok && oss.Ops().StatusOf(o) != ccl::ops::Status::done) c->fail("C19:executed-not-done", "operation does not report done immediately after a successful Execute", std::to_string(static_cast<int>(oss.Ops().StatusOf(o))), "4 (done)");
      }
      break;
    }
    case K_EXEC_ALL: {
      const auto pre = c ? snapshotOwn(w) : PreExec{};
      oss.Ops().ExecuteAll();
      if (c) checkExecuted(w, *c, pre, std::nullopt);
      break;
    }
    case K_EDIT: {
      if (op.c == 2) {   // offline: the closed document gets one more base set and is stored again, unannounced
        auto* closed = w.SourceOf(pid(op.a));
        if (closed != nullptr && !closed->IsOpened()) { closed->OfflineEdit([](RSForm& f) { f.Emplace(CstType::base); }); outcome += "offline+"; } else outcome += "offline-";
        break;
      }
      auto* src = w.AttachedOpen(pid(op.a));
      bool done = false;
      if (src != nullptr) {
        auto& f = src->schema;
        if (op.b == kEditAddBase) { f.Emplace(CstType::base); done = true; }
        else if (op.b == kEditAddTerm) { addTerm(f, ""); done = true; }
        else if (op.b == kEditAddPair) {   // two own terms; the one listed FIRST mentions the one listed after it
          const auto first = f.Emplace(CstType::term, "1"); const auto second = addTerm(f, "");
          const std::string later = f.GetRS(second).alias;
          f.SetExpressionFor(first, later + "\\" + later); done = true;
        }
        else if (const auto target = firstOwn(f); target.has_value()) {
          if (op.b == kEditErase) done = f.Erase(*target);
          else done = f.SetTermFor(*target, f.GetText(*target).term.Text().Raw() == "t1" ? "t2" : "t1");
        }
        if (op.c != 0) w.mgr->SaveState(*src);
      }
      outcome += std::to_string(op.b) + (done ? "+" : "-");
      break;
    }
    case K_ANNOUNCE: { if (auto* src = w.AttachedOpen(pid(op.a)); src != nullptr) w.mgr->SaveState(*src); break; }
    case K_CLOSE: { if (auto* src = w.AttachedOpen(pid(op.a)); src != nullptr) w.mgr->Close(*src); break; }
    case K_OPEN: {
      const auto* handle = oss.Src()(pid(op.a));
      if (handle != nullptr && handle->src == nullptr && !std::empty(*handle)) {
        const auto* got = w.mgr->Open(w.mgr->Convert2Global(handle->desc, oss.Src().ossDomain));
        outcome += got ? (oss.Src()(pid(op.a))->src != nullptr ? "+attached" : "+ignored") : "-";
      }
      break;
    }
    case K_SAVELOAD: {
      JSON doc;
      ccl::oss::to_json(doc, oss);
      if (op.a == 1) { JSON rev = JSON::array(); for (auto it = doc["items"].rbegin(); it != doc["items"].rend(); ++it) rev.push_back(*it); doc["items"] = rev; }
      if (op.a == 2) {   // connections interleaved by child, children taken in descending id order; the order of one child's two parents (operand order) is kept
        std::map<uint32_t, std::vector<JSON>, std::greater<uint32_t>> byChild;
        for (auto& e : doc["connections"]) byChild[e.at(0).get<uint32_t>()].push_back(e);
        JSON mixed = JSON::array();
        for (size_t round = 0; round < 2; ++round) for (auto& [child, es] : byChild) if (round < es.size()) mixed.push_back(es[round]);
        doc["connections"] = mixed;
      }
      const auto nBefore = oss.size();
      // the old document goes away (its sources are closed by it), a new one is read from the saved text
      w.ossLive = false;
      w.oss.reset();
      w.NewDocument();
      ccl::oss::from_json(JSON::parse(doc.dump()), *w.oss);
      if (c && w.oss->size() != nBefore) c->fail("C19:load-lost-pictograms", "loaded document has a different number of pictograms", std::to_string(w.oss->size()), std::to_string(nBefore));
      break;
    }
    default: break;
    }
    w.Settle();
    if (c) { c->rep.outcome(outcome); }
  }

  // ---------------------------------------------------------------------------------------------------------
  void check_state(World& w, Ctx& c, const std::string& /*histDesc*/) {
    const auto& oss = *w.oss;
    const auto picts = w.Picts();
    const std::set<PictID> live(picts.begin(), picts.end());
    const auto edges = oss.Graph().EdgeList();   // (child, parent)
    // structure
    for (const auto pid : picts) {
      const bool hasOp = oss.Ops()(pid) != nullptr;
      const auto parents = oss.Graph().ParentsOf(pid);
      if (hasOp) {
        if (parents.size() != 2 || parents[0] == parents[1]) c.fail("C19:operation-parents", "operation pictogram does not have exactly two distinct parents", std::to_string(parents.size()));
        for (auto p : parents) if (!live.count(p)) c.fail("C19:operation-parent-missing", "operation pictogram has a parent that does not exist");
      } else if (!parents.empty()) c.fail("C19:base-with-parents", "pictogram without an operation entry has parents");
      if (hasOp != !parents.empty()) c.fail("C19:operation-entry-mismatch", "`operations` has an entry iff the pictogram has parents - violated");
      int cells = 0;
      for (const auto& [pos, who] : oss.Grid().data()) if (who == pid) ++cells;
      if (cells != 1) c.fail("C19:grid-cells", "pictogram does not have exactly one grid cell", std::to_string(cells), "1");
      if (oss.Src()(pid) == nullptr) c.fail("C19:source-handle-missing", "pictogram has no source handle");
      if (oss(pid) == nullptr || oss(pid)->uid != pid) c.fail("C19:storage-uid", "storage entry does not carry its own uid");
      if (!oss.idGen.IsTaken(pid)) c.fail("C19:uid-not-reserved", "live pictogram uid is not reserved in the generator");
    }
    for (const auto& [pos, who] : oss.Grid().data()) if (!live.count(who)) c.fail("C19:grid-ghost", "grid cell refers to a pictogram that does not exist");
    for (const auto& [who, h] : oss.Src().sources) if (!live.count(who)) c.fail("C19:source-ghost", "source handle for a pictogram that does not exist");
    for (const auto& [who, h] : oss.Ops().operations) { if (!live.count(who)) c.fail("C19:operation-ghost", "operation entry for a pictogram that does not exist"); if (h == nullptr) c.fail("C19:operation-null", "null operation handle"); }
    for (const auto who : oss.Graph().items) if (!live.count(who)) c.fail("C19:graph-ghost", "graph facet lists a pictogram that does not exist");
    if (oss.Graph().items.size() != oss.Graph().graph.size()) c.fail("C19:graph-shape", "graph facet: items and adjacency differ in length");
    for (const auto& adj : oss.Graph().graph) for (auto j : adj) if (j >= oss.Graph().items.size()) c.fail("C19:graph-index", "graph facet: adjacency index out of range");
    { // one source is attached to at most one pictogram
      std::set<const ccl::src::Source*> seen;
      for (const auto& [who, h] : oss.Src().sources) if (h.src != nullptr && !seen.insert(h.src).second) c.fail("C19:source-shared", "one source attached to two pictograms");
    }
    { // acyclic parent relation (Kahn)
      std::map<PictID, int> indeg; std::map<PictID, std::vector<PictID>> kids;
      for (auto p : picts) indeg[p] = 0;
      for (const auto& [child, parent] : edges) { indeg[child]++; kids[parent].push_back(child); }
      std::vector<PictID> q; for (auto& [p, d] : indeg) if (d == 0) q.push_back(p);
      size_t done = 0;
      while (!q.empty()) { const auto p = q.back(); q.pop_back(); ++done; for (auto k : kids[p]) if (--indeg[k] == 0) q.push_back(k); }
      if (done != indeg.size()) c.fail("C19:parent-cycle", "the parent relation has a cycle");
    }
    // freshness: outstanding obligations
    for (const auto& [o, how] : w.obligations) {
      const auto st = oss.Ops().StatusOf(o);
      c.rep.count("obligation_checks");
      if (st != ccl::ops::Status::outdated && st != ccl::ops::Status::broken)
        c.fail(std::string("C19:stale-result-reported-current:") + ((how & 1) ? "change-announced-to-listening-oss" : (how & 2) ? "change-written-by-execute-under-dnd-guard" : "parent-result-rewritten-by-execute"), (how & 3) ? "an announced change altered the formal content of a parent's source, the operation has a stored result and was not re-executed, yet it does not report outdated/broken" : "an execution stored a parent's result with different formal content, the operation has a stored result built before that and was not re-executed, yet it does not report outdated/broken",
               "status " + std::to_string(static_cast<int>(st)) + " for pictogram #" + std::to_string(std::lower_bound(picts.begin(), picts.end(), o) - picts.begin()), "5 (outdated) or 7 (broken)");
    }
    c.rep.count("state_checks");
    if (!w.obligations.empty()) c.rep.count("states_with_obligations");
  }

  // ---------------------------------------------------------------------------------------------------------
  std::string key(const World& w) {
    const auto& oss = *w.oss;
    std::string out = w.inert ? "INERT " : "OSS ";
    put(out, oss.title); put(out, oss.comment); put(out, s8(oss.Src().ossDomain)); put(out, static_cast<uint64_t>(oss.Src().disableImport)); put(out, oss.Ops().ossPath);
    { std::vector<PictID> ids(oss.idGen.entities.begin(), oss.idGen.entities.end()); std::sort(ids.begin(), ids.end()); out += "ids{"; for (auto u : ids) out += std::to_string(u) + ","; out += "}"; }
    for (const auto pid : w.Picts()) {
      const auto& p = *oss(pid);
      out += "P["; put(out, p.uid); put(out, static_cast<uint64_t>(p.dataType)); put(out, p.title); put(out, p.alias); put(out, p.comment); put(out, p.lnk.address); put(out, p.lnk.subAddr);
      if (const auto* h = oss.Src()(pid); h != nullptr) {
        out += "src:"; put(out, h->src == nullptr ? std::string("-") : s8(w.mgr->GetDescriptor(*h->src).name));
        put(out, static_cast<uint64_t>(h->desc.type)); put(out, s8(h->desc.name)); put(out, h->coreHash); put(out, h->fullHash);
      } else out += "src:none ";
      if (const auto* o = oss.Ops()(pid); o != nullptr) {
        out += "op:"; put(out, static_cast<uint64_t>(o->type)); put(out, dumpOptions(o->options.get()));
        if (o->translations == nullptr) out += "tr:null "; else { out += "tr:"; for (const auto& t : *o->translations) out += dumpTranslation(t); out += " "; }
        put(out, static_cast<uint64_t>(o->broken)); put(out, static_cast<uint64_t>(o->outdated));
      } else out += "op:none ";
      out += "]";
    }
    { std::vector<std::tuple<int, int, PictID>> cells; for (const auto& [pos, who] : oss.Grid().data()) cells.emplace_back(pos.row, pos.column, who); std::sort(cells.begin(), cells.end());
      out += "grid{"; for (auto& [r, col, who] : cells) out += std::to_string(r) + "," + std::to_string(col) + ":" + std::to_string(who) + ";"; out += "}"; }
    { out += "graph{"; for (size_t i = 0; i < oss.Graph().items.size(); ++i) { out += std::to_string(oss.Graph().items[i]) + "<"; if (i < oss.Graph().graph.size()) for (auto j : oss.Graph().graph[i]) out += std::to_string(j) + ","; out += ";"; } out += "}"; }
    // facet tables that could hold entries for pictograms that do not exist (then the invariant reports it; the key must still see it)
    { std::vector<PictID> v; for (const auto& [who, h] : oss.Src().sources) if (!oss.Contains(who)) v.push_back(who); for (const auto& [who, h] : oss.Ops().operations) if (!oss.Contains(who)) v.push_back(who); std::sort(v.begin(), v.end()); out += "ghosts{"; for (auto u : v) out += std::to_string(u) + ","; out += "}"; }
    out += "ENV ";
    for (const auto& src : w.mgr->sources) {
      out += "S["; put(out, s8(src.fullName)); put(out, static_cast<uint64_t>(src.IsOpened())); put(out, static_cast<uint64_t>(src.IsSaved())); put(out, static_cast<uint64_t>(src.IsClaimed())); put(out, src.announcedCore);
      out += dumpRSForm(src.schema); out += "]";
    }
    out += "MON{"; for (auto& [o, how] : w.obligations) out += std::to_string(o) + ":" + std::to_string(how) + ","; out += "}";
    out += "LC{"; for (auto& [o, h] : w.lastCore) if (w.SourceOf(o) == nullptr) out += std::to_string(o) + ":" + std::to_string(h) + ","; out += "}";
    return out;
  }
};

}  // namespace

// Allocation stacks of 6 frames are enough for attribution and make the allocator-heavy replays ~25% cheaper
// (the driver's ASAN_OPTIONS does not set this option, so the default below applies).
extern "C" const char* __asan_default_options() { return "malloc_context_size=6"; }

int main(int argc, char** argv) {
  Options opt = parse_args(argc, argv);
  const double t0 = now_s();
  Result res; res.property = "C19"; res.harness = "h_oss"; res.mode = opt.mode; res.tier = opt.tier;
  Sys sys;
  int depth = 2;
  if (opt.mode == "full") { sys.kinds = kMaskFull; depth = opt.thorough() ? 3 : 2; }
  else if (opt.mode == "struct") { sys.kinds = kMaskStruct; depth = opt.thorough() ? 4 : 3; }
  else if (opt.mode == "fresh") { sys.kinds = kMaskFresh; depth = opt.thorough() ? 4 : 3; }
  else if (opt.mode == "deep") {   // narrow alphabet, longer histories, on the two seeds with two operation levels
    sys.kinds = bit(K_EXEC) | bit(K_EXEC_ALL) | bit(K_EDIT) | bit(K_ANNOUNCE) | bit(K_SAVELOAD);
    sys.editKinds = (1U << kEditAddBase) | (1U << kEditErase); sys.editFlags = 1; sys.editBasesOnly = true; sys.saveOrders = 1;
    sys.seedMask = 0xC; sys.policies = 1; depth = opt.thorough() ? 4 : 3;
  }
  else if (opt.mode == "closed") {   // documents closed, changed while closed (another session) and re-opened implicitly by an execution or explicitly
    sys.kinds = bit(K_EXEC) | bit(K_EXEC_ALL) | bit(K_EDIT) | bit(K_CLOSE) | bit(K_OPEN);
    sys.editKinds = 0; sys.editFlags = 4; sys.seedMask = 0xC; sys.policies = 1; depth = opt.thorough() ? 4 : 3;
  }
  else { fprintf(stderr, "unknown mode\n"); return 2; }
  depth = static_cast<int>(opt.num("depth", depth));
  sys.seedMask = static_cast<unsigned>(opt.num("seeds", sys.seedMask));
  sys.policies = static_cast<int>(opt.num("policies", sys.policies));
  sys.editKinds = static_cast<unsigned>(opt.num("editkinds", sys.editKinds));
  sys.editFlags = static_cast<unsigned>(opt.num("editflags", sys.editFlags));
  sys.editBasesOnly = opt.num("editbases", sys.editBasesOnly ? 1 : 0) != 0;
  sys.saveOrders = static_cast<int>(opt.num("saveorders", sys.saveOrders));
  sys.maxPicts = static_cast<int>(opt.num("maxpicts", 7));
  sys.maxExtra = static_cast<int>(opt.num("maxextra", 2));
  sys.maxSources = static_cast<int>(opt.num("maxsources", 9));
  sys.richInit = opt.num("richinit", opt.thorough() ? 1 : 0) != 0;
  sys.kinds &= ~static_cast<unsigned>(opt.num("without", 0));

  BfsStats st;
  if (opt.kv.count("bfs-replay")) {
    Ctx c; c.label = "replay";
    Bfs<Sys>::replay_history(sys, opt.kv.at("bfs-replay"), c);
    res.rep = c.rep;
  } else {
    st = Bfs<Sys>::run(sys, opt, depth, res.rep, opt.mode);
  }
  std::string levels; for (auto v : st.level_sizes) levels += (levels.empty() ? "" : ",") + std::to_string(v);
  res.states = st.states; res.transitions = st.transitions; res.traces_validated = st.transitions;
  res.evaluations = res.rep.counters["state_checks"] + st.transitions;
  res.distinct_nontrivial = st.changed;
  res.exhaustive = st.exhaustive;
  res.completed_bound = "all histories of <= " + std::to_string(st.completed_depth) + " operations (requested " + std::to_string(depth) + ") from " + std::to_string(sys.seedsOn()) +
                        " seed states (seed kinds mask " + std::to_string(sys.seedMask) + " x " + std::to_string(sys.policies) + " uid policies); new states per level: " + levels;
  res.alphabet = std::string("pictograms by uid rank; ") +
                 ((sys.kinds & bit(K_INSERT_BASE)) ? "InsertBase; " : "") + ((sys.kinds & bit(K_CONNECT)) ? "ConnectPict2Src(base, new source with schema in {X1 | X1,D1:=X1\\X1 | empty}); " : "") +
                 ((sys.kinds & bit(K_INSERT_OP)) ? "InsertOperation(p,q) all ordered pairs incl. p=q + missing operands; " : "") + ((sys.kinds & bit(K_ERASE)) ? "Erase(p) every pictogram + missing; " : "") +
                 ((sys.kinds & bit(K_INIT)) ? "InitFor(o, merge | synt{1-entry table on the parents' base sets} | synt{42=42}); " : "") + ((sys.kinds & bit(K_EXEC)) ? "Execute(o) every operation + one base; " : "") +
                 ((sys.kinds & bit(K_EXEC_ALL)) ? "ExecuteAll; " : "") + ((sys.kinds & bit(K_EDIT)) ? "Edit(p, {" + std::string((sys.editKinds & 1) ? "add base set " : "") + ((sys.editKinds & 2) ? "| add term " : "") + ((sys.editKinds & 4) ? "| erase first own constituent " : "") + ((sys.editKinds & 8) ? "| change a term text only" : "") + ((sys.editKinds & 16) ? " | add two terms to an operation's result, the first listed mentions the second" : "") + ((sys.editFlags & 4) ? " | add a base set to the CLOSED document of a base pictogram (stored by another session, unannounced)" : "") + "}) x {" +
                   ((sys.editFlags & 1) ? "pending " : "") + ((sys.editFlags & 2) ? "announced" : "") + "} on every attached source" + (sys.editBasesOnly ? " of a base pictogram; " : " incl. operation results (= user additions); ") : std::string()) +
                 ((sys.kinds & bit(K_ANNOUNCE)) ? "Announce(p)=SaveState; " : "") + ((sys.kinds & bit(K_CLOSE)) ? "Close(p); " : "") + ((sys.kinds & bit(K_OPEN)) ? "Open(p); " : "") +
                 ((sys.kinds & bit(K_SAVELOAD)) ? (sys.saveOrders > 1 ? "save->load of the whole document via JSON (items as stored | reversed | connections interleaved by child); " : "save->load of the whole document via JSON; ") : "") +
                 "limits: <= " + std::to_string(sys.maxPicts) + " pictograms, <= seed+" + std::to_string(sys.maxExtra) + " insertions, <= " + std::to_string(sys.maxSources) + " documents";
  res.rule = "state = exact canonical dump of OSSchema (all five pictogram-keyed tables, graph facet in index order, handles, options, translations, flags, uid generator) + every document of the environment "
             "(flags + exact RSForm dump) + outstanding freshness obligations; de-duplicated on its 128-bit hash; invariants evaluated in every state, transition checks on every transition; "
             "non-trivial = transition that changed the key";
  res.assumptions = { "environment = model/fake_sources.hpp (announces exactly on SaveState/Close of a dirty document; smallest-free-index names)",
                      "uid policies: ascending (max+1) and descending (min-1) via hook H1", "announcements issued while no document object exists (tear-down on save->load) are not counted",
                      "clang 14 + libstdc++ 12, ASan+UBSan, asserts on" };
  res.extra["x_level_sizes"] = "[" + levels + "]";
  res.wall_s = now_s() - t0;
  res.write(opt.out.empty() ? "/dev/stdout" : opt.out);
  return 0;
}
