// C07 / C09 / C10 (schema part) / C08 (schema layer) — explicit-state BFS over RSForm operation histories (engine E2).
// modes:
//   incr    C07  after every reached state: every constituent's GetParse fields, Graph().InputsFor and (term graph acyclic)
//                resolved term / definition text == a FRESH schema built from the same content (FromJSON(ToMinimalJSON(live)));
//                whole document JSON(live) == JSON(fresh)
//   ident   C09  wider identity alphabet; structural invariants in every state; refusal => exact key unchanged;
//                erased constituent gone from every view; tracked constituents protected
//   json    C10  every reached state: j1=ToJSON(o), o'=FromJSON(j1), j2=ToJSON(o'): j2==j1 as JSON values, field-by-field
//                content, pyconcept::CheckSchema path (skipResolving) ; content families: non-ASCII, incorrect, 0-3 manual forms,
//                16 tracking-flag combinations
//   rename  C08  layer 2: every renaming operation (SetAliasFor with substitution, ResetAliases) applied in every reached
//                state: new schema == old schema up to the renaming (own whole-identifier renamer, model/schema_ref.hpp)
// Operations address constituents by list index; OpRec{k,a,b,c} indices refer to GLOBAL tables (profile independent),
// so a recorded history replays without knowing the profile that produced it.
#include "engine/mc.hpp"
#include "model/uid_policy.hpp"
#include "model/schema_ref.hpp"

#include "ccl/semantic/RSForm.h"
#include "ccl/api/RSFormJA.h"
#include "ccl/tools/JSON.h"
#include "ccl/lang/TextEnvironment.h"
#include "ccl/rslang/SyntaxTree.h"

#include <optional>

using namespace mc;
using ccl::EntityUID;
using ccl::semantic::ConceptRecord;
using ccl::semantic::CstType;
using ccl::semantic::ParsingStatus;
using ccl::semantic::RSForm;
using ccl::semantic::TrackingFlags;
using JV = nlohmann::json;  // std::map based: object key order irrelevant, array order significant

namespace {

// ------------------------------------------------------------------------------------------------------------------
// global tables (indices are part of recorded histories: append only)
const std::vector<CstType> kKinds = { CstType::base, CstType::term, CstType::function, CstType::axiom,
                                      CstType::constant, CstType::structured, CstType::theorem, CstType::predicate };
const char* const kKindName[] = { "base", "term", "function", "axiom", "constant", "structured", "theorem", "predicate" };
char letterOf(CstType t) {
  switch (t) { case CstType::base: return 'X'; case CstType::constant: return 'C'; case CstType::structured: return 'S'; case CstType::axiom: return 'A';
    case CstType::term: return 'D'; case CstType::function: return 'F'; case CstType::theorem: return 'T'; case CstType::predicate: return 'P'; default: return '?'; }
}
int groupOf(CstType t) { return t == CstType::base ? 0 : t == CstType::constant ? 1 : t == CstType::structured ? 2 : 3; }

const std::vector<std::string> kDefs = {
  /*0*/ "", /*1*/ "X1", /*2*/ "D1", /*3*/ "D2", /*4*/ "D1\xE2\x88\xAAX1", /*5*/ "X1\\X1", /*6*/ " X1 ", /*7*/ "D1\xE2\x88\xAA" "D2",
  /*8*/ "\xE2\x84\xAC(X1)", /*9*/ "X9", /*10*/ "(((", /*11*/ "1=1", /*12*/ "[a\xE2\x88\x88X1] {a}", /*13*/ "F1[X1]",
  /*14*/ "X1\xE2\x88\xAAX1", /*15*/ "[a\xE2\x88\x88X1] a=a", /*16*/ "D2\xE2\x88\xAAX1", /*17*/ "X2",
  /*18*/ "\xE2\x88\x80" "a\xE2\x88\x88X1 a<a", /*19*/ "{1}\xE2\x88\xAAX1",   // well-typed exactly when X1 is a constant set (element traits: ordered / converts from integer)
};
// name classes for SetAliasFor, relative to the letter L of the target's kind
std::string nameFor(char L, int cls) {
  switch (cls) {
    case 0: return std::string(1, L) + "7";                 // fresh, never mentioned
    case 1: return std::string(1, L) + "1";                 // existing or mentioned-but-missing (state dependent)
    case 2: return std::string(1, L) + "2";
    case 3: return std::string(1, L) + "9";                 // X9 is mentioned (and missing) in the definition alphabet
    case 4: return L == 'X' ? "D7" : "X7";                  // well-formed, wrong letter for the kind
    case 5: return "Q7";                                    // ill-formed
    case 6: return "";                                      // empty
    case 7: return std::string(1, L) + "3";
    case 8: return std::string(1, L) + "11";                // longer than the usual names, and the old name is a prefix of it
    default: return "Z0";
  }
}
std::string nameDesc(int cls) { static const char* d[] = { "<L>7", "<L>1", "<L>2", "<L>9", "<other-letter>7", "Q7", "", "<L>3", "<L>11" }; return cls >= 0 && cls < 9 ? d[cls] : "?"; }
const std::vector<std::string> kTexts = {
  /*0*/ "", /*1*/ "t", /*2*/ "@{X1|nomn}", /*3*/ "@{D1|nomn}", /*4*/ "@{D2|nomn} \xCE\xB2", /*5*/ "\xD1\x82\xD0\xB5\xD1\x80\xD0\xBC \xE2\x84\xAC",
  /*6*/ "@{X1|plur}", /*7*/ "@{X9|nomn}", /*8*/ "@{X7|nomn} X1",
};
const std::vector<std::string> kConvs = { /*0*/ "", /*1*/ "c", /*2*/ "X1 D1 \xCE\xBE", /*3*/ "X7 \xD0\xB6" };
const std::vector<std::string> kForms = { /*0*/ "plur", /*1*/ "sing,gent", /*2*/ "plur,datv" };
const std::vector<std::string> kFormTexts = { /*0*/ "f", /*1*/ "\xD1\x84\xD0\xBE\xD1\x80\xD0\xBC\xD0\xB0" };

enum OpK { EMPLACE = 1, ERASE, SETEXPR, SETALIAS, SETTERM, SETTEXT, SETCONV, MOVE, INSBULK, RESET,
           INSREC, INSFROM, INSFROMBULK, LOAD, TRACK, UNTRACK, MERGE, DELDUP, SETFORM, UPDATE, SETTYPE };

// ------------------------------------------------------------------------------------------------------------------
struct Obj {
  RSForm form;
  int policy{ 0 };
  int depth{ 0 };
};

std::vector<EntityUID> listOf(const RSForm& f) { return { f.core.cstList.order.begin(), f.core.cstList.order.end() }; }

std::string typeStr(const ccl::semantic::ParsingInfo& p) {
  if (!p.exprType.has_value()) return "";
  if (std::holds_alternative<ccl::rslang::LogicT>(*p.exprType)) return "LOGIC";
  return std::get<ccl::rslang::Typification>(*p.exprType).ToString();
}

void put(std::string& k, const std::string& s) { k += std::to_string(s.size()); k += ':'; k += s; k += ';'; }
void putn(std::string& k, long long v) { k += std::to_string(v); k += ','; }

void dumpAst(std::string& k, ccl::rslang::SyntaxTree::Cursor c) {
  k += '['; putn(k, static_cast<int>(c->id)); putn(k, c->pos.start); putn(k, c->pos.finish); put(k, c->ToString());
  for (ccl::rslang::Index i = 0; i < c.ChildrenCount(); ++i) dumpAst(k, c.Child(i));
  k += ']';
}
void dumpGraph(std::string& k, const ccl::graph::UpdatableGraph& g) {
  k += "G{"; putn(k, g.invalid ? 1 : 0);
  for (auto& v : g.graph) { putn(k, v.uid); putn(k, v.isValid ? 1 : 0); k += "i"; for (auto x : v.inputs) putn(k, x); k += "o"; for (auto x : v.outputs) putn(k, x); k += ';'; }
  std::vector<std::pair<EntityUID, int>> vs(g.verticies.begin(), g.verticies.end()); std::sort(vs.begin(), vs.end());
  k += "V"; for (auto& [u, i] : vs) { putn(k, u); putn(k, i); }
  k += "}";
}
template <class M> void dumpForms(std::string& k, const M& forms) {
  std::vector<std::pair<std::string, std::string>> v; for (auto& [m, t] : forms) v.emplace_back(m.ToString(), t); std::sort(v.begin(), v.end());
  k += "F("; for (auto& [m, t] : v) { put(k, m); put(k, t); } k += ")";
}

// EXACT canonical dump (appendix D). normDefs: formal definitions with blanks removed (only used by the
// "SetExpressionFor minor change" clause, never for de-duplication).
std::string dumpKey(const Obj& o, bool normDefs = false) {
  const auto& f = o.form; const auto& core = f.core; std::string k;
  putn(k, o.policy); put(k, f.title); put(k, f.alias); put(k, f.comment);
  k += "L["; for (auto u : core.cstList.order) putn(k, u); k += "]";
  k += "S["; for (auto& [u, c] : core.schema.storage) {
    putn(k, u); putn(k, c.uid); put(k, c.alias); putn(k, static_cast<int>(c.type));
    if (normDefs) { std::string d; for (char ch : c.definition) if (ch != ' ' && ch != '\t' && ch != '\n') d += ch; put(k, d); } else put(k, c.definition);
    put(k, c.convention); } k += "]";
  { std::vector<EntityUID> ids; for (auto& [u, _] : core.schema.info) ids.push_back(u); std::sort(ids.begin(), ids.end());
    k += "I["; for (auto u : ids) { const auto& p = core.schema.info.at(u); putn(k, u); putn(k, static_cast<int>(p.status)); put(k, typeStr(p));
      k += "a("; if (p.arguments.has_value()) { k += "+"; for (auto& a : *p.arguments) { put(k, a.name); put(k, a.type.ToString()); } } k += ")";
      putn(k, static_cast<int>(p.valueClass));
      if (p.ast != nullptr) dumpAst(k, p.ast->Root()); else k += "noast;"; } k += "]"; }
  k += "T["; for (auto& [u, t] : core.thesaurus.storage) {
    putn(k, u); putn(k, t.uid); put(k, t.alias); put(k, t.term.text.rawText); put(k, t.term.text.cache);
    dumpForms(k, t.term.manualForms); dumpForms(k, t.term.cachedForms); put(k, t.definition.rawText); put(k, t.definition.cache); } k += "]";
  { std::vector<std::pair<EntityUID, int>> cv; for (auto& [u, fl] : f.mods->cvs) cv.emplace_back(u, (fl.allowEdit ? 1 : 0) | (fl.term ? 2 : 0) | (fl.definition ? 4 : 0) | (fl.convention ? 8 : 0));
    std::sort(cv.begin(), cv.end()); k += "M["; for (auto& [u, fl] : cv) { putn(k, u); putn(k, fl); } k += "]"; }
  { std::vector<EntityUID> ids(core.identifiers.idGenerator.entities.begin(), core.identifiers.idGenerator.entities.end()); std::sort(ids.begin(), ids.end());
    k += "U["; for (auto u : ids) putn(k, u); k += "]";
    std::vector<std::string> ns(core.identifiers.aliasGenerator.names.begin(), core.identifiers.aliasGenerator.names.end()); std::sort(ns.begin(), ns.end());
    k += "N["; for (auto& n : ns) put(k, n); k += "]"; }
  dumpGraph(k, core.schema.graph); dumpGraph(k, core.thesaurus.termGraph); dumpGraph(k, core.thesaurus.defGraph);
  return k;
}

// ------------------------------------------------------------------------------------------------------------------
// observable content through the public API (calls Graph() etc. -> only on objects that are not replayed further)
struct CstObs {
  EntityUID uid{}; std::string alias; CstType kind{}; std::string def, conv, termRaw, termStr, textRaw, textStr;
  std::map<std::string, std::string> forms;
  int status{ 0 }; std::string type; bool hasArgs{ false }; std::vector<std::pair<std::string, std::string>> args; int vclass{ 0 }; std::string ast;
  std::set<EntityUID> inputs, termInputs, textInputs; int track{ -1 };
};
struct Obs { std::string title, alias, comment; std::vector<CstObs> items; const CstObs* find(EntityUID u) const { for (auto& c : items) if (c.uid == u) return &c; return nullptr; } };

Obs observe(const RSForm& f) {
  Obs o; o.title = f.title; o.alias = f.alias; o.comment = f.comment;
  for (const auto uid : f.List()) {
    CstObs c; c.uid = uid;
    if (!f.Contains(uid)) { c.alias = "<not in core>"; o.items.push_back(c); continue; }
    const auto& rs = f.GetRS(uid); const auto& tx = f.GetText(uid); const auto& p = f.GetParse(uid);
    c.alias = rs.alias; c.kind = rs.type; c.def = rs.definition; c.conv = rs.convention;
    c.termRaw = tx.term.Text().Raw(); c.termStr = tx.term.Nominal(); c.textRaw = tx.definition.Raw(); c.textStr = tx.definition.Str();
    for (auto& [m, t] : tx.term.GetAllManual()) c.forms[m.ToString()] = t;
    c.status = static_cast<int>(p.status); c.type = typeStr(p); c.vclass = static_cast<int>(p.valueClass);
    if (p.arguments.has_value()) { c.hasArgs = true; for (auto& a : *p.arguments) c.args.emplace_back(a.name, a.type.ToString()); }
    if (p.ast != nullptr) c.ast = ccl::rslang::AST2String::Apply(*p.ast);
    for (auto u : f.RSLang().Graph().InputsFor(uid)) c.inputs.insert(u);
    for (auto u : f.Texts().TermGraph().InputsFor(uid)) c.termInputs.insert(u);
    for (auto u : f.Texts().DefGraph().InputsFor(uid)) c.textInputs.insert(u);
    if (const auto* fl = f.Mods()(uid); fl != nullptr) c.track = (fl->allowEdit ? 1 : 0) | (fl->term ? 2 : 0) | (fl->definition ? 4 : 0) | (fl->convention ? 8 : 0);
    o.items.push_back(std::move(c));
  }
  return o;
}
std::string statusName(int s) { return s == 1 ? "VERIFIED" : s == 2 ? "INCORRECT" : "UNKNOWN"; }
std::string setStr(const std::set<EntityUID>& s) { std::string r = "{"; for (auto u : s) r += std::to_string(u) + " "; return r + "}"; }
std::string argStr(const CstObs& c) { if (!c.hasArgs) return "-"; std::string r; for (auto& [n, t] : c.args) r += n + ":" + t + ";"; return r; }

// the library's own serialisation, called on the live object (no copy): RSFormJA owns a unique_ptr, so lend and take back
std::string libJSON(const RSForm& f, bool minimal) {
  ccl::api::RSFormJA ja; ja.schema.reset(const_cast<RSForm*>(&f));
  std::string s;
  try { s = minimal ? ja.ToMinimalJSON() : ja.ToJSON(); } catch (...) { ja.schema.release(); throw; }
  ja.schema.release();
  return s;
}

// structural diff of two JSON values: generalised paths (array indices -> *) plus the concrete first path
void jdiff(const JV& a, const JV& b, const std::string& path, std::vector<std::string>& out, size_t cap = 40) {
  if (out.size() >= cap) return;
  if (a.type() != b.type()) { out.push_back(path); return; }
  if (a.is_object()) {
    std::set<std::string> keys; for (auto it = a.begin(); it != a.end(); ++it) keys.insert(it.key()); for (auto it = b.begin(); it != b.end(); ++it) keys.insert(it.key());
    for (auto& k : keys) { if (!a.contains(k) || !b.contains(k)) out.push_back(path + "/" + k); else jdiff(a.at(k), b.at(k), path + "/" + k, out, cap); }
  } else if (a.is_array()) {
    if (a.size() != b.size()) { out.push_back(path + "/#size"); return; }
    for (size_t i = 0; i < a.size(); ++i) jdiff(a[i], b[i], path + "/" + std::to_string(i), out, cap);
  } else if (a != b) out.push_back(path);
}
std::string generalise(const std::string& p) { std::string r; size_t i = 0; while (i < p.size()) { if (p[i] == '/' && i + 1 < p.size() && isdigit(static_cast<unsigned char>(p[i + 1]))) { r += "/*"; ++i; while (i < p.size() && isdigit(static_cast<unsigned char>(p[i]))) ++i; } else r += p[i++]; } return r; }
int itemIndexOf(const std::string& p) { if (p.rfind("/items/", 0) != 0) return -1; return atoi(p.c_str() + 7); }
void stripResolved(JV& v) {
  if (v.is_object()) { v.erase("resolved"); for (auto it = v.begin(); it != v.end(); ++it) stripResolved(it.value()); }
  else if (v.is_array()) for (auto& x : v) stripResolved(x);
}

// which constituents lie on / downstream of a cycle of a dependency relation (inputs per uid)
struct CycleInfo { std::set<EntityUID> on, affected; };
CycleInfo cyclesOf(const Obs& o, std::set<EntityUID> CstObs::*inputs) {
  std::map<EntityUID, std::set<EntityUID>> succ;  // input -> dependants
  for (auto& c : o.items) { succ[c.uid]; for (auto u : c.*inputs) succ[u].insert(c.uid); }
  CycleInfo ci; ci.on = sref::on_cycle(succ); ci.affected = sref::reach(succ, ci.on); return ci;
}

// ------------------------------------------------------------------------------------------------------------------
struct Alpha {
  std::string name;
  std::vector<int> kinds, defs, exprDefs, names, subst{ 1, 0 }, termTexts, defTexts, convs, bulks;
  bool erase{ true }, move{ true }, reset{ true };
  std::vector<int> recUid, recAlias, recKind, fromOther, fromOtherBulk, loads, trackFlags, merges; bool untrack{ false }, deldup{ false }, update{ false };
  std::vector<int> forms, formTexts;
  std::vector<int> typeKinds;   // Schema::SetTypeFor (kind change; public on Schema only, reached through the private members)
  int maxLive{ 4 };
  int seedSchemas{ 4 };   // prefix of the mode's seed list
  std::string describe() const {
    auto lst = [](const std::vector<int>& v, const std::vector<std::string>* tab) { std::string s; for (int i : v) { s += (s.empty() ? "" : " | "); s += tab ? "'" + (*tab)[static_cast<size_t>(i)] + "'" : std::to_string(i); } return s; };
    std::string s = "profile " + name + ": Emplace kinds{"; for (int k : kinds) s += std::string(kKindName[k]) + " "; s += "} x defs{" + lst(defs, &kDefs) + "}";
    s += "; SetExpressionFor defs{" + lst(exprDefs, &kDefs) + "}; SetAliasFor name classes{" + lst(names, nullptr) + "} x substitute{" + lst(subst, nullptr) + "}";
    s += "; SetTermFor{" + lst(termTexts, &kTexts) + "}; SetDefinitionFor{" + lst(defTexts, &kTexts) + "}; SetConventionFor{" + lst(convs, &kConvs) + "}";
    s += std::string("; Erase:") + (erase ? "y" : "n") + " MoveBefore:" + (move ? "all (i,j<=end)" : "n") + " ResetAliases:" + (reset ? "y" : "n") + "; bulk InsertCopy variants{" + lst(bulks, nullptr) + "}";
    if (!recUid.empty()) s += "; InsertCopy(record) uid classes{" + lst(recUid, nullptr) + "} x alias classes{" + lst(recAlias, nullptr) + "} x kinds{" + lst(recKind, nullptr) + "}";
    if (!fromOther.empty()) s += "; InsertCopy(from other schema){" + lst(fromOther, nullptr) + "} bulk{" + lst(fromOtherBulk, nullptr) + "}";
    if (!loads.empty()) s += "; Load{" + lst(loads, nullptr) + "}" + (update ? " UpdateState" : "");
    if (!trackFlags.empty()) s += "; Track flags{" + lst(trackFlags, nullptr) + "}" + (untrack ? " StopTracking" : "");
    if (!merges.empty()) s += "; MergeWith{" + lst(merges, nullptr) + "}"; if (deldup) s += "; DeleteDuplicates";
    if (!forms.empty()) s += "; SetTermFormFor forms{" + lst(forms, &kForms) + "} x texts{" + lst(formTexts, &kFormTexts) + "}";
    if (!typeKinds.empty()) { s += "; Schema::SetTypeFor kinds{"; for (int k : typeKinds) s += std::string(kKindName[k]) + " "; s += "}"; }
    s += "; <= " + std::to_string(maxLive) + " live constituents; uid policy {ascending, descending} x " + std::to_string(seedSchemas) + " seed schemas";
    return s;
  }
};

std::vector<int> range(int n) { std::vector<int> v; for (int i = 0; i < n; ++i) v.push_back(i); return v; }

Alpha profileFor(const std::string& mode, char level) {
  Alpha a; a.name = mode + "-" + std::string(1, level);
  if (mode == "incr" || mode == "rename") {
    if (level == 'W') {        // DESIGN C07 alphabet
      a.kinds = { 0, 1, 2, 3 }; a.defs = range(14); a.exprDefs = range(14); a.names = { 0, 1, 2, 3, 4 };
      a.termTexts = { 0, 1, 2, 3, 4 }; a.defTexts = { 0, 1, 2, 3, 4 }; a.convs = { 0, 2 }; a.bulks = { 0, 1 };
      a.recUid = { 0 }; a.recAlias = { 0, 5 }; a.recKind = { 0, 1 };   // single-record InsertCopy (its own code path: Schema::Insert)
      if (mode == "incr") a.seedSchemas = 5;
    } else if (level == 'M') { // one representative per shortcut
      a.kinds = { 0, 1, 2 }; a.defs = { 0, 1, 2, 4, 12 }; a.exprDefs = { 1, 2, 3, 4, 6, 9, 13 }; a.names = { 0, 2 };
      a.termTexts = { 2, 3 }; a.defTexts = { 3 }; a.convs = { 2 }; a.bulks = { 0 }; a.seedSchemas = 4;
      a.recUid = { 0 }; a.recAlias = { 5 }; a.recKind = { 0, 1 };
      if (mode == "incr") a.seedSchemas = 5;
    } else if (level == 'T') { // kind changes: what other constituents may do with the elements of a set depends on its kind
      a.kinds = { 0, 1, 3 }; a.defs = { 0, 1, 18, 19 }; a.exprDefs = { 1, 18, 19 }; a.names = { 2 }; a.subst = { 1 };
      a.termTexts = {}; a.defTexts = {}; a.convs = {}; a.bulks = {}; a.move = false; a.seedSchemas = 2;
      a.typeKinds = { 0, 4, 1, 5 };   // base, constant, term, structured (no LOGIC-typed kinds: see assumptions)
    } else {                   // 'N': deep and narrow
      a.kinds = { 1 }; a.defs = { 1, 4 }; a.exprDefs = { 1, 3, 4 }; a.names = { 2 }; a.subst = { 0 };
      a.termTexts = { 3 }; a.defTexts = {}; a.convs = {}; a.bulks = {}; a.move = false; a.seedSchemas = 2;
    }
    if (mode == "rename") {    // renaming always with substitution too; names that may be mentioned-but-missing
      a.names = level == 'W' ? std::vector<int>{ 0, 2, 3, 4, 8 } : std::vector<int>{ 0, 2, 3 };
      a.subst = { 1, 0 };
      if (level != 'W') { a.convs = { 2 }; a.termTexts = { 2, 7 }; a.defTexts = { 3 }; }
      else { a.convs = { 0, 2, 3 }; a.termTexts = { 0, 1, 2, 3, 7, 8 }; a.defTexts = { 0, 2, 3, 7 }; }
    }
  } else if (mode == "ident") {
    a.maxLive = 5; a.seedSchemas = 3;
    if (level == 'W') {
      a.kinds = range(8); a.defs = { 0, 1, 11 }; a.exprDefs = { 1, 2, 6, 11 }; a.names = { 0, 1, 2, 4, 5, 6 }; a.termTexts = { 1 }; a.defTexts = {}; a.convs = { 1 };
      a.bulks = { 0, 1, 2 }; a.recUid = { 0, 1 }; a.recAlias = { 0, 1, 2, 3, 4 }; a.recKind = { 0, 1 }; a.fromOther = { 0, 1 }; a.fromOtherBulk = { 0, 1 };
      a.loads = { 0, 1 }; a.update = true; a.trackFlags = { 0, 1 }; a.untrack = true; a.merges = { 0, 1 }; a.deldup = true;
    } else if (level == 'M') {
      a.kinds = { 0, 1, 4, 5, 3 }; a.defs = { 0, 1 }; a.exprDefs = { 1 }; a.names = { 0, 1, 5 }; a.subst = { 1 }; a.termTexts = {}; a.defTexts = {}; a.convs = {};
      a.bulks = { 2 }; a.recUid = { 1 }; a.recAlias = { 1, 3 }; a.recKind = { 0 }; a.fromOther = { 0 }; a.fromOtherBulk = { 0 };
      a.loads = { 1 }; a.update = true; a.trackFlags = { 0 }; a.untrack = true; a.merges = { 0 }; a.deldup = true;
    } else {
      a.kinds = { 0, 4, 1 }; a.defs = { 0 }; a.exprDefs = {}; a.names = { 1 }; a.subst = { 1 }; a.termTexts = {}; a.defTexts = {}; a.convs = {};
      a.bulks = {}; a.recUid = { 1 }; a.recAlias = { 1 }; a.recKind = { 0 }; a.trackFlags = { 0 }; a.deldup = true; a.seedSchemas = 2; a.maxLive = 4;
    }
  } else {  // json
    a.seedSchemas = 4;
    if (level == 'W') {
      a.kinds = { 0, 1, 2, 3, 5 }; a.defs = { 0, 1, 4, 8, 9, 10, 11, 12 }; a.exprDefs = { 1, 4, 6, 9, 10, 13 }; a.names = { 0, 2 };
      a.termTexts = { 0, 2, 5, 6 }; a.defTexts = { 3, 5 }; a.convs = { 0, 3 }; a.bulks = { 1 };
      a.trackFlags = range(16); a.untrack = true; a.forms = { 0, 1, 2 }; a.formTexts = { 0, 1 };
    } else {
      a.kinds = { 1 }; a.defs = { 1, 9 }; a.exprDefs = { 4 }; a.names = { 2 }; a.subst = { 1 };
      a.termTexts = { 6 }; a.defTexts = {}; a.convs = {}; a.bulks = {}; a.move = false; a.reset = false;
      a.trackFlags = { 5, 10 }; a.forms = { 0, 1, 2 }; a.formTexts = { 1 }; a.seedSchemas = 3;
    }
  }
  return a;
}

ConceptRecord mkRec(EntityUID uid, const std::string& alias, CstType t, const std::string& rs, const std::string& term = "", const std::string& text = "", const std::string& conv = "") {
  ConceptRecord r; r.uid = uid; r.alias = alias; r.type = t; r.rs = rs; r.convention = conv; r.term = ccl::lang::LexicalTerm{ term }; r.definition = ccl::lang::ManagedText{ text }; return r;
}
std::vector<ConceptRecord> bulkVariant(int v) {
  const std::string U = "\xE2\x88\xAA";
  switch (v) {
    case 0: return { mkRec(50, "D1", CstType::term, "X1"), mkRec(51, "D2", CstType::term, "D1" + U + "X1", "@{D1|nomn}") };       // aliases collide with the seeds: internal reference must follow
    case 1: return { mkRec(60, "X1", CstType::base, "", "\xD0\xB1\xD0\xB0\xD0\xB7\xD0\xB0"), mkRec(61, "D1", CstType::term, "X1", "@{X1|nomn}", "@{D1|nomn}") };
    default: return { mkRec(70, "D5", CstType::term, "X1"), mkRec(70, "D5", CstType::term, "D5"), mkRec(71, "X5", CstType::term, "X1") };  // internal uid + alias collision, wrong letter
  }
}

// ------------------------------------------------------------------------------------------------------------------
struct SchemaSys {
  using Obj = ::Obj;
  using Op = mc::OpRec;
  std::string mode; std::string pid;  // property id prefix for signatures
  Alpha al;
  int finalOnlyRenamesAt{ -1 };       // rename mode: at this depth only renaming operations are enabled
  bool requery_parent{ false };       // incr mode: state battery on the parent state of the same object before the last operation (stale caches)

  int seeds() const { return al.seedSchemas * 2; }

  void buildSeed(RSForm& f, int schema) const {
    const std::string U = "\xE2\x88\xAA";
    if (mode == "incr" || mode == "rename") {
      switch (schema) {
        case 0: break;
        case 1: f.Emplace(CstType::base); f.Emplace(CstType::term, "X1"); f.Emplace(CstType::term, "D1" + U + "X1"); f.Emplace(CstType::axiom, "\xE2\x88\x80" "a\xE2\x88\x88X1 a\xE2\x88\x88" "D2"); break;
        case 2: f.Emplace(CstType::base); f.Emplace(CstType::term, "D2" + U + "X1"); f.Emplace(CstType::term, "X9"); break;   // forward reference + incorrect member
        case 4: f.Emplace(CstType::base); f.Emplace(CstType::term, "D3"); f.Emplace(CstType::term, "D1"); f.Emplace(CstType::term, "D2"); break;   // definition cycle of three (repairable at any member)
        default: { const auto x = f.Emplace(CstType::base); const auto d = f.Emplace(CstType::term, "X1");                      // term texts reference each other
          f.SetTermFor(x, "@{D1|nomn}"); f.SetTermFor(d, "@{X1|nomn} b"); f.SetDefinitionFor(d, "@{X1|nomn}"); f.SetConventionFor(x, "X1 D1 \xCE\xBE"); break; }
      }
    } else if (mode == "ident") {
      switch (schema) {
        case 0: break;
        case 1: f.Emplace(CstType::base); f.Emplace(CstType::constant); f.Emplace(CstType::structured, "\xE2\x84\xAC(X1)"); f.Emplace(CstType::term, "X1"); break;
        default: { f.Emplace(CstType::base); const auto d1 = f.Emplace(CstType::term, "X1"); const auto d2 = f.Emplace(CstType::term, "D1");
          f.Mods().Track(d1, TrackingFlags{}); TrackingFlags e{}; e.allowEdit = true; f.Mods().Track(d2, e); break; }
      }
    } else {  // json
      f.title = "\xD0\xA1\xD1\x85\xD0\xB5\xD0\xBC\xD0\xB0 \"1\""; f.alias = "\xCE\xA3" "1"; f.comment = "line1\nline2\t\xE2\x84\xAC\\";
      switch (schema) {
        case 0: break;
        case 1: { const auto x = f.Emplace(CstType::base); const auto d = f.Emplace(CstType::term, "X1" + U + "X1"); f.Emplace(CstType::term, "X9"); f.Emplace(CstType::axiom, "(((");   // incorrect, unused name
          f.SetTermFor(x, "\xD1\x82\xD0\xB5\xD1\x80\xD0\xBC"); f.SetConventionFor(x, "\xD0\xBA\xD0\xBE\xD0\xBD\xD0\xB2 X1"); f.SetTermFor(d, "@{X1|plur} \xCE\xB4"); f.SetDefinitionFor(d, "\xD0\xBE\xD0\xBF\xD1\x80 @{X1|nomn}"); break; }
        case 3: { const auto x = f.Emplace(CstType::base); const auto d = f.Emplace(CstType::term, "X1");                      // term texts reference each other (C07 seed)
          f.SetTermFor(x, "@{D1|nomn}"); f.SetTermFor(d, "@{X1|nomn} b"); f.SetDefinitionFor(d, "@{X1|nomn}"); break; }
        default: { const auto x = f.Emplace(CstType::base); const auto d = f.Emplace(CstType::term, "X1");
          f.SetTermFor(x, "a"); f.SetTermFormFor(x, "b", ccl::lang::Morphology{ "plur" }); f.SetTermFormFor(x, "c", ccl::lang::Morphology{ "sing,gent" });
          f.SetTermFor(d, "@{X1|plur}"); f.SetTermFormFor(d, "p", ccl::lang::Morphology{ "plur" }); f.SetTermFormFor(d, "q", ccl::lang::Morphology{ "sing,gent" }); f.SetTermFormFor(d, "r", ccl::lang::Morphology{ "plur,datv" });
          TrackingFlags t{}; t.allowEdit = true; t.definition = true; f.Mods().Track(d, t); break; }
      }
    }
  }

  std::unique_ptr<Obj> fresh(int seed) {
    ccl::lang::TextEnvironment::Instance().skipResolving = false;
    ccl::lang::TextEnvironment::SetProcessor(std::make_unique<ccl::lang::TextProcessor>());
    auto o = std::make_unique<Obj>(); o->policy = seed % 2; uidpolicy::install(o->policy);
    buildSeed(o->form, seed / 2);
    return o;
  }

  // second schema for InsertCopy(from) / MergeWith; built deterministically at every use
  static void buildOther(RSForm& g, int variant) {
    if (variant == 0) {  // uids from the installed policy: collide with the target's uids; aliases collide too
      const auto x = g.Emplace(CstType::base); const auto d = g.Emplace(CstType::term, "X1"); g.SetTermFor(d, "@{X1|nomn}"); (void)x;
    } else {             // distinct uids, one colliding alias, internal references
      g.InsertCopy(mkRec(500, "X1", CstType::base, "")); g.InsertCopy(mkRec(501, "D4", CstType::term, "X1")); g.InsertCopy(mkRec(502, "A4", CstType::axiom, "D4=X1"));
    }
  }

  std::vector<Op> enabled(const Obj& o) {
    std::vector<Op> ops; const auto lst = listOf(o.form); const int n = static_cast<int>(lst.size());
    auto kindAt = [&](int i) { return o.form.Contains(lst[static_cast<size_t>(i)]) ? o.form.GetRS(lst[static_cast<size_t>(i)]).type : CstType::base; };
    auto add = [&](int k, int a = 0, int b = 0, int c = 0) { ops.push_back(Op{ k, a, b, c }); };
    const bool renamesOnly = finalOnlyRenamesAt >= 0 && o.depth >= finalOnlyRenamesAt;
    if (renamesOnly) {
      for (int i = 0; i < n; ++i) for (int nm : { 0, 2, 3, 8 }) add(SETALIAS, i, nm, 1);
      add(RESET);
      return ops;
    }
    if (n < al.maxLive) for (int k : al.kinds) for (int d : al.defs) add(EMPLACE, k, d);
    if (al.erase) for (int i = 0; i < n; ++i) add(ERASE, i);
    for (int i = 0; i < n; ++i) for (int d : al.exprDefs) add(SETEXPR, i, d);
    for (int i = 0; i < n; ++i) for (int nm : al.names) for (int s : al.subst) add(SETALIAS, i, nm, s);
    for (int i = 0; i < n; ++i) for (int t : al.termTexts) add(SETTERM, i, t);
    for (int i = 0; i < n; ++i) for (int t : al.defTexts) add(SETTEXT, i, t);
    for (int i = 0; i < n; ++i) for (int cv : al.convs) add(SETCONV, i, cv);
    if (al.move) for (int i = 0; i < n; ++i) for (int j = 0; j <= n; ++j) if (j != i) add(MOVE, i, j);
    for (int b : al.bulks) if (n + static_cast<int>(bulkVariant(b).size()) <= al.maxLive) add(INSBULK, b);
    if (al.reset && n > 0) add(RESET);
    if (n < al.maxLive) for (int u : al.recUid) for (int an : al.recAlias) for (int k : al.recKind) add(INSREC, u, an, k);
    if (n < al.maxLive) for (int v : al.fromOther) for (int e = 0; e < 2; ++e) add(INSFROM, v, e);
    for (int v : al.fromOtherBulk) if (n + 2 <= al.maxLive) add(INSFROMBULK, v);
    if (n < al.maxLive) for (int v : al.loads) add(LOAD, v);
    if (al.update) add(UPDATE);
    for (int i = 0; i < n; ++i) for (int fl : al.trackFlags) add(TRACK, i, fl);
    if (al.untrack) for (int i = 0; i < n; ++i) add(UNTRACK, i);
    for (int v : al.merges) if (n + 2 <= al.maxLive) add(MERGE, v);
    if (al.deldup && n > 1) add(DELDUP);
    for (int i = 0; i < n; ++i) for (int fm : al.forms) for (int t : al.formTexts) add(SETFORM, i, fm, t);
    for (int i = 0; i < n; ++i) for (int k : al.typeKinds) add(SETTYPE, i, k);
    (void)kindAt;
    return ops;
  }

  static std::string q(const std::string& s) { return "\"" + s + "\""; }
  std::string describe(const Op& op) {
    auto I = [](int i) { return "#" + std::to_string(i); };
    auto tab = [](const std::vector<std::string>& t, int i) { return i >= 0 && i < static_cast<int>(t.size()) ? q(t[static_cast<size_t>(i)]) : std::string("?"); };
    switch (op.k) {
      case EMPLACE: return std::string("Emplace(") + kKindName[op.a & 7] + "," + tab(kDefs, op.b) + ")";
      case ERASE: return "Erase(" + I(op.a) + ")";
      case SETEXPR: return "SetExpressionFor(" + I(op.a) + "," + tab(kDefs, op.b) + ")";
      case SETALIAS: return "SetAliasFor(" + I(op.a) + ",name-class" + std::to_string(op.b) + "=" + q(nameDesc(op.b)) + "," + (op.c ? "substitute" : "keep-mentions") + ")";
      case SETTERM: return "SetTermFor(" + I(op.a) + "," + tab(kTexts, op.b) + ")";
      case SETTEXT: return "SetDefinitionFor(" + I(op.a) + "," + tab(kTexts, op.b) + ")";
      case SETCONV: return "SetConventionFor(" + I(op.a) + "," + tab(kConvs, op.b) + ")";
      case MOVE: return "MoveBefore(" + I(op.a) + "," + I(op.b) + "|end)";
      case INSBULK: return "InsertCopy(bulk" + std::to_string(op.a) + ")";
      case RESET: return "ResetAliases()";
      case INSREC: return std::string("InsertCopy(record uid:") + (op.a ? "colliding" : "fresh") + " alias-class" + std::to_string(op.b) + (op.b == 5 ? "(mentioned-but-missing)" : "") + " kind:" + (op.c ? "base" : "term") + ")";
      case INSFROM: return "InsertCopy(other" + std::to_string(op.a) + "[" + std::to_string(op.b) + "])";
      case INSFROMBULK: return "InsertCopy(other" + std::to_string(op.a) + "[all])";
      case LOAD: return "Load(rec" + std::to_string(op.a) + ")";
      case UPDATE: return "UpdateState()";
      case TRACK: return "Track(" + I(op.a) + ",flags" + std::to_string(op.b) + ")";
      case UNTRACK: return "StopTracking(" + I(op.a) + ")";
      case MERGE: return "MergeWith(other" + std::to_string(op.a) + ")";
      case DELDUP: return "DeleteDuplicates()";
      case SETFORM: return "SetTermFormFor(" + I(op.a) + "," + tab(kForms, op.b) + "," + tab(kFormTexts, op.c) + ")";
      case SETTYPE: return std::string("Schema::SetTypeFor(") + I(op.a) + "," + kKindName[op.b & 7] + ")";
      default: return "op" + std::to_string(op.k);
    }
  }

  std::string key(const Obj& o) { return dumpKey(o); }

  // ---------------------------------------------------------------------------------------------------------------
  struct Outcome { bool hasResult{ false }; bool ok{ true }; std::vector<EntityUID> erased; std::string what; };

  Outcome execute(Obj& o, const Op& op) {
    Outcome r; auto& f = o.form; const auto lst = listOf(f); const int n = static_cast<int>(lst.size());
    auto uidAt = [&](int i) -> std::optional<EntityUID> { if (i < 0 || i >= n) return std::nullopt; return lst[static_cast<size_t>(i)]; };
    auto tabs = [](const std::vector<std::string>& t, int i) -> std::string { return i >= 0 && i < static_cast<int>(t.size()) ? t[static_cast<size_t>(i)] : std::string{}; };
    auto boolRes = [&](bool b) { r.hasResult = true; r.ok = b; };
    switch (op.k) {
      case EMPLACE: f.Emplace(kKinds[static_cast<size_t>(op.a & 7)], tabs(kDefs, op.b)); break;
      case ERASE: if (auto u = uidAt(op.a)) { boolRes(f.Erase(*u)); if (r.ok) r.erased.push_back(*u); } break;
      case SETEXPR: if (auto u = uidAt(op.a)) boolRes(f.SetExpressionFor(*u, tabs(kDefs, op.b))); break;
      case SETALIAS: if (auto u = uidAt(op.a)) { const char L = f.Contains(*u) ? letterOf(f.GetRS(*u).type) : 'X'; boolRes(f.SetAliasFor(*u, nameFor(L, op.b), op.c != 0)); } break;
      case SETTERM: if (auto u = uidAt(op.a)) boolRes(f.SetTermFor(*u, tabs(kTexts, op.b))); break;
      case SETTEXT: if (auto u = uidAt(op.a)) boolRes(f.SetDefinitionFor(*u, tabs(kTexts, op.b))); break;
      case SETCONV: if (auto u = uidAt(op.a)) boolRes(f.SetConventionFor(*u, tabs(kConvs, op.b))); break;
      case MOVE: if (auto u = uidAt(op.a)) { auto w = uidAt(op.b); boolRes(f.MoveBefore(*u, w ? f.List().Find(*w) : f.List().end())); } break;
      case INSBULK: f.InsertCopy(bulkVariant(op.a)); break;
      case RESET: f.ResetAliases(); break;
      case INSREC: {
        const bool base = op.c != 0; const char L = base ? 'X' : 'D';
        const EntityUID uid = (op.a != 0 && n > 0) ? lst[0] : 777;
        std::string alias;
        switch (op.b) { case 0: alias = std::string(1, L) + "7"; break;
          case 1: { alias = std::string(1, L) + "1"; for (auto u : lst) if (f.Contains(u) && letterOf(f.GetRS(u).type) == L) { alias = f.GetRS(u).alias; break; } break; }  // colliding
          case 2: alias = "Q7"; break; case 3: alias = base ? "D7" : "X7"; break;
          case 5: alias = base ? "X9" : "D2"; break;   // a name that definitions of the pool mention while it is missing (forward reference repaired by the insertion)
          default: alias = ""; break; }
        f.InsertCopy(mkRec(uid, alias, base ? CstType::base : CstType::term, base ? "" : "X1", "t")); break; }
      case INSFROM: { RSForm g; buildOther(g, op.a); const auto gl = listOf(g); if (op.b >= 0 && op.b < static_cast<int>(gl.size())) f.InsertCopy(gl[static_cast<size_t>(op.b)], g.Core()); break; }
      case INSFROMBULK: { RSForm g; buildOther(g, op.a); f.InsertCopy(listOf(g), g.Core()); break; }
      case LOAD: { const EntityUID uid = (op.a != 0 && n > 0) ? lst[0] : 90; const std::string alias = (op.a != 0 && n > 0 && f.Contains(lst[0])) ? f.GetRS(lst[0]).alias : "D9";
        f.Load(mkRec(uid, alias, CstType::term, "X1", "@{X1|nomn}")); break; }
      case UPDATE: f.UpdateState(); break;
      case TRACK: if (auto u = uidAt(op.a)) { TrackingFlags t{}; t.allowEdit = (op.b & 1) != 0; t.term = (op.b & 2) != 0; t.definition = (op.b & 4) != 0; t.convention = (op.b & 8) != 0; f.Mods().Track(*u, t); } break;
      case UNTRACK: if (auto u = uidAt(op.a)) f.Mods().StopTracking(*u); break;
      case MERGE: { RSForm g; buildOther(g, op.a); f.Ops().MergeWith(g); break; }
      case DELDUP: { const auto tr = f.Ops().DeleteDuplicates(); for (const auto& [from, to] : tr) r.erased.push_back(from); std::sort(r.erased.begin(), r.erased.end()); break; }
      case SETFORM: if (auto u = uidAt(op.a)) boolRes(f.SetTermFormFor(*u, tabs(kFormTexts, op.c), ccl::lang::Morphology{ tabs(kForms, op.b) })); break;
      case SETTYPE: if (auto u = uidAt(op.a)) boolRes(f.core.schema.SetTypeFor(*u, kKinds[static_cast<size_t>(op.b & 7)])); break;
      default: break;
    }
    ++o.depth;
    return r;
  }

  static bool inGraph(const ccl::graph::UpdatableGraph& g, EntityUID u) {
    if (g.verticies.count(u)) return true;
    for (auto& v : g.graph) if (v.isValid && v.uid == u) return true;
    return false;
  }

  void apply(Obj& o, const Op& op, Ctx* c, const std::string& hd) {
    (void)hd;
    if (c == nullptr) { execute(o, op); return; }
    if (mode == "ident") { applyIdent(o, op, *c); return; }
    if (mode == "rename" && (op.k == RESET || (op.k == SETALIAS && op.c != 0))) { applyRename(o, op, *c); return; }
    execute(o, op);
  }

  // ---- C09 transition checks (only non-mutating reads of private state: apply(c) must equal apply(nullptr)) -------
  void applyIdent(Obj& o, const Op& op, Ctx& c) {
    const std::string kb = dumpKey(o);
    const auto lst = listOf(o.form);
    std::optional<EntityUID> target; if ((op.k == ERASE || op.k == SETEXPR) && op.a >= 0 && op.a < static_cast<int>(lst.size())) target = lst[static_cast<size_t>(op.a)];
    const bool wasTracked = target && o.form.mods->cvs.count(*target) != 0;
    const std::string kbNorm = op.k == SETEXPR ? dumpKey(o, true) : std::string{};
    std::map<EntityUID, std::string> aliasBefore; for (auto& [u, cst] : o.form.core.schema.storage) aliasBefore[u] = cst.alias;
    const Outcome r = execute(o, op);
    const std::string ka = dumpKey(o);
    c.rep.count("checks");
    if (r.hasResult && !r.ok && ka != kb) {
      // Narrowing: upstream pins the "minor change" of SetDefinitionFor (testSchema.cpp SetDefinitionMinorChange): a new text with
      // the same syntax tree is stored, nothing is re-analysed and `false` means "no semantic change", not "refused".
      // Accepted iff the two keys agree once blanks are removed from the formal definitions (= only that text changed).
      const bool minor = op.k == SETEXPR && !wasTracked && kbNorm == dumpKey(o, true);
      if (!minor) c.fail(pid + ":refused-but-changed:" + opName(op), "operation reported refusal but the exact key changed", firstDiff(kb, ka), "key unchanged");
      else c.rep.count("minor_definition_changes");
    }
    if (wasTracked && target) {
      if (op.k == ERASE && (!r.hasResult || r.ok)) c.fail(pid + ":tracked-erased", "Erase succeeded on a tracked constituent");
      if (op.k == SETEXPR && (!r.hasResult || r.ok)) c.fail(pid + ":tracked-definition-edited", "SetExpressionFor succeeded on a tracked constituent");
      if (ka != kb) c.fail(pid + ":tracked-changed:" + opName(op), "protected operation on a tracked constituent changed the state", firstDiff(kb, ka), "key unchanged");
    }
    for (auto u : r.erased) {
      const auto& f = o.form; c.rep.count("checks");
      auto bad = [&](const char* view) { c.fail(pid + ":erased-still-in:" + view, "erased constituent " + std::to_string(u) + " still present in " + view); };
      for (auto x : f.core.cstList.order) if (x == u) { bad("list"); break; }
      if (f.core.schema.storage.count(u)) bad("formal-part");
      if (f.core.schema.info.count(u)) bad("parse-info");
      if (f.core.thesaurus.storage.count(u)) bad("texts");
      if (f.mods->cvs.count(u)) bad("tracking");
      if (f.core.identifiers.idGenerator.entities.count(u)) bad("uid-registry");
      if (aliasBefore.count(u) && f.core.identifiers.aliasGenerator.names.count(aliasBefore[u])) {
        bool reused = false; for (auto& [v, cst] : f.core.schema.storage) if (cst.alias == aliasBefore[u]) reused = true;
        if (!reused) bad("alias-registry");
      }
      if (inGraph(f.core.schema.graph, u)) bad("dependency-graph");
      if (inGraph(f.core.thesaurus.termGraph, u)) bad("term-graph");
      if (inGraph(f.core.thesaurus.defGraph, u)) bad("definition-graph");
    }
    c.rep.outcome(std::string(opName(op)) + (r.hasResult ? (r.ok ? ":accepted" : ":refused") : ":void"));
  }

  static const char* opName(const Op& op) {
    switch (op.k) { case EMPLACE: return "Emplace"; case ERASE: return "Erase"; case SETEXPR: return "SetExpressionFor"; case SETALIAS: return "SetAliasFor"; case SETTERM: return "SetTermFor";
      case SETTEXT: return "SetDefinitionFor"; case SETCONV: return "SetConventionFor"; case MOVE: return "MoveBefore"; case INSBULK: return "InsertCopyBulk"; case RESET: return "ResetAliases";
      case INSREC: return "InsertCopyRecord"; case INSFROM: return "InsertCopyFrom"; case INSFROMBULK: return "InsertCopyFromBulk"; case LOAD: return "Load"; case UPDATE: return "UpdateState";
      case TRACK: return "Track"; case UNTRACK: return "StopTracking"; case MERGE: return "MergeWith"; case DELDUP: return "DeleteDuplicates"; case SETFORM: return "SetTermFormFor"; case SETTYPE: return "SetTypeFor"; default: return "op"; }
  }
  static std::string firstDiff(const std::string& a, const std::string& b) {
    size_t i = 0; while (i < a.size() && i < b.size() && a[i] == b[i]) ++i;
    const size_t from = i > 40 ? i - 40 : 0;
    return "before: ..." + a.substr(from, 120) + " | after: ..." + b.substr(from, 120);
  }

  // ---- C08 layer 2 ------------------------------------------------------------------------------------------------
  void applyRename(Obj& o, const Op& op, Ctx& c) {
    const RSForm beforeCopy = o.form;           // copies are only read (observe() may rebuild their graphs)
    const Outcome r = execute(o, op);
    const RSForm afterCopy = o.form;
    const Obs A = observe(beforeCopy), B = observe(afterCopy);
    c.rep.count("evaluations");
    if (r.hasResult && !r.ok) { c.rep.outcome("rename:refused"); return; }
    // the renaming actually performed: old alias -> new alias per uid
    std::map<std::string, std::string> ren; bool sameShape = A.items.size() == B.items.size();
    for (size_t i = 0; sameShape && i < A.items.size(); ++i) { if (A.items[i].uid != B.items[i].uid) sameShape = false; else if (A.items[i].alias != B.items[i].alias) ren[A.items[i].alias] = B.items[i].alias; }
    if (!sameShape) { c.fail(pid + ":rename-changed-list", "renaming changed the list of constituents or their order"); return; }
    if (op.k == SETALIAS) {
      const CstObs& t = A.items[static_cast<size_t>(op.a)];
      const std::string want = nameFor(letterOf(t.kind), op.b);
      if (ren.size() != 1 || ren.begin()->first != t.alias || ren.begin()->second != want) { c.fail(pid + ":rename-wrong-aliases", "accepted SetAliasFor did not rename exactly the target", std::to_string(ren.size()) + " aliases changed", t.alias + "->" + want); return; }
    }
    if (ren.empty()) { c.rep.outcome("rename:identity"); }
    // (A) textual clause, unconditional: every whole-identifier occurrence replaced, nothing else changed
    int replaced = 0; bool textual = true;
    for (size_t i = 0; i < A.items.size(); ++i) {
      const auto& a = A.items[i]; const auto& b = B.items[i]; c.rep.count("checks", 6);
      auto cmp = [&](const char* field, const std::string& got, const std::string& exp) { if (got != exp) { textual = false; c.fail(pid + ":rename-text:" + field, std::string("after the renaming the ") + field + " of " + a.alias + " is not the old one with whole identifiers substituted", got, exp); } };
      cmp("definition", b.def, sref::rename_globals(a.def, ren, &replaced));
      cmp("convention", b.conv, sref::rename_globals(a.conv, ren, &replaced));
      cmp("term-reference-text", b.termRaw, sref::rename_refs(a.termRaw, ren, &replaced));
      cmp("definition-reference-text", b.textRaw, sref::rename_refs(a.textRaw, ren, &replaced));
      if (a.kind != b.kind) cmp("kind", std::to_string(static_cast<int>(b.kind)), std::to_string(static_cast<int>(a.kind)));
      if (a.forms != b.forms) cmp("manual-forms", std::to_string(b.forms.size()), std::to_string(a.forms.size()));
      if (a.track != b.track) cmp("tracking", std::to_string(b.track), std::to_string(a.track));
    }
    if (A.title != B.title || A.alias != B.alias || A.comment != B.comment) c.fail(pid + ":rename-text:header", "renaming changed title / alias / comment");
    // (B) structural clause under the property's precondition: no new name was mentioned as an unresolved name
    std::set<std::string> oldAliases; for (auto& a : A.items) oldAliases.insert(a.alias);
    std::set<std::string> mentioned;
    for (auto& a : A.items) { for (auto& g : sref::globals_of(a.def)) mentioned.insert(g); for (auto& g : sref::globals_of(a.conv)) mentioned.insert(g);
      for (auto& g : sref::ref_names_of(a.termRaw)) mentioned.insert(g); for (auto& g : sref::ref_names_of(a.textRaw)) mentioned.insert(g); }
    bool pre = true; for (auto& [from, to] : ren) if (!oldAliases.count(to) && mentioned.count(to)) pre = false;
    if (!pre) { c.rep.outcome("rename:new-name-was-unresolved-mention"); c.rep.count("precondition_excluded"); return; }
    const bool termAcyclic = cyclesOf(A, &CstObs::termInputs).on.empty();
    const CycleInfo defCyc = cyclesOf(A, &CstObs::inputs);
    for (size_t i = 0; i < A.items.size(); ++i) {
      const auto& a = A.items[i]; const auto& b = B.items[i]; c.rep.count("checks", 7);
      auto cmp = [&](const char* field, const std::string& got, const std::string& exp) { if (got != exp) c.fail(pid + ":rename-structure:" + field, std::string("after the renaming the ") + field + " of " + a.alias + "->" + b.alias + " differs from the old one up to the renaming", got, exp); };
      if (a.status != b.status) {  // typification / arguments / value class / tree follow the verdict
        c.fail(pid + ":rename-structure:parse-status:old=" + statusName(a.status) + ",new=" + statusName(b.status) + (defCyc.affected.count(a.uid) ? ":definition-cycle" : ""),
               "parse status of " + a.alias + "->" + b.alias + " [" + b.def + "] changed by a pure renaming", statusName(b.status) + " " + b.type, statusName(a.status) + " " + a.type);
      } else {
        cmp("typification", b.type, sref::rename_globals(a.type, ren));
        { std::string ea; if (a.hasArgs) for (auto& [nm, ty] : a.args) ea += nm + ":" + sref::rename_globals(ty, ren) + ";"; else ea = "-"; cmp("arguments", argStr(b), ea); }
        cmp("value-class", std::to_string(b.vclass), std::to_string(a.vclass));
        cmp("syntax-tree", b.ast, sref::rename_globals(a.ast, ren));
      }
      cmp("dependency-edges", setStr(b.inputs), setStr(a.inputs));
      cmp("term-reference-edges", setStr(b.termInputs), setStr(a.termInputs));
      cmp("definition-reference-edges", setStr(b.textInputs), setStr(a.textInputs));
      if (termAcyclic) { cmp("resolved-term", b.termStr, a.termStr); cmp("resolved-definition", b.textStr, a.textStr); }
    }
    if (replaced > 0) c.rep.count("nontrivial");
    c.rep.outcome(std::string(op.k == RESET ? "reset:" : "setalias:") + (replaced > 0 ? "replaced-mentions" : "no-mentions") + (textual ? "" : ":textual-mismatch"));
    c.rep.count("renamings_compared");
  }

  // ---------------------------------------------------------------------------------------------------------------
  void check_state(Obj& o, Ctx& c, const std::string& hd) {
    (void)hd;
    if (mode == "incr") checkIncr(o, c);
    else if (mode == "ident") checkIdent(o, c);
    else if (mode == "json") checkJson(o, c);
    else checkRenameState(o, c);
  }

  void checkRenameState(Obj& o, Ctx& c) { c.rep.count("evaluations"); c.rep.outcome("state:n=" + std::to_string(listOf(o.form).size())); }

  // ---- C07 --------------------------------------------------------------------------------------------------------
  // Kind changes (profile T) leave alias letters that RSCore's loaders re-register, so the fresh object is a bare
  // Schema loaded with the same formal records (Schema::Load + UpdateState: the batch path) and only the Schema-level
  // part of the claim is compared: status / typification / arguments / value class / tree / dependency edges.
  void checkIncrSchemaLevel(Obj& o, Ctx& c) {
    const auto& live = o.form.core.schema; c.rep.count("evaluations");
    ccl::semantic::Schema fresh;
    for (const auto uid : o.form.List()) { if (!live.Contains(uid)) continue; const auto& r = live.At(uid); fresh.Load(ccl::semantic::RSConcept{ r.uid, r.alias, r.type, r.definition, r.convention }); }
    fresh.UpdateState();
    int incorrect = 0;
    for (const auto uid : o.form.List()) {
      if (!live.Contains(uid)) continue;
      const auto& r = live.At(uid); const auto& a = live.InfoFor(uid); const auto& b = fresh.InfoFor(uid);
      auto args = [](const ccl::semantic::ParsingInfo& p) { std::string s = "-"; if (p.arguments.has_value()) { s.clear(); for (auto& x : *p.arguments) s += x.name + ":" + x.type.ToString() + ";"; } return s; };
      auto tree = [](const ccl::semantic::ParsingInfo& p) { return p.ast != nullptr ? ccl::rslang::AST2String::Apply(*p.ast) : std::string{}; };
      auto ins = [&](const ccl::semantic::Schema& sc) { std::set<EntityUID> r2; for (auto u : sc.Graph().InputsFor(uid)) r2.insert(u); return setStr(r2); };
      auto cmp = [&](const char* field, const std::string& l, const std::string& f2) { if (l != f2) c.fail(pid + ":stale-" + field, std::string(field) + " of " + r.alias + " [" + r.definition + "] differs from a freshly built schema", "live: " + l, "fresh: " + f2); };
      c.rep.count("checks", 6);
      const int sa = static_cast<int>(a.status), sb = static_cast<int>(b.status); if (sa != 1) ++incorrect;
      if (sa != sb) c.fail(pid + ":stale-parse-status:live=" + statusName(sa) + ",fresh=" + statusName(sb), "parse status of " + r.alias + " [" + r.definition + "] differs from a freshly built schema", "live: " + statusName(sa) + " " + typeStr(a) + " " + tree(a), "fresh: " + statusName(sb) + " " + typeStr(b) + " " + tree(b));
      else { cmp("typification", typeStr(a), typeStr(b)); cmp("arguments", args(a), args(b)); cmp("value-class", std::to_string(static_cast<int>(a.valueClass)), std::to_string(static_cast<int>(b.valueClass))); cmp("syntax-tree", tree(a), tree(b)); }
      cmp("dependency-edges", ins(live), ins(fresh));
    }
    c.rep.outcome("schema-level:n=" + std::to_string(o.form.List().size()) + ",incorrect=" + std::to_string(incorrect));
  }

  void checkIncr(Obj& o, Ctx& c) {
    if (!al.typeKinds.empty()) { checkIncrSchemaLevel(o, c); return; }
    const std::string jmin = libJSON(o.form, true);
    auto fr = ccl::api::RSFormJA::FromJSON(jmin);
    const Obs L = observe(o.form), F = observe(fr.data());
    c.rep.count("evaluations");
    const CycleInfo dc = cyclesOf(F, &CstObs::inputs), tc = cyclesOf(F, &CstObs::termInputs);
    if (L.items.size() != F.items.size()) { c.fail(pid + ":fresh-size", "fresh schema has a different number of constituents", std::to_string(F.items.size()), std::to_string(L.items.size())); return; }
    int incorrect = 0; std::set<EntityUID> explained;
    for (size_t i = 0; i < L.items.size(); ++i) {
      const auto& a = L.items[i]; const auto* bp = F.find(a.uid);
      if (bp == nullptr || F.items[i].uid != a.uid) { c.fail(pid + ":fresh-identity", "fresh schema does not keep uid / order of constituent " + a.alias); continue; }
      const auto& b = *bp; const std::string tag = dc.affected.count(a.uid) ? ":definition-cycle" : "";
      if (a.status != 1) ++incorrect;
      c.rep.count("checks", 6);
      auto cmp = [&](const char* field, const std::string& live, const std::string& fresh) { if (live != fresh) c.fail(pid + ":stale-" + field + tag, std::string(field) + " of " + a.alias + " [" + a.def + "] differs from a freshly built schema", "live: " + live, "fresh: " + fresh); };
      if (a.status != b.status) {  // typification / arguments / value class / tree follow the verdict: one signature per wrong verdict
        explained.insert(a.uid);
        c.fail(pid + ":stale-parse-status:live=" + statusName(a.status) + ",fresh=" + statusName(b.status) + tag, "parse status of " + a.alias + " [" + a.def + "] differs from a freshly built schema",
               "live: " + statusName(a.status) + " " + a.type + " " + a.ast, "fresh: " + statusName(b.status) + " " + b.type + " " + b.ast);
      } else {
        cmp("typification", a.type, b.type);
        cmp("arguments", argStr(a), argStr(b));
        cmp("value-class", std::to_string(a.vclass), std::to_string(b.vclass));
        cmp("syntax-tree", a.ast, b.ast);
      }
      cmp("dependency-edges", setStr(a.inputs), setStr(b.inputs));
      if (a.termInputs != b.termInputs) cmp("term-reference-edges", setStr(a.termInputs), setStr(b.termInputs));
      if (a.textInputs != b.textInputs) cmp("definition-reference-edges", setStr(a.textInputs), setStr(b.textInputs));
      if (tc.on.empty()) { c.rep.count("checks", 2); cmp("resolved-term", a.termStr, b.termStr); cmp("resolved-definition", a.textStr, b.textStr); }
    }
    // whole document
    JV d1 = JV::parse(libJSON(o.form, false)), d2 = JV::parse(fr.ToJSON());
    if (!tc.on.empty()) { stripResolved(d1); stripResolved(d2); }
    c.rep.count("checks");
    if (d1 != d2) {
      std::vector<std::string> paths; jdiff(d1, d2, "", paths);
      std::set<std::string> sigs;
      for (auto& p : paths) { const int idx = itemIndexOf(p); const bool known = idx >= 0 && idx < static_cast<int>(L.items.size());
        const bool cyc = known && dc.affected.count(L.items[static_cast<size_t>(idx)].uid) != 0;
        if (known && p.find("/parse/") != std::string::npos && explained.count(L.items[static_cast<size_t>(idx)].uid)) continue;  // already reported as a wrong verdict
        sigs.insert(pid + ":document-differs:" + generalise(p) + (cyc ? ":definition-cycle" : "")); }
      const JV::json_pointer ptr(paths[0].substr(0, paths[0].rfind("/#size") == std::string::npos ? std::string::npos : paths[0].rfind("/#size")));
      for (auto& s : sigs) c.fail(s, "JSON(live) != JSON(fresh) at " + paths[0], "live: " + (d1.contains(ptr) ? d1.at(ptr).dump().substr(0, 300) : "<absent>"), "fresh: " + (d2.contains(ptr) ? d2.at(ptr).dump().substr(0, 300) : "<absent>"));
    }
    c.rep.outcome("n=" + std::to_string(L.items.size()) + ",incorrect=" + std::to_string(incorrect) + (dc.on.empty() ? "" : ",defcycle") + (tc.on.empty() ? "" : ",termcycle"));
  }

  // ---- C09 --------------------------------------------------------------------------------------------------------
  void checkIdent(Obj& o, Ctx& c) {
    const auto& f = o.form; const auto& core = f.core; c.rep.count("evaluations");
    auto bad = [&](const std::string& sig, const std::string& msg, const std::string& obs = "", const std::string& exp = "") { c.fail(pid + ":" + sig, msg, obs, exp); };
    const auto lst = listOf(f);
    std::set<EntityUID> listSet(lst.begin(), lst.end()), rsSet, txSet, infoSet;
    for (auto& [u, cst] : core.schema.storage) { rsSet.insert(u); if (cst.uid != u) bad("uid-key-mismatch", "schema storage key differs from the stored uid"); }
    for (auto& [u, t] : core.thesaurus.storage) { txSet.insert(u); if (t.uid != u) bad("uid-key-mismatch", "thesaurus storage key differs from the stored uid"); }
    for (auto& [u, _] : core.schema.info) infoSet.insert(u);
    c.rep.count("checks", 12);
    if (listSet.size() != lst.size()) bad("list-duplicate", "the ordered list contains a constituent twice", std::to_string(lst.size()) + " entries", std::to_string(listSet.size()) + " distinct");
    if (listSet != rsSet) bad("list-not-permutation", "List() is not a permutation of the formal part", setStr(listSet), setStr(rsSet));
    if (rsSet != txSet) bad("tables-disagree:texts", "formal part and texts hold different constituents", setStr(txSet), setStr(rsSet));
    if (rsSet != infoSet) bad("tables-disagree:parse-info", "formal part and analysis table hold different constituents", setStr(infoSet), setStr(rsSet));
    { std::set<EntityUID> reg(core.identifiers.idGenerator.entities.begin(), core.identifiers.idGenerator.entities.end());
      if (reg != rsSet) bad("uid-registry", "identifier registry differs from the live identifiers", setStr(reg), setStr(rsSet)); }
    std::map<std::string, int> aliasCount; std::set<std::string> aliases;
    for (auto& [u, cst] : core.schema.storage) {
      aliasCount[cst.alias]++; aliases.insert(cst.alias);
      const auto t = ccl::tools::CstNameGenerator::GetTypeForName(cst.alias);
      if (!t.has_value() || *t != cst.type || cst.alias.empty() || cst.alias[0] != letterOf(cst.type)) bad("alias-letter", "alias does not match the kind", cst.alias, std::string(1, letterOf(cst.type)) + "<digits>");
      if (core.thesaurus.storage.count(u) && core.thesaurus.storage.at(u).alias != cst.alias) bad("alias-split", "formal part and text part disagree on the alias", core.thesaurus.storage.at(u).alias, cst.alias);
      if (f.RSLang().FindAlias(cst.alias) != std::optional<EntityUID>(u)) bad("alias-lookup", "FindAlias(alias) does not return the constituent", cst.alias);
    }
    for (auto& [a, k] : aliasCount) if (k > 1) bad("alias-duplicate", "two constituents share an alias", a + " x" + std::to_string(k), "unique");
    { std::set<std::string> reg(core.identifiers.aliasGenerator.names.begin(), core.identifiers.aliasGenerator.names.end());
      if (reg != aliases) { std::string a, b; for (auto& s : reg) a += s + " "; for (auto& s : aliases) b += s + " "; bad("alias-registry", "alias registry differs from the live aliases", a, b); } }
    { int prev = -1; for (auto u : lst) { if (!core.schema.storage.count(u)) continue; const int g = groupOf(core.schema.storage.at(u).type); if (g < prev) { bad("kind-order", "ordered list breaks base < constant < structured < derived", "group " + std::to_string(g) + " after group " + std::to_string(prev)); break; } prev = g; } }
    for (auto& [u, _] : f.mods->cvs) if (!rsSet.count(u)) bad("tracking-dangling", "tracking table mentions a constituent that does not exist", std::to_string(u));
    auto graphCheck = [&](const ccl::graph::CGraph& g, const char* name) {
      for (auto& [u, idx] : g.verticies) { if (!rsSet.count(u)) bad(std::string("graph-ghost:") + name, "graph contains a vertex that is not a live constituent", std::to_string(u)); (void)idx; }
      for (auto u : g.TopologicalOrder()) if (!rsSet.count(u)) bad(std::string("graph-ghost-order:") + name, "TopologicalOrder yields a vertex that is not a live constituent", std::to_string(u));
      for (auto u : rsSet) for (auto v : g.InputsFor(u)) if (!rsSet.count(v)) bad(std::string("graph-ghost-edge:") + name, "edge from a vertex that is not a live constituent", std::to_string(v));
    };
    graphCheck(f.RSLang().Graph(), "dependency"); graphCheck(f.Texts().TermGraph(), "term"); graphCheck(f.Texts().DefGraph(), "definition");
    for (auto u : f.Core()) if (!listSet.count(u)) bad("core-iteration", "Core() iterates a constituent that is not in List()");
    c.rep.outcome("n=" + std::to_string(lst.size()) + ",tracked=" + std::to_string(f.mods->cvs.size()));
  }

  // ---- C10 --------------------------------------------------------------------------------------------------------
  void checkJson(Obj& o, Ctx& c) {
    c.rep.count("evaluations");
    const std::string j1 = libJSON(o.form, false);
    auto re = ccl::api::RSFormJA::FromJSON(j1);
    const std::string j2 = re.ToJSON();
    const Obs A = observe(o.form), B = observe(re.data());
    const CycleInfo dc = cyclesOf(B, &CstObs::inputs), tc = cyclesOf(B, &CstObs::termInputs);
    // everything whose resolved text depends on a term cycle
    std::set<EntityUID> textAffected = tc.affected; for (auto& it : B.items) for (auto u : it.textInputs) if (tc.affected.count(u)) textAffected.insert(it.uid);
    const JV v1 = JV::parse(j1), v2 = JV::parse(j2);
    size_t maxForms = 0; for (auto& it : A.items) maxForms = std::max(maxForms, it.forms.size());
    std::set<EntityUID> explained;   // constituents whose verdict already differs: their /parse/* paths are consequences
    // observable content, field by field
    if (A.title != B.title || A.alias != B.alias || A.comment != B.comment) c.fail(pid + ":content:header", "title / alias / comment not preserved");
    if (A.items.size() != B.items.size()) c.fail(pid + ":content:size", "number of constituents not preserved");
    else for (size_t i = 0; i < A.items.size(); ++i) {
      const auto& a = A.items[i]; const auto& b = B.items[i]; c.rep.count("checks", 10);
      auto cmp = [&](const char* field, const std::string& got, const std::string& exp) { if (got != exp) c.fail(pid + ":content:" + field, std::string(field) + " of " + a.alias + " not preserved by save/load", got, exp); };
      cmp("uid-or-order", std::to_string(b.uid), std::to_string(a.uid)); cmp("alias", b.alias, a.alias); cmp("kind", std::to_string(static_cast<int>(b.kind)), std::to_string(static_cast<int>(a.kind)));
      cmp("formal-definition", b.def, a.def); cmp("convention", b.conv, a.conv); cmp("raw-term", b.termRaw, a.termRaw); cmp("raw-text-definition", b.textRaw, a.textRaw);
      if (a.forms != b.forms) { std::string x, y; for (auto& [m, t] : b.forms) x += m + "=" + t + ";"; for (auto& [m, t] : a.forms) y += m + "=" + t + ";"; cmp("manual-forms", x, y); }
      cmp("tracking-flags", std::to_string(b.track), std::to_string(a.track));
      const std::string tag = dc.affected.count(a.uid) ? ":definition-cycle" : "";
      auto cmpA = [&](const char* field, const std::string& got, const std::string& exp) { if (got != exp) c.fail(pid + ":analysis:" + field + tag, std::string(field) + " of " + a.alias + " [" + a.def + "] after reload differs from the original", "reloaded: " + got, "original: " + exp); };
      if (a.status != b.status) { explained.insert(a.uid);
        c.fail(pid + ":analysis:parse-status:original=" + statusName(a.status) + ",reloaded=" + statusName(b.status) + tag, "parse status of " + a.alias + " [" + a.def + "] after reload differs from the original",
               "reloaded: " + statusName(b.status) + " " + b.type + " " + b.ast, "original: " + statusName(a.status) + " " + a.type + " " + a.ast); }
      else { cmpA("typification", b.type, a.type); cmpA("arguments", argStr(b), argStr(a)); cmpA("value-class", std::to_string(b.vclass), std::to_string(a.vclass)); cmpA("syntax-tree", b.ast, a.ast); }
    }
    // documents as JSON values
    auto docCompare = [&](const JV& x, const JV& y, const std::string& clause, const std::string& msg) {
      c.rep.count("checks");
      if (x == y) return;
      std::vector<std::string> paths; jdiff(x, y, "", paths); std::map<std::string, std::string> sigs;  // signature -> first concrete path
      for (auto& p : paths) { const int idx = itemIndexOf(p); std::string tag, gp = generalise(p), cp = p;
        if (idx >= 0 && idx < static_cast<int>(A.items.size())) { const auto& it = A.items[static_cast<size_t>(idx)];
          if (p.find("/parse/") != std::string::npos) { if (explained.count(it.uid)) continue; if (dc.affected.count(it.uid)) tag = ":definition-cycle"; }
          else if (p.find("/resolved") != std::string::npos && textAffected.count(it.uid)) tag = ":term-cycle";
          else if (const auto fp = p.find("/term/forms/"); fp != std::string::npos) {   // same entries in a different order?
            cp = p.substr(0, fp) + "/term/forms"; const JV::json_pointer ptr(cp);
            std::vector<std::string> ex, ey; for (auto& e : x.at(ptr)) ex.push_back(e.dump()); for (auto& e : y.at(ptr)) ey.push_back(e.dump());
            std::sort(ex.begin(), ex.end()); std::sort(ey.begin(), ey.end());
            if (ex == ey) { gp = generalise(cp); tag = ":array-order"; } } }
        sigs.emplace(pid + ":" + clause + ":" + gp + tag, cp); }
      for (auto& [sg, cp] : sigs) { const JV::json_pointer ptr(cp.substr(0, cp.rfind("/#size") == std::string::npos ? std::string::npos : cp.rfind("/#size")));
        c.fail(sg, msg + " at " + cp, y.contains(ptr) ? y.at(ptr).dump().substr(0, 400) : "<absent>", x.contains(ptr) ? x.at(ptr).dump().substr(0, 400) : "<absent>"); }
    };
    docCompare(v1, v2, "document-unstable", "ToJSON(FromJSON(ToJSON(o))) != ToJSON(o)");
    // pyconcept::CheckSchema = { skipResolving = true; FromJSON; ToJSON }  (body transcribed from /repo/pyconcept/src/pyconcept.cpp)
    {
      ccl::lang::TextEnvironment::Instance().skipResolving = true;
      std::string j3; { auto sc = ccl::api::RSFormJA::FromJSON(j1); j3 = sc.ToJSON(); }
      ccl::lang::TextEnvironment::Instance().skipResolving = false;
      docCompare(v1, JV::parse(j3), "checkschema-unstable", "CheckSchema(ToJSON(o)) != ToJSON(o)");
    }
    int tracked = 0; for (auto& it : A.items) if (it.track >= 0) ++tracked;
    c.rep.outcome("n=" + std::to_string(A.items.size()) + ",maxforms=" + std::to_string(maxForms) + ",tracked=" + std::to_string(tracked) + (dc.on.empty() ? "" : ",defcycle") + (tc.on.empty() ? "" : ",termcycle"));
    for (auto& it : A.items) if (it.track >= 0) c.rep.outcome("flags=" + std::to_string(it.track));
  }
};

}  // namespace

int main(int argc, char** argv) {
  Options opt = parse_args(argc, argv);
  const double t0 = now_s();
  Result res; res.harness = "h_schema"; res.mode = opt.mode; res.tier = opt.tier;
  SchemaSys sys; sys.mode = opt.mode; sys.requery_parent = opt.mode == "incr" && opt.num("requery", 0) != 0;   // off: the battery fills caches that are part of the exact key (cachedForms), so canon-on-replay would trip
  if (opt.mode == "incr") sys.pid = "C07"; else if (opt.mode == "ident") sys.pid = "C09"; else if (opt.mode == "json") sys.pid = "C10"; else if (opt.mode == "rename") sys.pid = "C08";
  else { fprintf(stderr, "unknown mode\n"); return 2; }
  res.property = sys.pid;

  if (opt.kv.count("bfs-replay")) {
    sys.al = profileFor(opt.mode, 'W');
    Ctx c; c.label = opt.mode + "/replay";
    Bfs<SchemaSys>::replay_history(sys, opt.kv.at("bfs-replay"), c);
    res.rep = c.rep; res.completed_bound = "replay"; res.wall_s = now_s() - t0;
    res.write(opt.out.empty() ? "/dev/stdout" : opt.out);
    return 0;
  }

  // plan: comma separated <profile letter><depth>, e.g. "W2,M3,N5"
  std::string plan = opt.str("plan", "");
  if (plan.empty()) {
    if (opt.mode == "incr") plan = opt.thorough() ? "W2,M3,N5" : "W1,M2,N4";
    else if (opt.mode == "ident") plan = opt.thorough() ? "W2,M3,N5" : "W1,M2,N4";
    else if (opt.mode == "json") plan = opt.thorough() ? "W2,N4" : "W1,N3";
    else plan = opt.thorough() ? "W1,M2" : "W1,M1";
  }
  const double t_end = now_s() + opt.deadline_s;
  bool exhaustive = true; std::string bounds, alphabets; uint64_t states = 0, transitions = 0, changed = 0;
  std::istringstream ps(plan); std::string item;
  while (std::getline(ps, item, ',')) {
    if (item.size() < 2) continue;
    const char level = item[0]; const int depth = atoi(item.c_str() + 1);
    sys.al = profileFor(opt.mode, level);
    int maxDepth = depth; sys.finalOnlyRenamesAt = -1;
    if (opt.mode == "rename") { sys.finalOnlyRenamesAt = depth; maxDepth = depth + 1; }
    Options o2 = opt; o2.deadline_s = std::max(5.0, t_end - now_s());
    Report rep; const double t1 = now_s();
    BfsStats st = Bfs<SchemaSys>::run(sys, o2, maxDepth, rep, opt.mode + "/" + item);
    res.rep.merge(rep);
    states += st.states; transitions += st.transitions; changed += st.changed; exhaustive = exhaustive && st.exhaustive;
    std::string lv; for (auto x : st.level_sizes) lv += std::to_string(x) + " ";
    bounds += (bounds.empty() ? "" : " || ") + sys.al.name + ": all histories of <= " + std::to_string(depth) + " operations from " + std::to_string(sys.seeds()) + " seed states"
      + (opt.mode == "rename" ? " followed by every renaming operation" : "") + " (completed depth " + std::to_string(st.completed_depth) + ", level sizes " + lv + ", " + std::to_string(st.states) + " states, "
      + std::to_string(rep.counters.count("transitions") ? rep.counters["transitions"] : 0) + " transitions, " + std::to_string(static_cast<int>(now_s() - t1)) + " s)";
    alphabets += (alphabets.empty() ? "" : " || ") + sys.al.describe();
    if (!st.exhaustive) break;
  }
  // counters "transitions" accumulate across profiles inside res.rep; BfsStats::transitions is cumulative per report
  res.states = states; res.transitions = res.rep.counters["transitions"]; res.traces_validated = res.transitions;
  res.evaluations = res.rep.counters["evaluations"];
  if (opt.mode == "rename") res.distinct_nontrivial = res.rep.counters["nontrivial"]; else res.distinct_nontrivial = res.rep.counters["transitions_changing_state"];
  res.exhaustive = exhaustive; res.completed_bound = bounds; res.alphabet = alphabets;
  if (opt.mode == "incr") res.rule = "state = exact canonical dump of the RSForm (appendix D) reached by a history; in EVERY distinct state every constituent's status / typification / arguments / value class / AST2String / Graph().InputsFor and, when the term reference graph is acyclic, term.Nominal() and definition.Str() are compared with a fresh schema built by FromJSON(ToMinimalJSON(live)); whole documents compared as JSON values; non-trivial = transition whose operation changed the key";
  else if (opt.mode == "ident") res.rule = "invariants (unique uids / aliases, alias letter == kind, List() permutation of Core(), kind-group order, five tables + registries agree, no ghost vertices) in every distinct state; on every transition: refusal => exact key unchanged, erased constituent absent from every view, Erase / SetExpressionFor refused on tracked constituents; non-trivial = transition that changed the key";
  else if (opt.mode == "json") res.rule = "in every distinct state j1=ToJSON(o), o'=FromJSON(j1), j2=ToJSON(o'): j2==j1 as JSON values (array order significant), field-by-field content incl. manual forms as a map and tracking flags, embedded analysis of o' vs o, and CheckSchema(j1)==j1; non-trivial = transition that changed the key";
  else res.rule = "every renaming operation (SetAliasFor with substitution to the names <L>7 <L>2 <L>9 <L>11 for every constituent, ResetAliases) applied in every reached state; textual clause compared unconditionally with an own whole-identifier renamer, structural clause (status, typification, arguments, value class, AST, dependency / reference edges, resolved texts) under the property's precondition; non-trivial = renaming that replaced >= 1 mention";
  res.assumptions = { "clang 14 + libstdc++ 12, ASan+UBSan build with asserts", "default TextProcessor (identity inflection)", "entity uids from hook H1 policies ascending / descending",
                      "definitions never put a LOGIC-typed global (axiom / theorem / predicate name) in term position (candidate #9 crash belongs to C03/C04)" };
  res.wall_s = now_s() - t0;
  res.write(opt.out.empty() ? "/dev/stdout" : opt.out);
  return 0;
}
