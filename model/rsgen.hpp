// Bounded enumeration of RSLang terms for the semantic checks (C01 C02 C03):
// every constructor over every combination of sub-terms drawn from the previous level, in every variable
// environment reachable by the binders; the reference typer (model/rssem.hpp) splits candidates into
// well-typed ones (with their types) and ill-typed ones whose sub-terms are all well-typed (one violated premise).
#pragma once
#include "model/rssem.hpp"

#include <functional>
#include <map>
#include <optional>

namespace rsgen {
using rsast::K; using rsast::Node; using rsast::mk; using rsast::mkidx; using rsast::leaf; using rsast::integer;
using rssem::Ty; using rssem::ETy; using rssem::Context;

struct Typed { Node node; ETy type; };
using Env = std::vector<std::pair<std::string, Ty>>;   // bound variables in scope (outermost first)

inline std::string envKey(const Env& env) { std::string k; for (auto& [n, t] : env) k += n + ":" + t.str() + ";"; return k; }

// type-check a candidate in an environment: environment variables are modelled as element-typed pseudo-globals
// (name prefixed with \x01) so the typer itself needs no notion of a pre-populated scope.
struct EnvChecker {
  const Context& ctx;
  mutable std::map<std::string, Context> extended;
  explicit EnvChecker(const Context& c) : ctx(c) {}
  const Context& contextFor(const Env& env) const {
    const std::string k = envKey(env);
    auto it = extended.find(k);
    if (it == extended.end()) { if (extended.size() > 400) extended.clear(); Context c2 = ctx; for (auto& [name, ty] : env) { rssem::Global g; g.type = ETy::T(ty); c2.globals["\x01" + name] = g; } it = extended.emplace(k, std::move(c2)).first; }
    return it->second;
  }
  static Node rename(const Env& env, const Node& x) { Node r = x; if (r.k == K::Local) { for (auto& e : env) if (e.first == r.text) { r.k = K::Global; r.text = "\x01" + e.first; } } for (auto& ch : r.ch) ch = rename(env, ch); return r; }
  rssem::TypeResult check(const Env& env, const Node& n) const { rssem::Typer t(contextFor(env)); return env.empty() ? t.check(n) : t.check(rename(env, n)); }
};

class Generator {
 public:
  const Context& ctx;
  std::vector<Node> leaves;                    // closed leaves (globals, literals)
  std::vector<std::string> varNames{ "a", "b", "c", "d" };
  size_t repsPerKey{ 2 };
  size_t bodyCacheMax{ 400 };   // entries kept by bodies(); lowered for the depth-2 spaces (each entry holds whole pools)
  bool bothDeep{ true };    // depth 2: binary constructors with BOTH operands non-leaf (false: at most one operand is non-leaf)
  std::set<std::string> skipCalls{ "F5", "F6", "F7", "P2", "P3" };   // callables only reached from curated texts (kept out of the call enumeration)
  size_t bodyReps{ 3 };     // representatives per (constructor, type) kept in binder bodies
  EnvChecker checker;
  mutable std::map<std::string, std::pair<std::vector<Typed>, std::vector<Typed>>> bodyCache;
  explicit Generator(const Context& c) : ctx(c), checker(c) {}
  rssem::TypeResult checkIn(const Context&, const Env& env, const Node& n) const { return checker.check(env, n); }

  struct Level { std::vector<Typed> ok; std::vector<Node> bad; };
  struct Pool { std::vector<Typed> S, L; };

  // candidates one level up from the given sub-term pool (terms S with types, formulas L), in environment env
  Level over(const Env& env, const std::vector<Typed>& S, const std::vector<Typed>& L, int binderDepthLeft) const {
    Level out;
    stream(env, S, L, binderDepthLeft, [&](Node&& n) {
      auto r = checkIn(ctx, env, n);
      if (r.ok) out.ok.push_back({ std::move(n), r.type }); else out.bad.push_back(std::move(n));
    });
    return out;
  }
  // streams every candidate one level up from the given pools to `consider` (nothing is stored)
  template <class Sink>
  void stream(const Env& env, const std::vector<Typed>& S, const std::vector<Typed>& L, int binderDepthLeft, Sink&& consider) const {
    auto isTerm = [](const Typed& t) { return !t.type.logic; };
    // binders: the bound variable gets the next canonical name; the body comes from the sub-pool of the EXTENDED environment
    if (binderDepthLeft > 0 && env.size() < varNames.size()) {
      const std::string v = varNames[env.size()];
      for (auto& dom : S) {
        if (dom.type.logic) continue;
        Ty elem;
        if (dom.type.ty.isAny()) elem = dom.type.ty; else if (dom.type.ty.isSet()) elem = dom.type.ty.elem(); else { consider(mk(K::Forall, { leaf(K::Local, v), dom.node, mk(K::Eq, { integer(1), integer(1) }) })); continue; }
        // variable forms admitted by the element type: plain local; tuple pattern when the element is a tuple
        std::vector<std::pair<Node, Env>> forms;
        { Env e = env; e.emplace_back(v, elem); forms.push_back({ leaf(K::Local, v), e }); }
        if (elem.isTuple() && env.size() + elem.comp.size() <= varNames.size()) {
          Env e = env; std::vector<Node> vs; for (size_t i = 0; i < elem.comp.size(); ++i) { const std::string vn = varNames[env.size() + i]; e.emplace_back(vn, elem.comp[i]); vs.push_back(leaf(K::Local, vn)); }
          forms.push_back({ mk(K::TupleDecl, vs), e });
        }
        for (auto& [decl, e2] : forms) {
          const auto body = bodies(e2, binderDepthLeft - 1);
          for (auto& p : body.L) {
            consider(mk(K::Forall, { decl, dom.node, p.node })); consider(mk(K::Exists, { decl, dom.node, p.node }));
            consider(mk(K::Declarative, { decl, dom.node, p.node }));
          }
          for (auto& t : body.S) {
            consider(mk(K::Imperative, { t.node, mk(K::Iterate, { decl, dom.node }) }));
            for (auto& p : body.L) if (&p - &body.L[0] < 6) consider(mk(K::Imperative, { t.node, mk(K::Iterate, { decl, dom.node }), p.node }));
            if (decl.k == K::Local) { consider(mk(K::RecShort, { decl, dom.node, t.node })); for (auto& p : body.L) if (&p - &body.L[0] < 4) consider(mk(K::RecFull, { decl, dom.node, p.node, t.node })); }
            consider(mk(K::Imperative, { t.node, mk(K::Assign, { decl, dom.node }) }));
          }
        }
        // enumerated declaration mixing a tuple pattern and a plain variable:  ∀(x,y),z∈S P   and   ∀z,(x,y)∈S P
        if (elem.isTuple() && env.size() + elem.comp.size() + 1 <= varNames.size()) {
          Env e = env; std::vector<Node> vs;
          for (size_t i = 0; i < elem.comp.size(); ++i) { const std::string vn = varNames[env.size() + i]; e.emplace_back(vn, elem.comp[i]); vs.push_back(leaf(K::Local, vn)); }
          const std::string vz = varNames[env.size() + elem.comp.size()]; e.emplace_back(vz, elem);
          // bodies that pin down the type of the plain variable (what a slip in the checker would get wrong)
          std::vector<Node> ps;
          ps.push_back(mk(K::In, { leaf(K::Local, vz), dom.node }));
          ps.push_back(mk(K::Eq, { leaf(K::Local, vz), mk(K::Tuple, vs) }));
          ps.push_back(mk(K::Eq, { mkidx(K::SmallPr, { 1 }, { leaf(K::Local, vz) }), vs[0] }));
          ps.push_back(mk(K::Ne, { mkidx(K::SmallPr, { static_cast<int>(elem.comp.size()) }, { leaf(K::Local, vz) }), vs.back() }));
          ps.push_back(mk(K::Eq, { leaf(K::Local, vz), vs.back() }));                          // ill-typed unless the tuple is degenerate
          ps.push_back(mk(K::Eq, { mk(K::Card, { leaf(K::Local, vz) }), mk(K::Card, { vs.back() }) }));   // the seeded-slip witness shape
          for (auto& p : ps) {
            consider(mk(K::Forall, { mk(K::EnumDecl, { mk(K::TupleDecl, vs), leaf(K::Local, vz) }), dom.node, p }));
            consider(mk(K::Exists, { mk(K::EnumDecl, { leaf(K::Local, vz), mk(K::TupleDecl, vs) }), dom.node, p }));
            consider(mk(K::Exists, { mk(K::EnumDecl, { mk(K::TupleDecl, vs), leaf(K::Local, vz) }), dom.node, p }));
          }
        }
        // enumerated declaration  ∀x,y∈S P(x,y)
        if (env.size() + 2 <= varNames.size()) {
          Env e = env; const std::string v2 = varNames[env.size() + 1]; e.emplace_back(v, elem); e.emplace_back(v2, elem);
          const auto body = bodies(e, binderDepthLeft - 1);
          for (auto& p : body.L) if (&p - &body.L[0] < 40) { consider(mk(K::Forall, { mk(K::EnumDecl, { leaf(K::Local, v), leaf(K::Local, v2) }), dom.node, p.node })); consider(mk(K::Exists, { mk(K::EnumDecl, { leaf(K::Local, v), leaf(K::Local, v2) }), dom.node, p.node })); }
        }
      }
    }
    // binary term operators, predicates
    for (K k : { K::Plus, K::Minus, K::Mult, K::Union, K::Intersect, K::SetMinus, K::SymMinus, K::Decart,
                 K::Gr, K::Ls, K::Ge, K::Le, K::Eq, K::Ne, K::In, K::NotIn, K::Subset, K::SubsetEq, K::NotSubset })
      for (auto& a : S) for (auto& b : S) if (isTerm(a) && isTerm(b) && (bothDeep || a.node.ch.empty() || b.node.ch.empty())) consider(mk(k, { a.node, b.node }));
    for (auto& a : S) for (auto& b : S) if (bothDeep || a.node.ch.empty() || b.node.ch.empty()) { consider(mk(K::Tuple, { a.node, b.node })); consider(mk(K::Enumeration, { a.node, b.node })); }
    // unary
    for (auto& a : S) {
      for (K k : { K::Boolean, K::Card, K::Bool, K::Debool, K::Reduce }) consider(mk(k, { a.node }));
      consider(mk(K::Enumeration, { a.node }));
      for (auto idx : std::vector<std::vector<int>>{ { 1 }, { 2 }, { 1, 2 }, { 2, 1 }, { 3 }, { 1, 1 } }) { consider(mkidx(K::BigPr, idx, { a.node })); consider(mkidx(K::SmallPr, idx, { a.node })); }
    }
    // filters: Fi1[P](A), Fi2[P](A), Fi1,2[P,Q](A), Fi1,2[P](A)
    for (auto& a : S) for (auto& p : S) {
      if (!bothDeep && !a.node.ch.empty() && !p.node.ch.empty()) continue;
      consider(mkidx(K::Filter, { 1 }, { p.node, a.node })); consider(mkidx(K::Filter, { 2 }, { p.node, a.node })); consider(mkidx(K::Filter, { 1, 2 }, { p.node, a.node }));
    }
    // two-parameter filters: all three operands vary together only over childless operands; otherwise one operand varies
    for (auto& a : S) for (auto& p : S) for (auto& q : S) {
      if (a.type.logic || p.type.logic || q.type.logic) continue;
      const int complex = (a.node.ch.empty() ? 0 : 1) + (p.node.ch.empty() ? 0 : 1) + (q.node.ch.empty() ? 0 : 1);
      if (complex > 1) continue;
      if (complex == 1 && !(p.type.ty.isSet() && q.type.ty.isSet() && a.type.ty.isSet())) continue;
      consider(mkidx(K::Filter, { 1, 2 }, { p.node, q.node, a.node }));
    }
    // calls of the context's callables
    for (auto& [name, g] : ctx.globals) if (g.args.has_value() && !skipCalls.count(name)) {
      const bool pred = g.type && g.type->logic;
      const Node f = leaf(pred ? K::Predicate : K::Function, name);
      if (g.args->size() == 1) for (auto& a : S) consider(mk(K::FuncCall, { f, a.node }));
      if (g.args->size() == 2) for (auto& a : S) for (auto& b : S) consider(mk(K::FuncCall, { f, a.node, b.node }));
      if (g.args->size() == 1) for (auto& a : S) for (auto& b : S) if (&a == &S[0]) consider(mk(K::FuncCall, { f, a.node, b.node }));  // wrong arity
    }
    // logic
    for (auto& f : L) consider(mk(K::Not, { f.node }));
    for (K k : { K::Equiv, K::Impl, K::Or, K::And }) for (auto& a : L) for (auto& b : L) if (bothDeep || &a == &L[0] || &b == &L[0]) consider(mk(k, { a.node, b.node }));
  }

  // sub-term pool available as bodies in an (extended) environment: leaves + variables, plus one level of constructors over them
  Pool bodies(const Env& env, int binderDepthLeft) const {
    const std::string key = envKey(env) + "#" + std::to_string(binderDepthLeft);
    auto hit = bodyCache.find(key);
    if (hit != bodyCache.end()) { Pool p; p.S = hit->second.first; p.L = hit->second.second; return p; }
    Pool res = bodiesUncached(env, binderDepthLeft);
    if (bodyCache.size() > bodyCacheMax) bodyCache.clear();        // bounded memory: deep spaces reach thousands of distinct environments
    bodyCache[key] = { res.S, res.L };
    return res;
  }
  Pool bodiesUncached(const Env& env, int binderDepthLeft) const {
    Pool base = level0(env);
    Level l1 = over(env, base.S, base.L, binderDepthLeft);
    Pool p = base;
    for (auto& t : l1.ok) (t.type.logic ? p.L : p.S).push_back(t);
    return reps(p, bodyReps);
  }
  Pool level0(const Env& env) const {
    Pool p;
    for (auto& n : leaves) { auto r = checkIn(ctx, env, n); if (r.ok) (r.type.logic ? p.L : p.S).push_back({ n, r.type }); }
    for (auto& [name, ty] : env) p.S.push_back({ leaf(K::Local, name), ETy::T(ty) });
    return p;
  }
  // keep at most r representatives per (root constructor, result type); variables and leaves always kept
  Pool reps(const Pool& in, size_t r) const {
    Pool out; std::map<std::string, size_t> seen;
    auto keep = [&](const Typed& t) { if (t.node.ch.empty()) return true; const std::string key = rsast::nodeLabel(t.node) + "#" + std::to_string(t.node.ch.size()) + ":" + t.type.str(); return seen[key]++ < r; };
    for (auto& t : in.S) if (keep(t)) out.S.push_back(t);
    for (auto& t : in.L) if (keep(t)) out.L.push_back(t);
    return out;
  }

  // Imperative constructors with 2 and 3 blocks: every sequence of {iterate, assign, guard} blocks in which the k-th declaring
  // block introduces the k-th canonical variable; domains are the set-typed leaves or (up to `cap`) one-level terms over the
  // variable declared last, assigned values and guards are one-level terms over the variable declared last; results are the
  // tuple of all declared variables and (up to `cap`) one-level terms over the last variable.
  template <class Sink>
  void imperativeChains(Sink&& sink, size_t maxBlocks = 3, size_t cap = 5) const {
    struct Frame { Env env; std::vector<Node> blocks; };
    auto mentionsVar = [](const Node& n, const std::string& v) { std::function<bool(const Node&)> m = [&](const Node& x) { if (x.k == K::Local && x.text == v) return true; for (auto& c : x.ch) if (m(c)) return true; return false; }; return m(n); };
    std::function<void(const Frame&)> rec = [&](const Frame& f) {
      const Pool p = f.env.empty() ? level0(f.env) : bodies(f.env, 0);
      const std::string last = f.env.empty() ? std::string() : f.env.back().first;
      if (f.blocks.size() >= 2 && !f.env.empty()) {
        if (f.env.size() >= 2) { std::vector<Node> vs; for (auto& e : f.env) vs.push_back(leaf(K::Local, e.first)); std::vector<Node> ch{ mk(K::Tuple, vs) }; for (auto& b : f.blocks) ch.push_back(b); sink(mk(K::Imperative, ch)); }
        size_t k = 0;
        for (auto& t : p.S) if (!t.type.logic && mentionsVar(t.node, last) && k++ < cap) { std::vector<Node> ch{ t.node }; for (auto& b : f.blocks) ch.push_back(b); sink(mk(K::Imperative, ch)); }
      }
      if (f.blocks.size() >= maxBlocks) return;
      if (f.env.size() < varNames.size()) {
        const std::string v = varNames[f.env.size()];
        size_t kd = 0, ka = 0;
        for (auto& d : p.S) {
          if (d.type.logic) continue;
          const bool overLast = !last.empty() && mentionsVar(d.node, last);
          const bool leafTerm = d.node.ch.empty() && d.node.k != K::Local;
          if (d.type.ty.isSet() && !d.type.ty.elem().isAny() && (leafTerm || (overLast && kd++ < cap))) {
            Frame g = f; g.env.emplace_back(v, d.type.ty.elem()); g.blocks.push_back(mk(K::Iterate, { leaf(K::Local, v), d.node })); rec(g);
          }
          if (!d.type.ty.isAny() && ((f.env.empty() && leafTerm) || (overLast && ka++ < cap))) {
            Frame g = f; g.env.emplace_back(v, d.type.ty); g.blocks.push_back(mk(K::Assign, { leaf(K::Local, v), d.node })); rec(g);
          }
        }
      }
      if (!f.env.empty()) { size_t k = 0; for (auto& g0 : p.L) if (mentionsVar(g0.node, last) && k++ < 3) { Frame g = f; g.blocks.push_back(g0.node); rec(g); } }
    };
    rec(Frame{});
  }

  // Scope skeletons: every formula with <= budget internal nodes built from  x=x (x in {a,b}),  F & F  and  ∀x∈X1 F (x in {a,b}).
  // Names are NOT canonical here: the family contains every shadowing, every use outside its binder, every re-declaration of a
  // name in a sibling scope at the same or at a different depth - the whole behaviour of the scope bookkeeping on two names.
  template <class Sink>
  void scopeSkeletons(int budget, Sink&& sink) const {
    std::vector<std::vector<Node>> byBudget(static_cast<size_t>(budget) + 1);
    const Node dom = leaf(K::Global, "X1");
    for (const char* x : { "a", "b" }) byBudget[0].push_back(mk(K::Eq, { leaf(K::Local, x), leaf(K::Local, x) }));
    for (int n = 1; n <= budget; ++n) {
      auto& out = byBudget[static_cast<size_t>(n)];
      for (const char* x : { "a", "b" }) for (auto& f : byBudget[static_cast<size_t>(n - 1)]) out.push_back(mk(K::Forall, { leaf(K::Local, x), dom, f }));
      for (int i = 0; i <= n - 1; ++i) for (auto& l : byBudget[static_cast<size_t>(i)]) for (auto& r : byBudget[static_cast<size_t>(n - 1 - i)]) out.push_back(mk(K::And, { l, r }));
    }
    for (auto& lvl : byBudget) for (auto& f : lvl) sink(Node(f));
  }

  // Representatives of depth 1 (leaves + repsPerKey well-typed terms per (constructor, arity, type)), computed once by streaming -
  // call it in the parent process before forking so that the workers share it.
  mutable std::optional<Pool> depth2Pool;
  void prepareDepth2() const {
    const Env env; Pool l0 = level0(env); Pool r = l0; std::map<std::string, size_t> seen;
    stream(env, l0.S, l0.L, 2, [&](Node&& n) {
      auto res = checkIn(ctx, env, n);
      if (!res.ok) return;
      const std::string key = rsast::nodeLabel(n) + "#" + std::to_string(n.ch.size()) + ":" + res.type.str();
      if (seen[key]++ >= repsPerKey) return;
      (res.type.logic ? r.L : r.S).push_back({ std::move(n), res.type });
    });
    depth2Pool = std::move(r);
  }

  // The bounded space of closed expressions, streamed:  level 0 leaves, depth 1 over all leaves,
  // depth 2 over leaves + representatives of depth 1 (repsPerKey per (constructor, arity, type)).
  template <class Sink>
  void closedStream(int depth, Sink&& sink) const {
    const Env env;
    Pool l0 = level0(env);
    for (auto& n : leaves) sink(Node(n));
    if (depth < 1) return;
    stream(env, l0.S, l0.L, 2, sink);
    if (depth >= 2) {
      if (!depth2Pool.has_value()) prepareDepth2();
      const Pool& r = *depth2Pool;
      // only candidates with at least one non-leaf operand are new at depth 2
      stream(env, r.S, r.L, 2, [&](Node&& n) {
        bool deep = false;
        switch (n.k) {
          case K::Forall: case K::Exists: case K::Declarative: case K::RecShort: case K::RecFull: deep = !n.ch[1].ch.empty(); break;   // bodies are one level deep at every depth
          case K::Imperative: deep = !n.ch[1].ch[1].ch.empty(); break;
          default: for (auto& c : n.ch) if (!c.ch.empty()) deep = true;
        }
        if (deep) sink(std::move(n));
      });
    }
  }
};

}  // namespace rsgen
