// C14 — dependency-graph queries are exact (ccl::graph::CGraph / UpdatableGraph vs model/refgraph.hpp).
// Engine E2: breadth-first search over operation histories on the REAL graph object, reference digraph stepped in lock-step,
// exact key (vertex records incl. tombstones and adjacency-list order + uid->index map), full query battery in every state.
// modes: cgraph     CGraph, universe {1..n} (default n=3): AddItem / EraseItem / AddConnection / SetItemInputs(all subsets) / Clear
//        cgraph4    same code, default n=4 (thorough only)
//        cgraph4e   n=4 with the edge-wise alphabet only (no SetItemInputs): reaches two more operations of depth on 4 identifiers
//        updatable  UpdatableGraph: AddItem / EraseItem / AddConnection / Clear / Invalidate / SetValid / UpdateFor(u) with the
//                   callback's answer enumerated over all subsets of the universe
// Behaviour asserted = what CGraph.h + upstream tests (ccl/cclGraph/test/src/testConnectionsGraph.cpp) document, see model/refgraph.hpp.
#include "engine/mc.hpp"
#include "model/refgraph.hpp"

#include "ccl/graph/CGraph.h"

// Millions of tiny allocations per run: a 256 MB quarantine per worker only costs page faults. 16 MB still covers far more
// than one whole case (a case frees a few hundred small blocks), so use-after-free inside a case is still caught.
// (ASAN_OPTIONS from the driver take precedence for every option it sets; it does not set this one.)
extern "C" const char* __asan_default_options() { return "quarantine_size_mb=16"; }

using namespace mc;
using ccl::EntityUID;
using ccl::SetOfEntities;
using ccl::graph::CGraph;
using ccl::graph::UpdatableGraph;
using refgraph::Digraph;
using refgraph::VSet;

namespace {

enum Kind { kAddItem = 1, kEraseItem = 2, kAddConnection = 3, kSetItemInputs = 4, kClear = 5, kInvalidate = 6, kSetValid = 7, kUpdateFor = 8 };
constexpr EntityUID kForeign = 9;  // an identifier that is never inserted

// bit i of mask <-> identifier i+1; the unordered_set is always filled in ascending order (deterministic iteration order)
SetOfEntities uidsOf(int mask) { SetOfEntities s; for (int i = 0; i < 8; ++i) if (mask & (1 << i)) s.insert(static_cast<EntityUID>(i + 1)); return s; }
VSet vsetOf(int mask) { VSet s; for (int i = 0; i < 8; ++i) if (mask & (1 << i)) s.insert(static_cast<EntityUID>(i + 1)); return s; }
VSet toV(const SetOfEntities& s) { return VSet(s.begin(), s.end()); }

struct Bundle {
  bool updatable{ false };
  CGraph plain;
  std::unique_ptr<UpdatableGraph> upd;
  Digraph m;                 // reference model
  bool mInvalid{ false };    // reference "broken" flag
  SetOfEntities answer;      // what the environment callback answers next
  int cbCalls{ 0 };
  EntityUID cbArg{ 0 };
  CGraph& g() { return updatable ? static_cast<CGraph&>(*upd) : plain; }
  const CGraph& g() const { return updatable ? static_cast<const CGraph&>(*upd) : plain; }
};

// exact dump of the private representation (DESIGN appendix D)
void put(std::string& s, long v) { char b[24]; s.append(b, static_cast<size_t>(snprintf(b, sizeof b, "%ld,", v))); }
std::string graph_key(const CGraph& g) {
  std::string s; s.reserve(160);
  s += "R"; put(s, static_cast<long>(g.graph.size()));
  for (const auto& r : g.graph) {
    s += "("; put(s, r.uid); s += r.isValid ? "+i" : "-i";
    for (auto x : r.inputs) put(s, x);
    s += "o";
    for (auto x : r.outputs) put(s, x);
    s += ")";
  }
  std::vector<std::pair<EntityUID, ccl::graph::VertexIndex>> vm(g.verticies.begin(), g.verticies.end());
  std::sort(vm.begin(), vm.end());
  s += "M"; put(s, static_cast<long>(vm.size()));
  for (auto& [u, i] : vm) { put(s, u); put(s, i); }
  return s;
}

struct GraphSys {
  using Obj = Bundle;
  using Op = OpRec;
  int n{ 3 };               // universe {1..n}
  bool updatable{ false };
  bool setInputs{ true };   // offer SetItemInputs / UpdateFor with every subset

  int seeds() const { return 3; }

  std::unique_ptr<Obj> fresh(int seed) {
    auto b = std::make_unique<Bundle>();
    b->updatable = updatable;
    if (updatable) {
      Bundle* self = b.get();
      b->upd = std::make_unique<UpdatableGraph>([self](EntityUID uid) { ++self->cbCalls; self->cbArg = uid; return self->answer; });
    }
    auto run = [&](std::initializer_list<Op> ops) { for (auto& o : ops) apply(*b, o, nullptr, ""); };
    // seed 0: empty graph
    // seed 1: "awkward": a tombstone at index 0 and a 2-cycle whose vertices sit in anti-numeric index order
    if (seed == 1) run({ Op{ kAddItem, 2, 0, 0 }, Op{ kEraseItem, 2, 0, 0 }, Op{ kAddConnection, 2, 1, 0 }, Op{ kAddConnection, 1, 2, 0 } });
    // seed 2: "typical": chain 1 -> 2 -> 3 whose records were created in reverse dependency order; broken flag set in updatable mode
    if (seed == 2) {
      run({ Op{ kAddItem, 3, 0, 0 }, Op{ kAddItem, 2, 0, 0 }, Op{ kAddItem, 1, 0, 0 }, Op{ kAddConnection, 1, 2, 0 }, Op{ kAddConnection, 2, 3, 0 } });
      if (updatable) run({ Op{ kInvalidate, 0, 0, 0 } });
    }
    return b;
  }

  std::vector<Op> enabled(const Obj&) {
    std::vector<Op> ops;
    for (int u = 1; u <= n; ++u) ops.push_back(Op{ kAddItem, u, 0, 0 });
    for (int u = 1; u <= n; ++u) for (int v = 1; v <= n; ++v) ops.push_back(Op{ kAddConnection, u, v, 0 });
    for (int u = 1; u <= n; ++u) ops.push_back(Op{ kEraseItem, u, 0, 0 });
    if (setInputs) for (int u = 1; u <= n; ++u) for (int mask = 0; mask < (1 << n); ++mask) ops.push_back(Op{ updatable ? kUpdateFor : kSetItemInputs, u, mask, 0 });
    if (updatable) { ops.push_back(Op{ kInvalidate, 0, 0, 0 }); ops.push_back(Op{ kSetValid, 0, 0, 0 }); }
    ops.push_back(Op{ kClear, 0, 0, 0 });
    return ops;
  }

  std::map<std::tuple<int, int, int>, std::string> descCache;  // the engine describes every operation of a history for every transition
  std::string describe(const Op& o) {
    auto& slot = descCache[{ o.k, o.a, o.b }];
    if (slot.empty()) slot = describe_uncached(o);
    return slot;
  }
  std::string describe_uncached(const Op& o) {
    const auto a = std::to_string(o.a), b = std::to_string(o.b);
    switch (o.k) {
      case kAddItem: return "AddItem(" + a + ")";
      case kEraseItem: return "EraseItem(" + a + ")";
      case kAddConnection: return "AddConnection(" + a + "," + b + ")";
      case kSetItemInputs: return "SetItemInputs(" + a + "," + refgraph::show(vsetOf(o.b)) + ")";
      case kClear: return "Clear()";
      case kInvalidate: return "Invalidate()";
      case kSetValid: return "SetValid()";
      case kUpdateFor: return "UpdateFor(" + a + ")<-" + refgraph::show(vsetOf(o.b));
      default: return "?";
    }
  }

  std::string key(const Obj& b) {
    std::string s = graph_key(b.g());
    if (b.updatable) s += b.upd->invalid ? "|X1" : "|X0";
    // the lock-step model is part of the key: a state in which model and object diverged is never merged into a healthy one
    s += "|V"; for (auto v : b.m.vs) put(s, v);
    s += "E"; for (auto& e : b.m.es) { put(s, e.first); put(s, e.second); }
    if (b.mInvalid) s += "!";
    return s;
  }

  // stale-cache defects need query - mutate - query on ONE object: the engine runs the battery before and after every transition
  static constexpr bool interleave_queries = true;

  void apply(Obj& b, const Op& o, Ctx* c, const std::string&) {
    const auto a = static_cast<EntityUID>(o.a), d = static_cast<EntityUID>(o.b);
    std::string before; if (c) before = graph_key(b.g());
    bool mustKeepContent = false;  // documented no-op / flag-only operation: the representation may not change at all
    switch (o.k) {
      case kAddItem: mustKeepContent = b.m.has(a); b.g().AddItem(a); b.m.add_item(a); break;
      case kEraseItem: mustKeepContent = !b.m.has(a); b.g().EraseItem(a); b.m.erase_item(a); break;
      case kAddConnection: mustKeepContent = b.m.has_edge(a, d); b.g().AddConnection(a, d); b.m.add_edge(a, d); break;
      case kSetItemInputs: b.g().SetItemInputs(a, uidsOf(o.b)); b.m.set_inputs(a, vsetOf(o.b)); break;
      case kClear: b.g().Clear(); b.m.clear(); break;
      case kInvalidate: mustKeepContent = true; b.upd->Invalidate(); b.mInvalid = true; break;
      case kSetValid: mustKeepContent = true; b.upd->SetValid(); b.mInvalid = false; break;
      case kUpdateFor: {
        b.answer = uidsOf(o.b); b.cbCalls = 0; b.cbArg = 0;
        b.upd->UpdateFor(a);
        if (!b.mInvalid) {
          b.m.set_inputs(a, vsetOf(o.b));
          if (c) {
            c->rep.count("checks");
            if (b.cbCalls != 1 || b.cbArg != a)
              c->fail("C14:updatefor-callback", "valid graph: UpdateFor(u) must ask the callback once, for u", std::to_string(b.cbCalls) + " call(s), last arg " + std::to_string(b.cbArg), "1 call, arg " + std::to_string(a));
          }
        } else {
          mustKeepContent = true;  // a broken graph ignores updates (Schema / Thesaurus rebuild it after SetValid)
          if (c) c->rep.outcome(b.cbCalls == 0 ? "updatefor-broken:callback-not-asked" : "updatefor-broken:callback-asked");
        }
        break;
      }
      default: fprintf(stderr, "HARNESS-ASSERT bad op kind %d\n", o.k); abort();
    }
    if (c == nullptr) return;
    c->rep.count("checks", 3);
    if (mustKeepContent && graph_key(b.g()) != before)
      c->fail("C14:noop-changed-representation", "operation documented as no-op / flag-only changed the graph representation", graph_key(b.g()), before);
    if (static_cast<size_t>(b.g().ItemsCount()) != b.m.item_count())
      c->fail("C14:itemscount", "ItemsCount after " + describe(o), std::to_string(b.g().ItemsCount()), std::to_string(b.m.item_count()));
    if (static_cast<size_t>(b.g().ConnectionsCount()) != b.m.edge_count())
      c->fail("C14:connectionscount", "ConnectionsCount after " + describe(o), std::to_string(b.g().ConnectionsCount()), std::to_string(b.m.edge_count()));
    if (b.updatable) { c->rep.count("checks"); if (b.upd->IsBroken() != b.mInvalid) c->fail("C14:isbroken", "IsBroken after " + describe(o), b.upd->IsBroken() ? "true" : "false", b.mInvalid ? "true" : "false"); }
  }

  // the full query battery
  void check_state(Obj& b, Ctx& c, const std::string&) {
    const CGraph& g = b.g();
    const Digraph& m = b.m;
    uint64_t checks = 0;
    auto bad = [&](const std::string& sig, const std::string& msg, const std::string& obs = "", const std::string& exp = "") { c.fail("C14:" + sig, msg + "  on " + m.show_graph(), obs, exp); };
    auto tf = [](bool x) { return std::string(x ? "true" : "false"); };
    const std::string keyBefore = graph_key(g);

    std::vector<EntityUID> Q; for (int u = 1; u <= n; ++u) Q.push_back(static_cast<EntityUID>(u)); Q.push_back(kForeign);
    const int nq = static_cast<int>(Q.size());

    // membership, counts, direct inputs
    for (auto q : Q) { ++checks; if (g.Contains(q) != m.has(q)) bad("contains", "Contains(" + std::to_string(q) + ")", tf(g.Contains(q)), tf(m.has(q))); }
    ++checks; if (static_cast<size_t>(g.ItemsCount()) != m.item_count()) bad("itemscount", "ItemsCount", std::to_string(g.ItemsCount()), std::to_string(m.item_count()));
    ++checks; if (static_cast<size_t>(g.ConnectionsCount()) != m.edge_count()) bad("connectionscount", "ConnectionsCount", std::to_string(g.ConnectionsCount()), std::to_string(m.edge_count()));
    for (auto q : Q) { ++checks; const auto got = toV(g.InputsFor(q)); if (got != m.inputs(q)) bad("inputsfor", "InputsFor(" + std::to_string(q) + ")", refgraph::show(got), refgraph::show(m.inputs(q))); }

    // edges and reachability over all ordered pairs (incl. the foreign id)
    const auto reach = m.reach_map();  // reach[s] = vertices reachable from s by a path of length >= 1
    auto path = [&](EntityUID s, EntityUID d) { const auto it = reach.find(s); return it != reach.end() && it->second.count(d) != 0; };
    uint64_t unassertedXX = 0;
    for (auto s : Q) for (auto d : Q) {
      ++checks;
      if (g.ConnectionExists(s, d) != m.has_edge(s, d)) bad("connectionexists", "ConnectionExists(" + std::to_string(s) + "," + std::to_string(d) + ")", tf(g.ConnectionExists(s, d)), tf(m.has_edge(s, d)));
      const bool got = g.IsReachableFrom(d, s);  // signature: IsReachableFrom(dest, source)
      if (s != d) {
        ++checks;
        if (got != path(s, d)) bad("isreachablefrom", "IsReachableFrom(dest=" + std::to_string(d) + ", source=" + std::to_string(s) + ")", tf(got), tf(path(s, d)));
      } else if (m.has_edge(s, s)) {
        ++checks; if (!got) bad("isreachablefrom-selfloop", "IsReachableFrom(x,x) with a self-loop on x=" + std::to_string(s), "false", "true");
      } else if (!path(s, s)) {
        ++checks; if (got) bad("isreachablefrom-nocycle", "IsReachableFrom(x,x) for x=" + std::to_string(s) + " on no cycle", "true", "false");
      } else ++unassertedXX;  // x on a longer cycle without self-loop: undocumented upstream, not asserted (DESIGN C14)
    }
    if (unassertedXX) c.rep.count("unasserted_IsReachableFrom_xx_on_longer_cycle", unassertedXX);

    // closures for ALL subsets of U + {foreign}: closure(S) = union over the live v in S of {v} + reach(v)   (reach / coreach from the model)
    std::map<EntityUID, VSet> coreach; for (auto v : m.vs) coreach[v] = m.pred_closure(m.inputs(v));
    auto unionOver = [&](const VSet& S, const std::map<EntityUID, VSet>& R) { VSet r; for (auto v : S) if (m.has(v)) { r.insert(v); const auto& x = R.at(v); r.insert(x.begin(), x.end()); } return r; };
    for (int mask = 0; mask < (1 << nq); ++mask) {
      SetOfEntities in; VSet inV;
      for (int i = 0; i < nq; ++i) if (mask & (1 << i)) { in.insert(Q[static_cast<size_t>(i)]); inV.insert(Q[static_cast<size_t>(i)]); }
      ++checks; { const auto got = toV(g.ExpandOutputs(in)); const auto exp = unionOver(inV, reach); if (got != exp) bad("expandoutputs", "ExpandOutputs(" + refgraph::show(inV) + ")", refgraph::show(got), refgraph::show(exp)); }
      ++checks; { const auto got = toV(g.ExpandInputs(in)); const auto exp = unionOver(inV, coreach); if (got != exp) bad("expandinputs", "ExpandInputs(" + refgraph::show(inV) + ")", refgraph::show(got), refgraph::show(exp)); }
    }

    // cycles
    bool cyclic = false; for (auto v : m.vs) if (path(v, v)) cyclic = true;
    ++checks; if (g.HasLoop() != cyclic) bad("hasloop", "HasLoop", tf(g.HasLoop()), tf(cyclic));
    const auto expLoops = m.cyclic_sccs();
    {
      ++checks;
      const auto raw = g.GetAllLoopsItems();
      std::vector<VSet> groups; for (auto& grp : raw) groups.push_back(toV(grp));
      const std::set<VSet> got(groups.begin(), groups.end());
      if (got.size() != groups.size()) bad("loops-duplicate-group", "GetAllLoopsItems lists a group twice", refgraph::show(got), refgraph::show(expLoops));
      if (got != expLoops) {
        // classify: "every reported group is one cyclic SCC plus vertices downstream of it, groups disjoint, no cyclic SCC lost outside a group"
        bool downstreamOnly = !got.empty();
        VSet seenV;
        for (auto& G : got) {
          bool rooted = false;
          for (auto& C : expLoops) if (std::includes(G.begin(), G.end(), C.begin(), C.end())) { const auto reach = m.succ_closure(C); if (std::includes(reach.begin(), reach.end(), G.begin(), G.end())) rooted = true; }
          if (!rooted) downstreamOnly = false;
          for (auto v : G) if (!seenV.insert(v).second) downstreamOnly = false;
        }
        for (auto& C : expLoops) { bool covered = false; for (auto& G : got) if (std::includes(G.begin(), G.end(), C.begin(), C.end())) covered = true; if (!covered) downstreamOnly = false; }
        if (downstreamOnly) bad("loops-not-scc", "GetAllLoopsItems: a reported group is a cyclic component PLUS vertices merely reachable from it (not a strongly connected component)", refgraph::show(got), refgraph::show(expLoops));
        else bad("loops-wrong", "GetAllLoopsItems differs from the set of strongly connected components that contain a cycle", refgraph::show(got), refgraph::show(expLoops));
      }
    }

    // orders
    std::vector<EntityUID> topo = g.TopologicalOrder();
    {
      const auto inv = g.InverseTopologicalOrder();
      ++checks; if (!m.is_permutation_of_items(topo)) bad("topo-not-permutation", "TopologicalOrder must list every live item exactly once", refgraph::show(topo), refgraph::show(m.vs));
      ++checks; if (!cyclic && !m.edges_forward(topo)) bad("topo-edge-backward", "acyclic graph: TopologicalOrder must place every source before its targets", refgraph::show(topo));
      ++checks; { auto r = inv; std::reverse(r.begin(), r.end()); if (r != topo) bad("inverse-topo", "InverseTopologicalOrder must be the reverse of TopologicalOrder", refgraph::show(inv), refgraph::show(topo)); }
    }
    for (int mask = 0; mask < (1 << nq); ++mask) {
      SetOfEntities in; VSet inV;
      for (int i = 0; i < nq; ++i) if (mask & (1 << i)) { in.insert(Q[static_cast<size_t>(i)]); inV.insert(Q[static_cast<size_t>(i)]); }
      ++checks;
      const auto got = g.Sort(in); const auto exp = Digraph::subsequence(topo, inV);
      if (got != exp) bad("sort", "Sort(" + refgraph::show(inV) + ") must be the sub-sequence of TopologicalOrder with exactly the live members", refgraph::show(got), refgraph::show(exp));
    }

    if (b.updatable) { ++checks; if (b.upd->IsBroken() != b.mInvalid) bad("isbroken", "IsBroken", tf(b.upd->IsBroken()), tf(b.mInvalid)); }
    // queries are const: the representation may not move
    ++checks; if (graph_key(g) != keyBefore) bad("query-changed-representation", "a query modified the graph representation", graph_key(g), keyBefore);

    c.rep.count("checks", checks);
    c.rep.count("evaluations");
    if (m.edge_count() > 0) c.rep.count("nontrivial");
    bool tomb = false; for (auto& r : g.graph) if (!r.isValid) tomb = true;
    c.rep.outcome(std::string(cyclic ? "cyclic" : "acyclic") + "/loops" + std::to_string(expLoops.size()) + "/items" + std::to_string(m.item_count()) + (tomb ? "+tombstone" : "") + (b.mInvalid ? "+broken" : ""));
  }
};

}  // namespace

int main(int argc, char** argv) {
  Options opt = parse_args(argc, argv);
  const double t0 = now_s();
  Result res; res.property = "C14"; res.harness = "h_graph"; res.mode = opt.mode; res.tier = opt.tier;
  GraphSys sys;
  int depth = 0;
  if (opt.mode == "cgraph") { sys.n = static_cast<int>(opt.num("universe", 3)); depth = static_cast<int>(opt.num("depth", opt.thorough() ? 7 : 5)); }
  else if (opt.mode == "cgraph4") { sys.n = static_cast<int>(opt.num("universe", 4)); depth = static_cast<int>(opt.num("depth", 3)); }
  else if (opt.mode == "cgraph4e") { sys.n = static_cast<int>(opt.num("universe", 4)); sys.setInputs = false; depth = static_cast<int>(opt.num("depth", 5)); }
  else if (opt.mode == "updatable") { sys.updatable = true; sys.n = static_cast<int>(opt.num("universe", 3)); depth = static_cast<int>(opt.num("depth", opt.thorough() ? 6 : 5)); }
  else { fprintf(stderr, "unknown mode\n"); return 2; }
  if (sys.n < 1 || sys.n > 6) { fprintf(stderr, "universe out of range\n"); return 2; }

  if (opt.kv.count("bfs-replay")) {
    Ctx c; c.label = opt.mode + "/replay";
    Bfs<GraphSys>::replay_history(sys, opt.kv.at("bfs-replay"), c);
    res.rep = c.rep; res.states = res.evaluations = res.rep.counters["evaluations"]; res.transitions = res.traces_validated = res.states;
    res.completed_bound = "replay of one recorded history";
  } else {
    BfsStats st = Bfs<GraphSys>::run(sys, opt, depth, res.rep, opt.mode);
    res.states = st.states; res.transitions = st.transitions; res.traces_validated = st.transitions;
    res.evaluations = res.rep.counters["evaluations"];
    res.distinct_nontrivial = res.rep.counters["nontrivial"];
    res.exhaustive = st.exhaustive;
    res.completed_bound = "all histories of <= " + std::to_string(st.completed_depth) + " operations (requested " + std::to_string(depth) + ") from each of 3 seed states, universe {1.." + std::to_string(sys.n) + "}";
    std::string ls = "["; for (size_t i = 0; i < st.level_sizes.size(); ++i) ls += (i ? "," : "") + std::to_string(st.level_sizes[i]); ls += "]";
    res.extra["x_level_sizes"] = ls;
    res.extra["x_transitions_changing_state"] = std::to_string(st.changed);
  }
  const std::string U = "{1.." + std::to_string(sys.n) + "}";
  res.alphabet = sys.updatable
    ? "UpdatableGraph over U=" + U + ": AddItem(u) EraseItem(u) AddConnection(u,v) (all pairs, self-loops, duplicates) UpdateFor(u) with callback answer = every S subset of U, Invalidate, SetValid, Clear; seeds: empty | tombstone + 2-cycle | chain 1>2>3 created in reverse order, broken"
    : "CGraph over U=" + U + ": AddItem(u) EraseItem(u) AddConnection(u,v) (all pairs, self-loops, duplicates) " + (sys.setInputs ? "SetItemInputs(u,S) for every S subset of U, " : "(SetItemInputs not offered in this mode) ") + "Clear; seeds: empty | tombstone + 2-cycle | chain 1>2>3 created in reverse order";
  res.rule = "state = exact private representation (vertex records with tombstones and adjacency order + uid->index map [+ invalid flag]) reached by a history replayed on a fresh real object; "
             "every distinct state gets the battery: Contains / InputsFor on U+{foreign 9}, ConnectionExists + IsReachableFrom on all ordered pairs, ItemsCount, ConnectionsCount, ExpandOutputs / ExpandInputs / Sort on ALL subsets of U+{9}, "
             "HasLoop, GetAllLoopsItems == cyclic SCCs (set of sets), TopologicalOrder permutation (+ edges forward when acyclic), InverseTopologicalOrder == reverse; every transition: counts, documented no-ops leave the representation unchanged; "
             "non-trivial = state with at least one edge; evaluations = states on which the battery ran";
  res.assumptions = { "identifier universe {1..n} plus one never-inserted id 9", "unordered_set arguments are filled in ascending order (their iteration order is fixed by libstdc++ 12)",
                      "IsReachableFrom(x,x) for x on a longer cycle without self-loop is undocumented upstream and not asserted", "clang 14 + libstdc++ 12, ASan+UBSan build" };
  res.wall_s = now_s() - t0;
  res.write(opt.out.empty() ? "/dev/stdout" : opt.out);
  return 0;
}
