#!/bin/bash
# Runs ./check for the given properties (default: all registered) sequentially; one summary line each in build/run_all.log
cd "$(dirname "$0")/.."
TIER="${1:-quick}"; shift || true
PROPS="$*"; [ -z "$PROPS" ] && PROPS="$(python3 check --list | cut -d' ' -f1)"
mkdir -p build
for P in $PROPS; do
  s=$(date +%s)
  ./check "$P" --tier "$TIER" > "build/last-$P-$TIER.log" 2>&1; rc=$?
  echo "$(date +%H:%M:%S) $P tier=$TIER exit=$rc $(( $(date +%s) - s ))s :: $(tail -1 build/last-$P-$TIER.log | cut -c1-200)" | tee -a build/run_all.log
done
