// Reference semantics of RSLang over the independent abstract syntax (model/rsast.hpp):
//   * typing judgement  Γ ⊢ e : τ        (DESIGN.md appendix A)
//   * value-class rules (value / props)
//   * set-theoretic evaluation            (DESIGN.md appendix B)
// Written as rules over rsast::Node; shares no code with /repo. Deliberately naive.
#pragma once
#include "model/rsast.hpp"

#include <algorithm>
#include <map>
#include <optional>
#include <set>
#include <string>
#include <vector>

namespace rssem {
using rsast::K;
using rsast::Node;

// ---------------------------------------------------------------------------------------------------
// Typifications
struct Ty {
  enum Kind { Base, Tuple, Set } kind{ Base };
  std::string name;        // Base
  std::vector<Ty> comp;    // Tuple: components (>= 2); Set: exactly one
  static Ty base(std::string n) { Ty t; t.kind = Base; t.name = std::move(n); return t; }
  static Ty set(Ty e) { Ty t; t.kind = Set; t.comp.push_back(std::move(e)); return t; }
  static Ty tuple(std::vector<Ty> c) { if (c.size() == 1) return c[0]; Ty t; t.kind = Tuple; t.comp = std::move(c); return t; }
  static Ty integer() { return base("Z"); }
  static Ty any() { return base("R0"); }
  bool isAny() const { return kind == Base && name == "R0"; }
  bool isSet() const { return kind == Set; }
  bool isTuple() const { return kind == Tuple; }
  const Ty& elem() const { return comp[0]; }
  bool operator==(const Ty& o) const { return kind == o.kind && name == o.name && comp == o.comp; }
  bool operator!=(const Ty& o) const { return !(*this == o); }
  bool operator<(const Ty& o) const { return str() < o.str(); }
  // printing convention of typification strings: X1, X1×X1, (X1×X1)×X1, ℬ(X1), ℬℬ(X1), ℬ(X1×X1)
  std::string str() const {
    switch (kind) {
      case Base: return name;
      case Tuple: { std::string s; for (size_t i = 0; i < comp.size(); ++i) { if (i) s += "\xC3\x97"; if (comp[i].isTuple()) s += "(" + comp[i].str() + ")"; else s += comp[i].str(); } return s; }
      case Set: return comp[0].isSet() ? "\xE2\x84\xAC" + comp[0].str() : "\xE2\x84\xAC(" + comp[0].str() + ")";
    }
    return "?";
  }
};
struct ETy {  // type of an expression: LOGIC or a typification
  bool logic{ false }; Ty ty;
  static ETy L() { ETy e; e.logic = true; return e; }
  static ETy T(Ty t) { ETy e; e.ty = std::move(t); return e; }
  std::string str() const { return logic ? "LOGIC" : ty.str(); }
  bool operator==(const ETy& o) const { return logic == o.logic && (logic || ty == o.ty); }
};

inline bool isRadicalName(const std::string& n) { return n.size() >= 2 && n[0] == 'R' && n[1] != '0' && std::isdigit(static_cast<unsigned char>(n[1])); }

// ---------------------------------------------------------------------------------------------------
// Context Γ
struct Traits { bool ordered{ false }, operable{ false }, fromInt{ false }; };
enum class VClass { invalid, value, props };
struct Global {
  std::optional<ETy> type;                                   // absent: not typed
  std::optional<std::vector<std::pair<std::string, Ty>>> args;  // present: callable
  VClass vclass{ VClass::value };
  std::optional<Node> definition;                             // FuncDef node for callables (body used for inlining / props audit)
};
struct Context {
  std::map<std::string, Global> globals;
  std::map<std::string, Traits> traits;   // per base-set name; "Z" is built in
  std::optional<Traits> traitsFor(const Ty& t) const {
    if (t.kind != Ty::Base) return std::nullopt;
    if (t.name == "Z") return Traits{ true, true, true };
    auto it = traits.find(t.name); if (it == traits.end()) return std::nullopt; return it->second;
  }
};

// ---------------------------------------------------------------------------------------------------
// Typing
struct TypeResult { bool ok{ false }; ETy type; std::vector<std::pair<std::string, Ty>> args; std::string why; };

class Typer {
  const Context& ctx;
  struct Var { std::string name; Ty ty; };
  std::vector<std::vector<Var>> scopes;   // lexical scopes, innermost last
  bool inArgDomains{ false };
  std::string why;
  std::vector<std::pair<std::string, Ty>> declaredArgs;

  bool fail(const std::string& w) { if (why.empty()) why = w; return false; }
  const Ty* lookup(const std::string& n) const { for (auto s = scopes.rbegin(); s != scopes.rend(); ++s) for (auto& v : *s) if (v.name == n) return &v.ty; return nullptr; }
  bool declare(const std::string& n, const Ty& t) { if (lookup(n) != nullptr) return fail("shadowing of " + n); scopes.back().push_back({ n, t }); return true; }

  // common type of two DIFFERENT base types: only integer <-> type convertible from integers
  std::optional<Ty> common(const Ty& a, const Ty& b) const {
    if (a == Ty::integer()) { auto t = ctx.traitsFor(b); if (t && t->fromInt) return b; return std::nullopt; }
    if (b == Ty::integer()) { auto t = ctx.traitsFor(a); if (t && t->fromInt) return a; return std::nullopt; }
    return std::nullopt;
  }

 public:
  explicit Typer(const Context& c) : ctx(c) {}

  bool compatible(const Ty& a, const Ty& b) const {
    if (a == b || a.isAny() || b.isAny()) return true;
    if (a.kind != b.kind) return false;
    switch (a.kind) {
      case Ty::Base: return common(a, b).has_value();
      case Ty::Set: return compatible(a.elem(), b.elem());
      case Ty::Tuple: if (a.comp.size() != b.comp.size()) return false; for (size_t i = 0; i < a.comp.size(); ++i) if (!compatible(a.comp[i], b.comp[i])) return false; return true;
    }
    return false;
  }
  std::optional<Ty> merge(const Ty& a, const Ty& b) const {
    if (a == b) return a;
    if (a.isAny()) return b;
    if (b.isAny()) return a;
    if (a.kind != b.kind) return std::nullopt;
    switch (a.kind) {
      case Ty::Base: return common(a, b);
      case Ty::Set: { auto e = merge(a.elem(), b.elem()); if (!e) return std::nullopt; return Ty::set(*e); }
      case Ty::Tuple: {
        if (a.comp.size() != b.comp.size()) return std::nullopt;
        std::vector<Ty> c; for (size_t i = 0; i < a.comp.size(); ++i) { auto m = merge(a.comp[i], b.comp[i]); if (!m) return std::nullopt; c.push_back(*m); }
        return Ty::tuple(c);
      }
    }
    return std::nullopt;
  }
  // first-order matching of a declared parameter type against an actual type; radicals of the callee bind
  bool matchParam(std::map<std::string, Ty>& bind, const Ty& formal, const Ty& actual) const {
    if (formal.kind == Ty::Base && isRadicalName(formal.name)) {
      auto it = bind.find(formal.name);
      if (it == bind.end()) { bind[formal.name] = actual; return true; }
      auto m = merge(it->second, actual); if (!m) return false; it->second = *m; return true;
    }
    if (formal == actual) return true;
    if (actual.isAny()) return true;
    if (formal.kind != actual.kind) return false;
    switch (formal.kind) {
      case Ty::Base: return common(formal, actual).has_value();
      case Ty::Set: return matchParam(bind, formal.elem(), actual.elem());
      case Ty::Tuple: if (formal.comp.size() != actual.comp.size()) return false; for (size_t i = 0; i < formal.comp.size(); ++i) if (!matchParam(bind, formal.comp[i], actual.comp[i])) return false; return true;
    }
    return false;
  }
  static Ty substitute(const Ty& t, const std::map<std::string, Ty>& bind) {
    if (t.kind == Ty::Base) { auto it = bind.find(t.name); return it == bind.end() ? t : it->second; }
    Ty r = t; for (auto& c : r.comp) c = substitute(c, bind); return r;
  }

  TypeResult check(const Node& root) {
    scopes.clear(); scopes.emplace_back(); why.clear(); declaredArgs.clear(); inArgDomains = false;
    TypeResult r; ETy t;
    r.ok = typeOf(root, K::Define /*no parent*/, true, t);
    r.type = t; r.args = declaredArgs; r.why = why;
    return r;
  }

 private:
  // ⌊e⌋ : element type of a set-typed (or any-typed) expression
  bool elemType(const Node& n, K parent, Ty& out, const char* what) {
    ETy t; if (!typeOf(n, parent, false, t)) return false;
    if (t.logic) return fail(std::string(what) + ": logical value where a set is required");
    if (t.ty.isAny()) { out = t.ty; return true; }
    if (!t.ty.isSet()) return fail(std::string(what) + ": operand is not a set: " + t.ty.str());
    out = t.ty.elem(); return true;
  }
  bool termType(const Node& n, K parent, Ty& out) {
    ETy t; if (!typeOf(n, parent, false, t)) return false;
    if (t.logic) return fail("logical value where a term is required");
    out = t.ty; return true;
  }
  bool bind(const Node& decl, const Ty& t) {  // variable / tuple pattern / enumerated declaration against a domain element type
    switch (decl.k) {
      case K::Local: return declare(decl.text, t);
      case K::TupleDecl:
        if (!t.isTuple() || t.comp.size() != decl.ch.size()) return fail("tuple pattern does not match " + t.str());
        for (size_t i = 0; i < decl.ch.size(); ++i) if (!bind(decl.ch[i], t.comp[i])) return false;
        return true;
      case K::EnumDecl: for (auto& c : decl.ch) if (!bind(c, t)) return false; return true;
      default: return fail("not a declaration");
    }
  }

  bool typeOf(const Node& n, K parent, bool isRoot, ETy& out) {
    auto T = [&](Ty t) { out = ETy::T(std::move(t)); return true; };
    auto L = [&]() { out = ETy::L(); return true; };
    switch (n.k) {
      case K::Int: return T(Ty::integer());
      case K::IntSet: return T(Ty::set(Ty::integer()));
      case K::EmptySet: {
        if (!isRoot) switch (parent) { case K::Card: case K::Debool: case K::Union: case K::Intersect: case K::SetMinus: case K::SymMinus: case K::Reduce: case K::BigPr: case K::SmallPr: return fail("meaningless use of the empty set"); default: break; }
        return T(Ty::set(Ty::any()));
      }
      case K::Global: case K::Function: case K::Predicate: {
        auto it = ctx.globals.find(n.text);
        if (it != ctx.globals.end() && it->second.args.has_value()) return fail("callable used without arguments: " + n.text);
        if (it == ctx.globals.end() || !it->second.type.has_value()) return fail("global not typed: " + n.text);
        if (it->second.type->logic) return fail("logical global in term position: " + n.text);
        return T(it->second.type->ty);
      }
      case K::Radical:
        if (!inArgDomains) return fail("radical outside of a function declaration");
        return T(Ty::set(Ty::base(n.text)));
      case K::Local: { const Ty* t = lookup(n.text); if (t == nullptr) return fail("local not in scope: " + n.text); return T(*t); }
      case K::Plus: case K::Minus: case K::Mult: {
        Ty a, b; if (!termType(n.ch[0], n.k, a)) return false;
        { auto tr = ctx.traitsFor(a); if (!tr || !tr->operable) return fail("arithmetic not supported for " + a.str()); }
        if (!termType(n.ch[1], n.k, b)) return false;
        { auto tr = ctx.traitsFor(b); if (!tr || !tr->operable) return fail("arithmetic not supported for " + b.str()); }
        auto m = merge(a, b); if (!m) return fail("arithmetic operands incompatible"); return T(*m);
      }
      case K::Card: { Ty e; if (!elemType(n.ch[0], n.k, e, "card")) return false; return T(Ty::integer()); }
      case K::Gr: case K::Ls: case K::Ge: case K::Le: {
        Ty a, b; if (!termType(n.ch[0], n.k, a)) return false;
        { auto tr = ctx.traitsFor(a); if (!tr || !tr->ordered) return fail("ordering not supported for " + a.str()); }
        if (!termType(n.ch[1], n.k, b)) return false;
        { auto tr = ctx.traitsFor(b); if (!tr || !tr->ordered) return fail("ordering not supported for " + b.str()); }
        if (!compatible(a, b)) return fail("ordered operands incompatible"); return L();
      }
      case K::Eq: case K::Ne: { Ty a, b; if (!termType(n.ch[0], n.k, a) || !termType(n.ch[1], n.k, b)) return false; if (!compatible(a, b)) return fail("equality operands incompatible: " + a.str() + " vs " + b.str()); return L(); }
      case K::In: case K::NotIn: {
        Ty e, a; if (!elemType(n.ch[1], n.k, e, "membership")) return false; if (!termType(n.ch[0], n.k, a)) return false;
        if (!compatible(a, e)) return fail("element type does not fit the set"); return L();
      }
      case K::Subset: case K::SubsetEq: case K::NotSubset: {
        Ty e, a; if (!elemType(n.ch[1], n.k, e, "subset")) return false; if (!termType(n.ch[0], n.k, a)) return false;
        if (!compatible(a, Ty::set(e))) return fail("subset operands differ in type"); return L();
      }
      case K::Not: case K::Equiv: case K::Impl: case K::Or: case K::And: {
        for (auto& c : n.ch) { ETy t; if (!typeOf(c, n.k, false, t)) return false; }   // operands are formulas by grammar
        return L();
      }
      case K::Forall: case K::Exists: {
        scopes.emplace_back();
        Ty dom; if (!elemType(n.ch[1], n.k, dom, "quantifier domain")) return false;
        if (!bind(n.ch[0], dom)) return false;
        ETy body; if (!typeOf(n.ch[2], n.k, false, body)) return false;
        scopes.pop_back(); return L();
      }
      case K::Declarative: {
        scopes.emplace_back();
        Ty dom; if (!elemType(n.ch[1], n.k, dom, "declarative domain")) return false;
        if (!bind(n.ch[0], dom)) return false;
        ETy body; if (!typeOf(n.ch[2], n.k, false, body)) return false;
        scopes.pop_back(); return T(Ty::set(dom));
      }
      case K::Imperative: {
        scopes.emplace_back();
        for (size_t i = 1; i < n.ch.size(); ++i) {
          const Node& b = n.ch[i];
          if (b.k == K::Iterate) { Ty dom; if (!elemType(b.ch[1], b.k, dom, "iteration domain")) return false; if (!bind(b.ch[0], dom)) return false; }
          else if (b.k == K::Assign) { Ty v; if (!termType(b.ch[1], b.k, v)) return false; if (!bind(b.ch[0], v)) return false; }
          else { ETy g; if (!typeOf(b, n.k, false, g)) return false; }
        }
        Ty v; if (!termType(n.ch[0], n.k, v)) return false;
        scopes.pop_back(); return T(Ty::set(v));
      }
      case K::RecFull: case K::RecShort: {
        const size_t it = n.k == K::RecFull ? 3 : 2;
        scopes.emplace_back();
        Ty init; if (!termType(n.ch[1], n.k, init)) return false;
        if (!bind(n.ch[0], init)) return false;
        Ty cur; if (!termType(n.ch[it], n.k, cur)) return false;
        if (!compatible(cur, init)) return fail("recursion step type differs from the initial value");
        if (auto m = merge(cur, init)) cur = *m;    // the value may be the initial one: principal type is the join of both
        for (int round = 0; round < 5; ++round) {   // iteration to a fixpoint (bounded)
          scopes.back().clear();
          if (!bind(n.ch[0], cur)) return false;
          Ty next; if (!termType(n.ch[it], n.k, next)) return false;
          if (auto m = merge(next, cur)) next = *m;
          if (next == cur) break;
          cur = next;
        }
        if (n.k == K::RecFull) { ETy c; if (!typeOf(n.ch[2], n.k, false, c)) return false; }
        scopes.pop_back(); return T(cur);
      }
      case K::Decart: { std::vector<Ty> f; for (auto& c : n.ch) { Ty e; if (!elemType(c, n.k, e, "product")) return false; f.push_back(e); } return T(Ty::set(Ty::tuple(f))); }
      case K::Boolean: { Ty e; if (!elemType(n.ch[0], n.k, e, "powerset")) return false; return T(Ty::set(Ty::set(e))); }
      case K::Tuple: { std::vector<Ty> f; for (auto& c : n.ch) { Ty t; if (!termType(c, n.k, t)) return false; f.push_back(t); } return T(Ty::tuple(f)); }
      case K::Enumeration: case K::Bool: {
        Ty acc; if (!termType(n.ch[0], n.k, acc)) return false;
        for (size_t i = 1; i < n.ch.size(); ++i) { Ty t; if (!termType(n.ch[i], n.k, t)) return false; auto m = merge(acc, t); if (!m) return fail("enumeration elements differ in type"); acc = *m; }
        return T(Ty::set(acc));
      }
      case K::Debool: { Ty e; if (!elemType(n.ch[0], n.k, e, "debool")) return false; return T(e); }
      case K::Union: case K::Intersect: case K::SetMinus: case K::SymMinus: {
        Ty a, b; if (!elemType(n.ch[0], n.k, a, "set operation") || !elemType(n.ch[1], n.k, b, "set operation")) return false;
        auto m = merge(a, b); if (!m) return fail("set operands differ in type"); return T(Ty::set(*m));
      }
      case K::BigPr: {
        Ty e; if (!elemType(n.ch[0], n.k, e, "projection")) return false;
        if (e.isAny()) return T(Ty::set(Ty::any()));
        if (!e.isTuple()) return fail("set projection of non-tuples");
        std::vector<Ty> c; for (int i : n.idx) { if (i < 1 || i > static_cast<int>(e.comp.size())) return fail("projection index out of range"); c.push_back(e.comp[static_cast<size_t>(i - 1)]); }
        if (c.empty()) return fail("projection without indices");
        return T(Ty::set(Ty::tuple(c)));
      }
      case K::SmallPr: {
        Ty a; if (!termType(n.ch[0], n.k, a)) return false;
        if (a.isAny()) return T(a);
        if (!a.isTuple()) return fail("tuple projection of a non-tuple");
        std::vector<Ty> c; for (int i : n.idx) { if (i < 1 || i > static_cast<int>(a.comp.size())) return fail("projection index out of range"); c.push_back(a.comp[static_cast<size_t>(i - 1)]); }
        if (c.empty()) return fail("projection without indices");
        return T(Ty::tuple(c));
      }
      case K::Filter: {
        const size_t params = n.ch.size() - 1;
        const bool perIndex = n.idx.size() == params;
        if (!perIndex && params > 1) return fail("filter arity");
        Ty arg; if (!termType(n.ch.back(), n.k, arg)) return false;
        if (arg.isAny() || (arg.isSet() && arg.elem().isAny())) return T(Ty::set(Ty::any()));
        if (!arg.isSet() || !arg.elem().isTuple()) return fail("filter argument is not a set of tuples");
        std::vector<Ty> bases; for (int i : n.idx) { if (i < 1 || i > static_cast<int>(arg.elem().comp.size())) return fail("filter index out of range"); bases.push_back(arg.elem().comp[static_cast<size_t>(i - 1)]); }
        if (bases.empty()) return fail("filter without indices");
        if (perIndex) {
          for (size_t i = 0; i < params; ++i) { Ty p; if (!termType(n.ch[i], n.k, p)) return false; if (!p.isSet() || !compatible(bases[i], p.elem())) return fail("filter parameter type"); }
        } else {
          Ty p; if (!termType(n.ch[0], n.k, p)) return false;
          if (!p.isSet() || !compatible(Ty::set(Ty::tuple(bases)), p)) return fail("filter parameter type");
        }
        return T(arg);
      }
      case K::Reduce: {
        Ty a; if (!termType(n.ch[0], n.k, a)) return false;
        if (a.isAny() || (a.isSet() && a.elem().isAny())) return T(Ty::set(Ty::any()));
        if (!a.isSet() || !a.elem().isSet()) return fail("reduce needs a set of sets");
        return T(a.elem());
      }
      case K::FuncCall: {
        const std::string& f = n.ch[0].text;
        auto it = ctx.globals.find(f);
        if (it == ctx.globals.end() || !it->second.type.has_value()) return fail("callable not typed: " + f);
        if (!it->second.args.has_value()) return fail("not a callable: " + f);
        const auto& formals = *it->second.args;
        if (formals.size() != n.ch.size() - 1) return fail("wrong number of arguments");
        std::map<std::string, Ty> bindR;
        for (size_t i = 1; i < n.ch.size(); ++i) { Ty a; if (!termType(n.ch[i], n.k, a)) return false; if (!matchParam(bindR, formals[i - 1].second, a)) return fail("argument type does not match the declaration"); }
        if (it->second.type->logic) return L();
        return T(substitute(it->second.type->ty, bindR));
      }
      case K::FuncDef: {
        scopes.emplace_back();
        for (auto& arg : n.ch[0].ch) {   // ARG(local, domain)
          Ty dom; inArgDomains = true; const bool ok = elemType(arg.ch[1], K::ArgDecl, dom, "argument domain"); inArgDomains = false;
          if (!ok) return false;
          if (!declare(arg.ch[0].text, dom)) return false;
          declaredArgs.emplace_back(arg.ch[0].text, dom);
        }
        ETy body; if (!typeOf(n.ch[1], n.k, false, body)) return false;
        scopes.pop_back(); out = body; return true;
      }
      case K::Define: {
        if (n.ch.size() == 1) return T(Ty::set(Ty::base(n.ch[0].text)));
        return typeOf(n.ch[1], n.k, false, out);
      }
      case K::Struct: {
        if (n.ch.size() != 2 || !isEchelon(n.ch[1])) return fail("structure must be an echelon expression");
        Ty t; if (!termType(n.ch[1], n.k, t)) return false;
        if (!t.isSet()) return fail("structure domain is not a set");
        return T(t.elem());
      }
      default: return fail("construct cannot be typed here");
    }
  }
  static bool isEchelon(const Node& n) {
    switch (n.k) { case K::IntSet: case K::Global: case K::Boolean: case K::Decart: case K::Enumeration: break; default: return false; }
    for (auto& c : n.ch) if (!isEchelon(c)) return false; return true;
  }
};

// ---------------------------------------------------------------------------------------------------
// Value class (value / props).  Returns invalid when the audit rejects.
class Valuer {
  const Context& ctx;
  std::set<std::string> propLocals;
 public:
  explicit Valuer(const Context& c) : ctx(c) {}
  VClass check(const Node& n) { VClass v; return cls(n, v) ? v : VClass::invalid; }
 private:
  bool value(const Node& n) { VClass v; return cls(n, v) && v == VClass::value; }
  bool allValues(const Node& n) { for (auto& c : n.ch) if (!value(c)) return false; return true; }
  bool visitAll(const Node& n, VClass& last) { for (auto& c : n.ch) if (!cls(c, last)) return false; return true; }
  bool cls(const Node& n, VClass& out) {
    auto V = [&]() { out = VClass::value; return true; };
    auto P = [&]() { out = VClass::props; return true; };
    VClass tmp = VClass::invalid;
    switch (n.k) {
      case K::Int: case K::EmptySet: case K::Radical: return V();
      case K::IntSet: return P();
      case K::Local: return propLocals.count(n.text) ? P() : V();
      case K::Global: case K::Function: case K::Predicate: { auto it = ctx.globals.find(n.text); if (it == ctx.globals.end() || it->second.vclass == VClass::invalid) return false; out = it->second.vclass; return true; }
      case K::Plus: case K::Minus: case K::Mult: case K::Gr: case K::Ls: case K::Ge: case K::Le: case K::Not: case K::Equiv: case K::Impl: case K::Or: case K::And:
      case K::TupleDecl: case K::EnumDecl:
        return visitAll(n, tmp) && V();
      case K::Card: case K::Bool: case K::Debool: case K::BigPr: case K::SmallPr: case K::Reduce: if (!value(n.ch[0])) return false; return V();
      case K::Eq: case K::Ne: case K::Tuple: case K::Enumeration: case K::RecFull: case K::RecShort: case K::Subset: case K::NotSubset: if (!allValues(n)) return false; return V();
      case K::In: case K::NotIn: case K::SubsetEq: if (!cls(n.ch[1], tmp)) return false; if (!value(n.ch[0])) return false; return V();
      case K::Forall: case K::Exists: if (!value(n.ch[1])) return false; return cls(n.ch[2], out);
      case K::Declarative: if (!cls(n.ch[2], tmp)) return false; return cls(n.ch[1], out);
      case K::Imperative: for (size_t i = 1; i < n.ch.size(); ++i) if (!cls(n.ch[i], tmp)) return false; if (!value(n.ch[0])) return false; return V();
      case K::Iterate: case K::Assign: if (!value(n.ch[1])) return false; return V();
      case K::Decart: { bool props = false; for (auto& c : n.ch) { if (!cls(c, tmp)) return false; props |= tmp == VClass::props; } return props ? P() : V(); }
      case K::Boolean: if (!cls(n.ch[0], tmp)) return false; return P();
      case K::Union: case K::SymMinus: case K::Intersect: case K::SetMinus: {
        VClass a, b; if (!cls(n.ch[0], a) || !cls(n.ch[1], b)) return false;
        const bool va = a == VClass::value, vb = b == VClass::value;
        const bool v = (n.k == K::Intersect) ? (va || vb) : (n.k == K::SetMinus) ? va : (va && vb);
        return v ? V() : P();
      }
      case K::Filter: return visitAll(n, out);
      case K::FuncDef: case K::Arguments: case K::ArgDecl: return visitAll(n, out);
      case K::Define: if (n.ch.size() == 1) return V(); return cls(n.ch[1], out);
      case K::Struct: if (!cls(n.ch[1], tmp)) return false; return V();
      case K::FuncCall: {
        auto it = ctx.globals.find(n.ch[0].text); if (it == ctx.globals.end() || it->second.vclass == VClass::invalid) return false;
        bool allV = true; std::vector<VClass> a;
        for (size_t i = 1; i < n.ch.size(); ++i) { if (!cls(n.ch[i], tmp)) return false; a.push_back(tmp); allV = allV && tmp == VClass::value; }
        if (allV) { out = it->second.vclass; return true; }
        if (!it->second.definition.has_value()) return false;
        // re-audit the body with the parameters that received properties marked as properties
        const Node& def = *it->second.definition;  // FuncDef(ARGS, body)
        Valuer inner(ctx);
        for (size_t i = 0; i < def.ch[0].ch.size() && i < a.size(); ++i) if (a[i] == VClass::props) inner.propLocals.insert(def.ch[0].ch[i].ch[0].text);
        VClass r; if (!inner.cls(def.ch[1], r)) return false; out = r; return true;
      }
    }
    return false;
  }
};

// ---------------------------------------------------------------------------------------------------
// Values and evaluation
struct Val {
  enum Kind { Int, Tuple, Set } kind{ Int };
  int64_t i{ 0 };
  std::vector<Val> items;   // Tuple: components; Set: sorted, duplicate-free
  static Val integer(int64_t v) { Val x; x.kind = Int; x.i = v; return x; }
  static Val tuple(std::vector<Val> c) { if (c.size() == 1) return c[0]; Val x; x.kind = Tuple; x.items = std::move(c); return x; }
  static Val set(std::vector<Val> e) { Val x; x.kind = Set; std::sort(e.begin(), e.end()); e.erase(std::unique(e.begin(), e.end()), e.end()); x.items = std::move(e); return x; }
  // single-pass three-way comparison (vector's operator< would compare nested values twice per level: exponential in depth)
  int cmp(const Val& o) const {
    if (kind != o.kind) return kind < o.kind ? -1 : 1;
    if (kind == Int) return i < o.i ? -1 : i > o.i ? 1 : 0;
    const size_t n = std::min(items.size(), o.items.size());
    for (size_t k = 0; k < n; ++k) { const int c = items[k].cmp(o.items[k]); if (c != 0) return c; }
    return items.size() < o.items.size() ? -1 : items.size() > o.items.size() ? 1 : 0;
  }
  bool operator==(const Val& o) const { return cmp(o) == 0; }
  bool operator!=(const Val& o) const { return cmp(o) != 0; }
  bool operator<(const Val& o) const { return cmp(o) < 0; }
  bool contains(const Val& e) const { return std::binary_search(items.begin(), items.end(), e); }
  std::string str() const {
    if (kind == Int) return std::to_string(i);
    std::string s = kind == Tuple ? "(" : "{"; for (size_t k = 0; k < items.size(); ++k) { if (k) s += ","; s += items[k].str(); } return s + (kind == Tuple ? ")" : "}");
  }
};
struct EVal { bool isBool{ false }; bool b{ false }; Val v; };

enum class EvalErr { none, deboolNonSingleton, infinity, missingValue, limit, intOverflow };

struct Data { std::map<std::string, Val> globals; };

class Evaluator {
  const Context& ctx; const Data& data;
  std::vector<std::pair<std::string, Val>> env;
  size_t budget;
 public:
  EvalErr err{ EvalErr::none };
  bool eager{ false };   // no short circuits, no early exits: visits every sub-evaluation some order could reach
  Evaluator(const Context& c, const Data& d, size_t budgetSteps = 2000000) : ctx(c), data(d), budget(budgetSteps) {}

  std::optional<EVal> run(const Node& root) { env.clear(); err = EvalErr::none; EVal r; if (!ev(root, r)) return std::nullopt; return r; }

 private:
  bool fail(EvalErr e) { if (err == EvalErr::none) err = e; return false; }
  static size_t weight(const Val& v, size_t cap = 5000) { size_t w = 1; for (auto& x : v.items) { w += weight(x, cap); if (w > cap) return w; } return w; }
  bool step() { if (budget == 0) return fail(EvalErr::limit); --budget; return true; }
  const Val* lookup(const std::string& n) const { for (auto it = env.rbegin(); it != env.rend(); ++it) if (it->first == n) return &it->second; return nullptr; }
  bool term(const Node& n, Val& out) { EVal e; if (!ev(n, e)) return false; out = e.v; return true; }
  bool truth(const Node& n, bool& out) { EVal e; if (!ev(n, e)) return false; out = e.b; return true; }
  // bind a declaration (local / tuple pattern) to a value: pushes variables, returns count pushed
  size_t bindDecl(const Node& d, const Val& v) {
    if (d.k == K::Local) { env.emplace_back(d.text, v); return 1; }
    size_t n = 0; for (size_t i = 0; i < d.ch.size(); ++i) n += bindDecl(d.ch[i], v.items[i]); return n;   // tuple pattern: by projection
  }
  void pop(size_t n) { env.resize(env.size() - n); }

  // quantifier over an enumerated declaration  ∀x,y∈S P  ≡  ∀x∈S ∀y∈S P
  bool quant(const Node& n, const std::vector<const Node*>& vars, size_t at, const Val& dom, bool universal, bool& out) {
    if (at == vars.size()) return truth(n.ch[2], out);
    bool decided = false;
    for (auto& e : dom.items) {
      if (!step()) return false;
      const size_t k = bindDecl(*vars[at], e); bool r; const bool ok = quant(n, vars, at + 1, dom, universal, r); pop(k);
      if (!ok) return false;
      if (r != universal) { decided = true; if (!eager) { out = !universal; return true; } }
    }
    out = decided ? !universal : universal; return true;
  }
  bool imperative(const Node& n, size_t block, std::vector<Val>& acc) {
    if (block == n.ch.size()) { Val v; if (!term(n.ch[0], v)) return false; acc.push_back(v); return true; }
    if (!step()) return false;
    const Node& b = n.ch[block];
    if (b.k == K::Iterate) {
      Val dom; if (!term(b.ch[1], dom)) return false;
      for (auto& e : dom.items) { const size_t k = bindDecl(b.ch[0], e); const bool ok = imperative(n, block + 1, acc); pop(k); if (!ok) return false; }
      return true;
    }
    if (b.k == K::Assign) { Val v; if (!term(b.ch[1], v)) return false; const size_t k = bindDecl(b.ch[0], v); const bool ok = imperative(n, block + 1, acc); pop(k); return ok; }
    bool g; if (!truth(b, g)) return false; if (!g) return true; return imperative(n, block + 1, acc);
  }

  bool ev(const Node& n, EVal& out) {
    if (!step()) return false;
    auto B = [&](bool b) { out = EVal{}; out.isBool = true; out.b = b; return true; };
    auto V = [&](Val v) { out = EVal{}; out.v = std::move(v); return true; };
    switch (n.k) {
      case K::Int: return V(Val::integer(n.ival));
      case K::IntSet: return fail(EvalErr::infinity);
      case K::EmptySet: return V(Val::set({}));
      case K::Local: { const Val* v = lookup(n.text); if (!v) return fail(EvalErr::missingValue); return V(*v); }
      case K::Global: case K::Function: case K::Predicate: { auto it = data.globals.find(n.text); if (it == data.globals.end()) return fail(EvalErr::missingValue); return V(it->second); }
      case K::Plus: case K::Minus: case K::Mult: {
        Val a, b; if (!term(n.ch[0], a) || !term(n.ch[1], b)) return false;
        const int64_t r = n.k == K::Plus ? a.i + b.i : n.k == K::Minus ? a.i - b.i : a.i * b.i;
        if (r > INT32_MAX || r < INT32_MIN) return fail(EvalErr::intOverflow);
        return V(Val::integer(r));
      }
      case K::Card: { Val a; if (!term(n.ch[0], a)) return false; return V(Val::integer(static_cast<int64_t>(a.items.size()))); }
      case K::Gr: case K::Ls: case K::Ge: case K::Le: { Val a, b; if (!term(n.ch[0], a) || !term(n.ch[1], b)) return false; return B(n.k == K::Gr ? a.i > b.i : n.k == K::Ls ? a.i < b.i : n.k == K::Ge ? a.i >= b.i : a.i <= b.i); }
      case K::Eq: case K::Ne: { Val a, b; if (!term(n.ch[0], a) || !term(n.ch[1], b)) return false; return B((a == b) == (n.k == K::Eq)); }
      case K::In: case K::NotIn: { Val a, s; if (!term(n.ch[0], a) || !term(n.ch[1], s)) return false; return B(s.contains(a) == (n.k == K::In)); }
      case K::Subset: case K::SubsetEq: case K::NotSubset: {
        Val a, b; if (!term(n.ch[0], a) || !term(n.ch[1], b)) return false;
        bool sub = true; for (auto& e : a.items) if (!b.contains(e)) sub = false;
        const bool proper = sub && !(a == b);
        return B(n.k == K::SubsetEq ? sub : n.k == K::Subset ? proper : !proper);
      }
      case K::Not: { bool a; if (!truth(n.ch[0], a)) return false; return B(!a); }
      case K::And: case K::Or: case K::Impl: case K::Equiv: {
        bool a; if (!truth(n.ch[0], a)) return false;
        // left-to-right short circuit: the right operand is not evaluated (and cannot fail) when the left decides
        if (!eager) { if ((n.k == K::And && !a) || (n.k == K::Or && a)) return B(a); if (n.k == K::Impl && !a) return B(true); }
        bool b; if (!truth(n.ch[1], b)) return false;
        return B(n.k == K::And ? (a && b) : n.k == K::Or ? (a || b) : n.k == K::Impl ? (!a || b) : (a == b));
      }
      case K::Forall: case K::Exists: {
        Val dom; if (!term(n.ch[1], dom)) return false;
        std::vector<const Node*> vars; if (n.ch[0].k == K::EnumDecl) for (auto& c : n.ch[0].ch) vars.push_back(&c); else vars.push_back(&n.ch[0]);
        bool r; if (!quant(n, vars, 0, dom, n.k == K::Forall, r)) return false; return B(r);
      }
      case K::Declarative: {
        Val dom; if (!term(n.ch[1], dom)) return false; std::vector<Val> acc;
        for (auto& e : dom.items) { if (!step()) return false; const size_t k = bindDecl(n.ch[0], e); bool p; const bool ok = truth(n.ch[2], p); pop(k); if (!ok) return false; if (p) acc.push_back(e); }
        return V(Val::set(acc));
      }
      case K::Imperative: { std::vector<Val> acc; if (!imperative(n, 1, acc)) return false; return V(Val::set(acc)); }
      case K::RecFull: case K::RecShort: {
        Val cur; if (!term(n.ch[1], cur)) return false;
        const size_t it = n.k == K::RecFull ? 3 : 2;
        for (int rounds = 0;; ++rounds) {
          if (rounds > 100) return fail(EvalErr::limit);   // no fixpoint within 100 rounds over tiny data: treated as divergent
          if (!step()) return false;
          const size_t k = bindDecl(n.ch[0], cur);
          if (n.k == K::RecFull) { bool c; if (!truth(n.ch[2], c)) { pop(k); return false; } if (!c) { pop(k); break; } }
          Val next; const bool ok = term(n.ch[it], next); pop(k); if (!ok) return false;
          if (weight(next) > 4000) return fail(EvalErr::limit);   // value keeps growing: divergent
          if (next == cur) break;
          cur = next;
        }
        return V(cur);
      }
      case K::Decart: {
        std::vector<Val> f; for (auto& c : n.ch) { Val v; if (!term(c, v)) return false; f.push_back(v); }
        std::vector<Val> acc; std::vector<Val> cur;
        std::function<bool(size_t)> rec = [&](size_t i) { if (i == f.size()) { if (!step()) return false; acc.push_back(Val::tuple(cur)); return true; } for (auto& e : f[i].items) { cur.push_back(e); const bool ok = rec(i + 1); cur.pop_back(); if (!ok) return false; } return true; };
        if (!rec(0)) return false; return V(Val::set(acc));
      }
      case K::Boolean: {
        Val a; if (!term(n.ch[0], a)) return false;
        if (a.items.size() >= 16) return fail(EvalErr::limit);
        std::vector<Val> acc; const size_t N = a.items.size();
        for (size_t m = 0; m < (size_t{ 1 } << N); ++m) { std::vector<Val> s; for (size_t i = 0; i < N; ++i) if (m & (size_t{ 1 } << i)) s.push_back(a.items[i]); acc.push_back(Val::set(s)); }
        return V(Val::set(acc));
      }
      case K::Tuple: { std::vector<Val> f; for (auto& c : n.ch) { Val v; if (!term(c, v)) return false; f.push_back(v); } return V(Val::tuple(f)); }
      case K::Enumeration: { std::vector<Val> f; for (auto& c : n.ch) { Val v; if (!term(c, v)) return false; f.push_back(v); } return V(Val::set(f)); }
      case K::Bool: { Val a; if (!term(n.ch[0], a)) return false; return V(Val::set({ a })); }
      case K::Debool: { Val a; if (!term(n.ch[0], a)) return false; if (a.items.size() != 1) return fail(EvalErr::deboolNonSingleton); return V(a.items[0]); }
      case K::Union: case K::Intersect: case K::SetMinus: case K::SymMinus: {
        Val a, b; if (!term(n.ch[0], a) || !term(n.ch[1], b)) return false; std::vector<Val> acc;
        for (auto& e : a.items) { const bool inB = b.contains(e); if (n.k == K::Union || (n.k == K::Intersect && inB) || ((n.k == K::SetMinus || n.k == K::SymMinus) && !inB)) acc.push_back(e); }
        if (n.k == K::Union || n.k == K::SymMinus) for (auto& e : b.items) if (n.k == K::Union || !a.contains(e)) acc.push_back(e);
        return V(Val::set(acc));
      }
      case K::BigPr: { Val a; if (!term(n.ch[0], a)) return false; std::vector<Val> acc; for (auto& e : a.items) { std::vector<Val> c; for (int i : n.idx) c.push_back(e.items[static_cast<size_t>(i - 1)]); acc.push_back(Val::tuple(c)); } return V(Val::set(acc)); }
      case K::SmallPr: { Val a; if (!term(n.ch[0], a)) return false; std::vector<Val> c; for (int i : n.idx) c.push_back(a.items[static_cast<size_t>(i - 1)]); return V(Val::tuple(c)); }
      case K::Filter: {
        Val arg; if (!term(n.ch.back(), arg)) return false;
        if (arg.items.empty()) return V(Val::set({}));                   // argument evaluated first; parameters not evaluated for an empty argument
        const size_t params = n.ch.size() - 1; std::vector<Val> acc;
        if (n.idx.size() == params) {
          std::vector<Val> ps; for (size_t i = 0; i < params; ++i) { Val p; if (!term(n.ch[i], p)) return false; if (p.items.empty()) return V(Val::set({})); ps.push_back(p); }
          for (auto& e : arg.items) { bool ok = true; for (size_t i = 0; i < params; ++i) if (!ps[i].contains(e.items[static_cast<size_t>(n.idx[i] - 1)])) ok = false; if (ok) acc.push_back(e); }
        } else {
          Val p; if (!term(n.ch[0], p)) return false;
          for (auto& e : arg.items) { std::vector<Val> c; for (int i : n.idx) c.push_back(e.items[static_cast<size_t>(i - 1)]); if (p.contains(Val::tuple(c))) acc.push_back(e); }
        }
        return V(Val::set(acc));
      }
      case K::Reduce: { Val a; if (!term(n.ch[0], a)) return false; std::vector<Val> acc; for (auto& s : a.items) for (auto& e : s.items) acc.push_back(e); return V(Val::set(acc)); }
      case K::FuncCall: {   // call by substitution of argument VALUES for the parameters
        auto it = ctx.globals.find(n.ch[0].text); if (it == ctx.globals.end() || !it->second.definition) return fail(EvalErr::missingValue);
        const Node& def = *it->second.definition;
        std::vector<Val> args; for (size_t i = 1; i < n.ch.size(); ++i) { Val v; if (!term(n.ch[i], v)) return false; args.push_back(v); }
        auto saved = env; env.clear();   // the body sees only its parameters (lexical scoping)
        for (size_t i = 0; i < args.size(); ++i) env.emplace_back(def.ch[0].ch[i].ch[0].text, args[i]);
        const bool ok = ev(def.ch[1], out); env = saved; return ok;
      }
      case K::Define: if (n.ch.size() < 2) return fail(EvalErr::missingValue); return ev(n.ch[1], out);
      default: return fail(EvalErr::missingValue);
    }
  }
};

// deep check "value has the structure of typification" (R0 matches only what empty sets contain, i.e. nothing)
inline bool hasShape(const Val& v, const Ty& t) {
  switch (t.kind) {
    case Ty::Base: return !t.isAny() && v.kind == Val::Int;
    case Ty::Tuple: if (v.kind != Val::Tuple || v.items.size() != t.comp.size()) return false; for (size_t i = 0; i < v.items.size(); ++i) if (!hasShape(v.items[i], t.comp[i])) return false; return true;
    case Ty::Set: if (v.kind != Val::Set) return false; for (auto& e : v.items) if (!hasShape(e, t.elem())) return false; return true;
  }
  return false;
}

}  // namespace rssem
