// Independent abstract syntax of RSLang + renderer (MATH / ASCII, parenthesisation and whitespace policies,
// per-node source spans) + bounded tree enumerator.   Shares no code with /repo.
// Token spellings are transcribed from MathLexerImpl.l / AsciiLexerImpl.l; precedence / associativity from the
// %left/%right declarations and rule structure of RSParserImpl.y (see DESIGN.md appendix C).
#pragma once
#include <cstdint>
#include <functional>
#include <map>
#include <string>
#include <vector>

namespace rsast {

enum class K : uint8_t {
  // leaves
  Local, Global, Function, Predicate, Radical, Int, IntSet, EmptySet,
  // arithmetic
  Plus, Minus, Mult,
  // integer predicates, equality
  Gr, Ls, Ge, Le, Eq, Ne,
  // logic
  Forall, Exists, Not, Equiv, Impl, Or, And,
  // set predicates
  In, NotIn, Subset, SubsetEq, NotSubset,
  // set operators
  Decart, Union, Intersect, SetMinus, SymMinus, Boolean,
  // structure operations
  BigPr, SmallPr, Filter, Card, Bool, Debool, Reduce,
  // imperative blocks
  Iterate, Assign,
  // non-terminals
  EnumDecl, Tuple, Enumeration, TupleDecl, ArgDecl, FuncDef, Arguments, FuncCall,
  Declarative, Imperative, RecFull, RecShort,
  // global declarations
  Define, Struct
};

struct Node {
  K k{ K::Local };
  std::string text;        // identifier text
  int32_t ival{ 0 };       // integer literal
  std::vector<int> idx;    // indices of Pr / pr / Fi
  std::vector<Node> ch;
  bool bare{ false };      // Declarative only: render as {x∈S | P} instead of D{x∈S | P} (same tree)
};

inline Node leaf(K k, std::string t) { Node n; n.k = k; n.text = std::move(t); return n; }
inline Node integer(int32_t v) { Node n; n.k = K::Int; n.ival = v; return n; }
inline Node mk(K k, std::vector<Node> ch) { Node n; n.k = k; n.ch = std::move(ch); return n; }
inline Node mkidx(K k, std::vector<int> idx, std::vector<Node> ch) { Node n; n.k = k; n.idx = std::move(idx); n.ch = std::move(ch); return n; }

inline bool isLogicBinary(K k) { return k == K::Equiv || k == K::Impl || k == K::Or || k == K::And; }
inline bool isPredicateOp(K k) { return (k >= K::Gr && k <= K::Ne) || (k >= K::In && k <= K::NotSubset) || k == K::Iterate || k == K::Assign; }
inline bool isSetBinary(K k) { return k == K::Plus || k == K::Minus || k == K::Mult || k == K::Union || k == K::Intersect || k == K::SetMinus || k == K::SymMinus || k == K::Decart; }
inline bool isLogic(K k) { return isLogicBinary(k) || isPredicateOp(k) || k == K::Not || k == K::Forall || k == K::Exists; }  // FuncCall of a predicate handled by caller

enum class Syn { MATH, ASCII };

// ---- spellings (own table) -------------------------------------------------------------------------------
inline const char* spell(K k, Syn s) {
  const bool m = s == Syn::MATH;
  switch (k) {
    case K::Plus: return m ? "+" : "\\plus";
    case K::Minus: return m ? "-" : "\\minus";
    case K::Mult: return m ? "*" : "\\multiply";
    case K::Gr: return m ? ">" : "\\gr";
    case K::Ls: return m ? "<" : "\\ls";
    case K::Ge: return m ? "\xE2\x89\xA5" : "\\ge";
    case K::Le: return m ? "\xE2\x89\xA4" : "\\le";
    case K::Eq: return m ? "=" : "\\eq";
    case K::Ne: return m ? "\xE2\x89\xA0" : "\\noteq";
    case K::Forall: return m ? "\xE2\x88\x80" : "\\A";
    case K::Exists: return m ? "\xE2\x88\x83" : "\\E";
    case K::Not: return m ? "\xC2\xAC" : "\\neg";
    case K::Equiv: return m ? "\xE2\x87\x94" : "\\equiv";
    case K::Impl: return m ? "\xE2\x87\x92" : "\\impl";
    case K::Or: return m ? "\xE2\x88\xA8" : "\\or";
    case K::And: return m ? "&" : "\\and";
    case K::In: return m ? "\xE2\x88\x88" : "\\in";
    case K::NotIn: return m ? "\xE2\x88\x89" : "\\notin";
    case K::Subset: return m ? "\xE2\x8A\x82" : "\\subset";
    case K::SubsetEq: return m ? "\xE2\x8A\x86" : "\\subseteq";
    case K::NotSubset: return m ? "\xE2\x8A\x84" : "\\notsubset";
    case K::Decart: return m ? "\xC3\x97" : "*";
    case K::Union: return m ? "\xE2\x88\xAA" : "\\union";
    case K::Intersect: return m ? "\xE2\x88\xA9" : "\\intersect";
    case K::SetMinus: return m ? "\\" : "\\setminus";
    case K::SymMinus: return m ? "\xE2\x88\x86" : "\\symmdiff";
    case K::Boolean: return m ? "\xE2\x84\xAC" : "B";
    case K::Iterate: return m ? ":\xE2\x88\x88" : "\\from";
    case K::Assign: return m ? ":=" : "\\assign";
    case K::Define: return m ? ":==" : "\\defexpr";
    case K::Struct: return m ? "::=" : "\\deftype";
    case K::EmptySet: return m ? "\xE2\x88\x85" : "{}";
    case K::IntSet: return "Z";
    case K::Card: return "card";
    case K::Bool: return "bool";
    case K::Debool: return "debool";
    case K::Reduce: return "red";
    case K::BigPr: return "Pr";
    case K::SmallPr: return "pr";
    case K::Filter: return "Fi";
    default: return "?";
  }
}

// Greek -> Latin transliteration used for local names in ASCII output (fixed table of the property statement):
// α β γ δ ε ζ η θ ι κ λ μ ν ξ ο π ρ ς σ τ υ φ χ ψ ω  ->  a b g d e z h v i k l m n x o p r s s t q f c j w
inline std::string translit(const std::string& name) {
  static const char* table = "abgdezhviklmnxoprsstqfcjw";
  std::string out;
  for (size_t i = 0; i < name.size();) {
    const auto c = static_cast<unsigned char>(name[i]);
    if (c < 0x80) { out += name[i]; ++i; continue; }
    if ((c == 0xCE || c == 0xCF) && i + 1 < name.size()) {
      const unsigned cp = ((c & 0x1Fu) << 6) | (static_cast<unsigned char>(name[i + 1]) & 0x3Fu);
      if (cp >= 0x3B1 && cp <= 0x3C9) { out += table[cp - 0x3B1]; i += 2; continue; }
    }
    out += '?'; ++i;
  }
  return out;
}

inline Node translitTree(const Node& n) {
  Node r = n;
  if (r.k == K::Local) r.text = translit(r.text);
  for (auto& c : r.ch) c = translitTree(c);
  return r;
}

// ---- dump in the AST2String convention: [token children...] ------------------------------------------------
inline std::string idxText(const std::vector<int>& idx) { std::string s; for (size_t i = 0; i < idx.size(); ++i) { if (i) s += ","; s += std::to_string(idx[i]); } return s; }

inline std::string nodeLabel(const Node& n) {
  switch (n.k) {
    case K::Local: case K::Global: case K::Function: case K::Predicate: case K::Radical: return n.text;
    case K::Int: return std::to_string(n.ival);
    case K::BigPr: case K::SmallPr: case K::Filter: return std::string(spell(n.k, Syn::MATH)) + idxText(n.idx);
    case K::EnumDecl: return "ENUM_DECLARATION";
    case K::Tuple: return "TUPLE";
    case K::Enumeration: return "SET";
    case K::TupleDecl: return "TUPLE_DECLARATION";
    case K::ArgDecl: return "ARG";
    case K::FuncDef: return "FUNCTION_DEFINITION";
    case K::Arguments: return "ARGS";
    case K::FuncCall: return "CALL";
    case K::Declarative: return "DECLARATIVE";
    case K::Imperative: return "IMPERATIVE";
    case K::RecFull: return "REC_FULL";
    case K::RecShort: return "REC_SHORT";
    default: return spell(n.k, Syn::MATH);
  }
}
inline void dumpTo(const Node& n, std::string& out) { out += '['; out += nodeLabel(n); for (auto& c : n.ch) dumpTo(c, out); out += ']'; }
inline std::string dump(const Node& n) { std::string s; dumpTo(n, s); return s; }

// ---- rendering ------------------------------------------------------------------------------------------------
enum class Paren { MIN, MAX, ONE, TWO };   // ONE: MIN plus the oneIndex-th optional pair; TWO: MIN plus TWO pairs around the oneIndex-th parenthesisable TERM (needed or not)
struct RenderOpt {
  Syn syn{ Syn::MATH };
  Paren paren{ Paren::MIN };
  int oneIndex{ -1 };
  int ws{ 0 };             // 0 minimal, 1 single spaces between all tokens, 2 newline after the first token + spaces
};

struct Tok { std::string s; bool word; };  // word: alnum-like token (must be separated from an adjacent word)

struct Rendered {
  std::string text;
  std::vector<std::pair<int, int>> span;  // per node in PRE-ORDER: [start, finish) in position units of the syntax
  int optionalPairs{ 0 };                 // number of optional parenthesis sites seen (for Paren::ONE enumeration)
  int termSites{ 0 };                     // number of parenthesisable term sites (for Paren::TWO enumeration)
};

class Renderer {
  RenderOpt opt;
  std::vector<Tok> toks;
  std::vector<std::pair<int, int>> tokSpan;  // per node (pre-order): [firstTok, lastTok]
  int optionalSeen{ 0 };
  int termSiteSeen{ 0 };

  // precedence levels of binary term operators: {+,-}=1 < {*}=2 < {× ∪ ∩ \ ∆}=3, all left-associative
  static int termLevel(K k) { return (k == K::Plus || k == K::Minus) ? 1 : k == K::Mult ? 2 : 3; }
  // binary logic: ⇔=1 < ⇒=2 < ∨=3 < &=4, all left-associative
  static int logicLevel(K k) { return k == K::Equiv ? 1 : k == K::Impl ? 2 : k == K::Or ? 3 : 4; }

  void put(const std::string& s, bool word) { toks.push_back({ s, word }); }
  void op(K k) { const char* s = spell(k, opt.syn); put(s, s[0] == '\\' && opt.syn == Syn::ASCII ? true : (std::isalnum(static_cast<unsigned char>(s[0])) != 0)); }
  bool optional() { const int id = optionalSeen++; return opt.paren == Paren::MAX || (opt.paren == Paren::ONE && id == opt.oneIndex); }

  size_t open(size_t) { tokSpan.emplace_back(static_cast<int>(toks.size()), -1); return tokSpan.size() - 1; }
  void close(size_t slot) { tokSpan[slot].second = static_cast<int>(toks.size()) - 1; }

  // child of a binary term operator
  void termChild(const Node& parent, const Node& c, bool right) {
    bool need = false;
    if (isSetBinary(c.k)) {
      const int pl = termLevel(parent.k), cl = termLevel(c.k);
      if (cl < pl) need = true;
      else if (cl == pl) need = right || (parent.k == K::Decart && c.k == K::Decart);  // same level: only a left operand may stay bare; × never (flattening)
    }
    emitMaybeParen(c, need, isSetBinary(c.k));
  }
  void emitMaybeParen(const Node& c, bool need, bool admissible, bool termSite = true) {
    bool par = need;
    if (!need && admissible) par = optional();
    bool twice = false;
    if (admissible && termSite) { const int id = termSiteSeen++; twice = opt.paren == Paren::TWO && id == opt.oneIndex; }   // ((a∪b)) is a sentence, ((a=b)) is not
    if (par || twice) {
      // the parenthesised node's span includes its parentheses
      const size_t at = tokSpan.size();
      const int pairs = twice ? 2 : 1;
      for (int i = 0; i < pairs; ++i) put("(", false);
      emit(c);
      for (int i = 0; i < pairs; ++i) put(")", false);
      tokSpan[at].first -= pairs; tokSpan[at].second += pairs;
    } else emit(c);
  }
  // operand of a binary logic operator / NOT / quantifier body
  void logicChild(const Node& c, bool need) {
    const bool admissible = isLogicBinary(c.k) || (isPredicateOp(c.k) && c.k != K::Iterate && c.k != K::Assign);
    emitMaybeParen(c, need, admissible, false);
  }
  void commaList(const Node& n, size_t from, size_t to) { for (size_t i = from; i < to; ++i) { if (i > from) put(",", false); emit(n.ch[i]); } }

 public:
  explicit Renderer(RenderOpt o) : opt(o) {}

  void emit(const Node& n) {
    const size_t slot = open(0);
    switch (n.k) {
      case K::Local: put(opt.syn == Syn::ASCII ? translit(n.text) : n.text, true); break;
      case K::Global: case K::Function: case K::Predicate: case K::Radical: put(n.text, true); break;
      case K::Int: put(std::to_string(n.ival), true); break;
      case K::IntSet: put("Z", true); break;
      case K::EmptySet: put(spell(K::EmptySet, opt.syn), false); break;
      case K::Plus: case K::Minus: case K::Mult: case K::Union: case K::Intersect: case K::SetMinus: case K::SymMinus:
        termChild(n, n.ch[0], false); op(n.k); termChild(n, n.ch[1], true); break;
      case K::Decart:
        for (size_t i = 0; i < n.ch.size(); ++i) { if (i) op(K::Decart); termChild(n, n.ch[i], i > 0); }
        break;
      case K::Gr: case K::Ls: case K::Ge: case K::Le: case K::Eq: case K::Ne:
      case K::In: case K::NotIn: case K::Subset: case K::SubsetEq: case K::NotSubset:
      case K::Iterate: case K::Assign:
        emitOperand(n.ch[0]); op(n.k); emitOperand(n.ch[1]); break;
      case K::Not: op(K::Not); logicChild(n.ch[0], isLogicBinary(n.ch[0].k)); break;
      case K::Forall: case K::Exists:
        op(n.k); emit(n.ch[0]); op(K::In); emitOperand(n.ch[1]); logicChild(n.ch[2], isLogicBinary(n.ch[2].k)); break;
      case K::Equiv: case K::Impl: case K::Or: case K::And: {
        const int pl = logicLevel(n.k);
        auto need = [&](const Node& c, bool right) { if (!isLogicBinary(c.k)) return false; const int cl = logicLevel(c.k); return cl < pl || (cl == pl && right); };
        logicChild(n.ch[0], need(n.ch[0], false)); op(n.k); logicChild(n.ch[1], need(n.ch[1], true));
        break;
      }
      case K::Boolean:
        op(K::Boolean);
        if (n.ch[0].k == K::Boolean && !optional()) emit(n.ch[0]);   // ℬℬ(x)  (optional site: ℬ(ℬ(x)))
        else { put("(", false); emitOperand(n.ch[0]); put(")", false); }
        break;
      case K::Card: case K::Bool: case K::Debool: case K::Reduce:
        put(spell(n.k, opt.syn), true); put("(", false); emitOperand(n.ch[0]); put(")", false); break;
      case K::BigPr: case K::SmallPr:
        put(std::string(spell(n.k, opt.syn)) + idxText(n.idx), true); put("(", false); emitOperand(n.ch[0]); put(")", false); break;
      case K::Filter:
        put(std::string(spell(n.k, opt.syn)) + idxText(n.idx), true); put("[", false);
        for (size_t i = 0; i + 1 < n.ch.size(); ++i) { if (i) put(",", false); emitOperand(n.ch[i]); }
        put("]", false); put("(", false); emitOperand(n.ch.back()); put(")", false); break;
      case K::Tuple: case K::TupleDecl:
        put("(", false); for (size_t i = 0; i < n.ch.size(); ++i) { if (i) put(",", false); if (n.k == K::Tuple) emitOperand(n.ch[i]); else emit(n.ch[i]); } put(")", false); break;
      case K::Enumeration:
        put("{", false); for (size_t i = 0; i < n.ch.size(); ++i) { if (i) put(",", false); emitOperand(n.ch[i]); } put("}", false); break;
      case K::EnumDecl: commaList(n, 0, n.ch.size()); break;
      case K::ArgDecl: emit(n.ch[0]); op(K::In); emitOperand(n.ch[1]); break;
      case K::Arguments: commaList(n, 0, n.ch.size()); break;
      case K::FuncDef: {
        // the ARGS node spans the declarations only; brackets belong to the definition
        put("[", false); emit(n.ch[0]); put("]", false); emitTop(n.ch[1]); break;
      }
      case K::FuncCall:
        emit(n.ch[0]); put("[", false); for (size_t i = 1; i < n.ch.size(); ++i) { if (i > 1) put(",", false); emitOperand(n.ch[i]); } put("]", false); break;
      case K::Declarative:
        if (!n.bare) put("D", true);
        put("{", false); emit(n.ch[0]); op(K::In); emitOperand(n.ch[1]); put("|", false); emitTop(n.ch[2]); put("}", false); break;
      case K::RecFull:
        put("R", true); put("{", false); emit(n.ch[0]); op(K::Assign); emitOperand(n.ch[1]); put("|", false); emitTop(n.ch[2]); put("|", false); emitOperand(n.ch[3]); put("}", false); break;
      case K::RecShort:
        put("R", true); put("{", false); emit(n.ch[0]); op(K::Assign); emitOperand(n.ch[1]); put("|", false); emitOperand(n.ch[2]); put("}", false); break;
      case K::Imperative:
        put("I", true); put("{", false); emitOperand(n.ch[0]); put("|", false);
        for (size_t i = 1; i < n.ch.size(); ++i) { if (i > 1) put(";", false); emitTop(n.ch[i]); }
        put("}", false); break;
      case K::Define: case K::Struct:
        emit(n.ch[0]); op(n.k); if (n.ch.size() > 1) emitTop(n.ch[1]); break;
    }
    close(slot);
  }
  // a term in a position where any setexpr is admitted (optional parentheses allowed around binary terms)
  void emitOperand(const Node& c) { emitMaybeParen(c, false, isSetBinary(c.k)); }
  // a position that admits `logic` or `setexpr` without logic parentheses (top level, after '|', ';')
  void emitTop(const Node& c) { if (isSetBinary(c.k)) emitOperand(c); else emit(c); }

  Rendered finish() {
    Rendered r; r.optionalPairs = optionalSeen; r.termSites = termSiteSeen;
    std::vector<int> start(toks.size()), fin(toks.size());
    int pos = 0;  // position units: code points (MATH) == bytes (ASCII, pure ASCII text)
    auto cps = [](const std::string& s) { int n = 0; for (unsigned char ch : s) if ((ch & 0xC0) != 0x80) ++n; return n; };
    for (size_t i = 0; i < toks.size(); ++i) {
      if (i > 0) {
        std::string sep;
        if (opt.ws == 2 && i == 1) sep = "\n";
        else if (opt.ws >= 1) sep = " ";
        else if (toks[i - 1].word && toks[i].word) sep = " ";
        r.text += sep; pos += static_cast<int>(sep.size());
      }
      start[i] = pos; r.text += toks[i].s; pos += cps(toks[i].s); fin[i] = pos;
    }
    for (auto& [a, b] : tokSpan) r.span.emplace_back(start[static_cast<size_t>(a)], fin[static_cast<size_t>(b)]);
    return r;
  }
};

inline Rendered render(const Node& root, RenderOpt o) { Renderer r(o); r.emitTop(root); return r.finish(); }

inline int countNodes(const Node& n) { int c = 1; for (auto& x : n.ch) c += countNodes(x); return c; }

// ---- bounded tree enumeration ------------------------------------------------------------------------------------
// Sorts: S term, L formula, V variable (local / tuple pattern), VP variable pack, B imperative block, TOP expression
struct Pools {
  std::vector<std::string> locals{ "a", "b" };
  std::string global{ "X1" }, function{ "F1" }, predicate{ "P1" }, radical{ "R1" };
};

class Enumerator {
 public:
  Pools pools;
  struct Sets { std::vector<Node> S, L, V, VP, B; };   // terms, formulas, variables, variable packs, imperative blocks

  Node local(size_t i) const { return leaf(K::Local, pools.locals[i % pools.locals.size()]); }
  Node defTerm() const { return leaf(K::Global, pools.global); }
  Node defTerm2() const { return local(1); }
  Node defFormula() const { return mk(K::Eq, { integer(1), integer(1) }); }

  Sets level0(bool full) const {
    Sets r;
    r.S.push_back(leaf(K::Global, pools.global)); r.S.push_back(local(0));
    if (full) {
      r.S.push_back(leaf(K::Function, pools.function)); r.S.push_back(leaf(K::Predicate, pools.predicate)); r.S.push_back(leaf(K::Radical, pools.radical));
      r.S.push_back(integer(1)); { Node z; z.k = K::IntSet; r.S.push_back(z); } { Node e; e.k = K::EmptySet; r.S.push_back(e); }
    }
    r.L.push_back(defFormula());
    for (size_t i = 0; i < pools.locals.size(); ++i) r.V.push_back(local(i));
    r.VP = r.V;
    return r;
  }

  // One more level: every constructor with its child slots ranging over the given sets.
  // pairs = true: all slots of binary constructors vary simultaneously; false: one slot varies, the others hold defaults.
  Sets over(const Sets& in, bool pairs) const {
    Sets out;
    const auto& S = in.S; const auto& L = in.L; const auto& V = in.V;
    auto binS = [&](K k, std::vector<Node>& dst) {
      if (pairs) { for (auto& a : S) for (auto& b : S) dst.push_back(mk(k, { a, b })); }
      else { for (auto& a : S) { dst.push_back(mk(k, { a, defTerm() })); dst.push_back(mk(k, { defTerm(), a })); } }
    };
    // ---- terms
    for (K k : { K::Plus, K::Minus, K::Mult, K::Union, K::Intersect, K::SetMinus, K::SymMinus, K::Decart }) binS(k, out.S);
    for (auto& a : S) { out.S.push_back(mk(K::Decart, { a, defTerm(), defTerm2() })); out.S.push_back(mk(K::Decart, { defTerm(), a, defTerm2() })); out.S.push_back(mk(K::Decart, { defTerm(), defTerm2(), a })); }
    for (K k : { K::Boolean, K::Card, K::Bool, K::Debool, K::Reduce }) for (auto& a : S) out.S.push_back(mk(k, { a }));
    for (auto& a : S) { out.S.push_back(mkidx(K::BigPr, { 1 }, { a })); out.S.push_back(mkidx(K::BigPr, { 1, 2 }, { a })); out.S.push_back(mkidx(K::SmallPr, { 2 }, { a })); out.S.push_back(mkidx(K::SmallPr, { 2, 1 }, { a })); }
    for (auto& a : S) { out.S.push_back(mkidx(K::Filter, { 1 }, { a, defTerm() })); out.S.push_back(mkidx(K::Filter, { 1 }, { defTerm(), a })); out.S.push_back(mkidx(K::Filter, { 1, 2 }, { a, defTerm2(), defTerm() })); out.S.push_back(mkidx(K::Filter, { 1, 2 }, { defTerm(), a, defTerm2() })); }
    binS(K::Tuple, out.S);
    for (auto& a : S) out.S.push_back(mk(K::Tuple, { defTerm(), a, defTerm2() }));
    for (auto& a : S) { out.S.push_back(mk(K::Enumeration, { a })); out.S.push_back(mk(K::Enumeration, { a, defTerm() })); out.S.push_back(mk(K::Enumeration, { defTerm(), a })); }
    for (auto& a : S) { out.S.push_back(mk(K::FuncCall, { leaf(K::Function, pools.function), a })); out.S.push_back(mk(K::FuncCall, { leaf(K::Function, pools.function), a, defTerm() })); out.S.push_back(mk(K::FuncCall, { leaf(K::Function, pools.function), defTerm(), a })); }
    for (auto& v : V) { out.S.push_back(mk(K::Declarative, { v, defTerm(), defFormula() })); out.S.push_back(mk(K::RecShort, { v, defTerm(), defTerm2() })); out.S.push_back(mk(K::RecFull, { v, defTerm(), defFormula(), defTerm2() })); }
    for (auto& a : S) {
      out.S.push_back(mk(K::Declarative, { local(0), a, defFormula() }));
      { Node b = mk(K::Declarative, { local(0), a, defFormula() }); b.bare = true; out.S.push_back(b); }
      out.S.push_back(mk(K::RecShort, { local(0), a, defTerm2() })); out.S.push_back(mk(K::RecShort, { local(0), defTerm(), a }));
      out.S.push_back(mk(K::RecFull, { local(0), a, defFormula(), defTerm2() })); out.S.push_back(mk(K::RecFull, { local(0), defTerm(), defFormula(), a }));
      out.S.push_back(mk(K::Imperative, { a, defFormula() }));
    }
    for (auto& f : L) {
      out.S.push_back(mk(K::Declarative, { local(0), defTerm(), f }));
      { Node b = mk(K::Declarative, { local(0), defTerm(), f }); b.bare = true; out.S.push_back(b); }
      out.S.push_back(mk(K::RecFull, { local(0), defTerm(), f, defTerm2() }));
      out.S.push_back(mk(K::Imperative, { defTerm(), f }));
      out.S.push_back(mk(K::Imperative, { defTerm(), defFormula(), f }));
    }
    for (auto& b : in.B) { out.S.push_back(mk(K::Imperative, { defTerm(), b })); out.S.push_back(mk(K::Imperative, { defTerm(), b, defFormula() })); out.S.push_back(mk(K::Imperative, { defTerm(), defFormula(), b })); }
    // ---- formulas
    for (K k : { K::Gr, K::Ls, K::Ge, K::Le, K::Eq, K::Ne, K::In, K::NotIn, K::Subset, K::SubsetEq, K::NotSubset }) binS(k, out.L);
    for (auto& f : L) out.L.push_back(mk(K::Not, { f }));
    for (K k : { K::Equiv, K::Impl, K::Or, K::And }) {
      if (pairs) { for (auto& a : L) for (auto& b : L) out.L.push_back(mk(k, { a, b })); }
      else { for (auto& a : L) { out.L.push_back(mk(k, { a, defFormula() })); out.L.push_back(mk(k, { defFormula(), a })); } }
    }
    for (K q : { K::Forall, K::Exists }) {
      for (auto& vp : in.VP) out.L.push_back(mk(q, { vp, defTerm(), defFormula() }));
      for (auto& a : S) out.L.push_back(mk(q, { local(0), a, defFormula() }));
      for (auto& f : L) out.L.push_back(mk(q, { local(0), defTerm(), f }));
    }
    for (auto& a : S) { out.L.push_back(mk(K::FuncCall, { leaf(K::Predicate, pools.predicate), a })); out.L.push_back(mk(K::FuncCall, { leaf(K::Predicate, pools.predicate), a, defTerm() })); }
    // ---- variables / packs / blocks
    for (auto& a : V) for (auto& b : V) out.V.push_back(mk(K::TupleDecl, { a, b }));
    for (auto& a : V) out.V.push_back(mk(K::TupleDecl, { local(0), a, local(1) }));
    out.VP = out.V;
    for (auto& a : V) for (auto& b : V) out.VP.push_back(mk(K::EnumDecl, { a, b }));
    for (auto& a : V) out.VP.push_back(mk(K::EnumDecl, { local(0), a, local(1) }));
    for (auto& v : V) { out.B.push_back(mk(K::Iterate, { v, defTerm() })); out.B.push_back(mk(K::Assign, { v, defTerm() })); }
    for (auto& a : S) { out.B.push_back(mk(K::Iterate, { local(0), a })); out.B.push_back(mk(K::Assign, { local(0), a })); }
    return out;
  }
  static void append(Sets& dst, const Sets& src) {
    dst.S.insert(dst.S.end(), src.S.begin(), src.S.end()); dst.L.insert(dst.L.end(), src.L.begin(), src.L.end());
    dst.V.insert(dst.V.end(), src.V.begin(), src.V.end()); dst.VP.insert(dst.VP.end(), src.VP.begin(), src.VP.end()); dst.B.insert(dst.B.end(), src.B.begin(), src.B.end());
  }

  // Bounded spaces (cumulative):
  //  depth 0: leaves.  depth 1: every constructor over ALL leaves (all pairs).
  //  depth 2: every constructor over R1 (all pairs), R1 = leaves + every constructor over the two default leaves:
  //           every constructor as parent of every constructor in every child position, both operands varying together.
  //  depth 3: every constructor with ONE slot ranging over R2 = (every constructor over R1' (pairs)), R1' = one representative per constructor.
  Sets space(int d) const {
    Sets l0 = level0(true);
    if (d <= 0) return l0;
    Sets all = l0; Sets d1 = over(l0, true); append(all, d1);
    if (d == 1) return all;
    Sets r1 = level0(false); { Sets x = over(level0(false), true); append(r1, x); Sets full0 = level0(true); r1.S.insert(r1.S.end(), full0.S.begin() + 2, full0.S.end()); }
    Sets d2 = over(r1, true); append(all, d2);
    if (d == 2) return all;
    Sets one; one.S = { defTerm() }; one.L = { defFormula() }; one.V = { local(0) }; one.VP = one.V;
    Sets r1p = one; { Sets x = over(one, true); append(r1p, x); }
    Sets r2 = over(r1p, true);
    Sets d3 = over(r2, false); append(all, d3);
    return all;
  }

  // whole expressions: terms, formulas, function definitions, global declarations
  std::vector<Node> tops(int d) const {
    const Sets sp = space(d);
    std::vector<Node> out = sp.S;
    out.insert(out.end(), sp.L.begin(), sp.L.end());
    const Sets in = space(d > 0 ? d - 1 : 0);
    std::vector<Node> bodies = in.S; bodies.insert(bodies.end(), in.L.begin(), in.L.end());
    std::vector<Node> defs;
    for (auto& a : in.S) { defs.push_back(mk(K::FuncDef, { mk(K::Arguments, { mk(K::ArgDecl, { local(0), a }) }), defTerm() })); defs.push_back(mk(K::FuncDef, { mk(K::Arguments, { mk(K::ArgDecl, { local(0), defTerm() }), mk(K::ArgDecl, { local(1), a }) }), defFormula() })); }
    for (auto& b : bodies) defs.push_back(mk(K::FuncDef, { mk(K::Arguments, { mk(K::ArgDecl, { local(0), defTerm() }) }), b }));
    out.insert(out.end(), defs.begin(), defs.end());
    const Sets small = space(d > 1 ? 1 : 0);
    std::vector<Node> sb = small.S; sb.insert(sb.end(), small.L.begin(), small.L.end());
    for (const auto& g : { leaf(K::Global, pools.global), leaf(K::Function, pools.function), leaf(K::Predicate, pools.predicate) }) {
      out.push_back(mk(K::Define, { g }));
      for (auto& b : sb) { out.push_back(mk(K::Define, { g, b })); out.push_back(mk(K::Struct, { g, b })); }
      for (size_t i = 0; i < defs.size() && i < 60; ++i) out.push_back(mk(K::Define, { g, defs[i] }));
    }
    return out;
  }
};

}  // namespace rsast
