#!/bin/bash
# Confirms a seeded breaking change delivered by a seeding agent and files it under /verif/seeded/<name>/.
#   tools/confirm_seed.sh <PROP> [name] [check-props...]
# Steps (all in the agent's scratch worktree /tmp/seed-<PROP>, never in /repo):
#   1. patch applies; 2. existing suite: build -k 0 + ctest -> 133 passed; 3. demo fails WITH, passes WITHOUT the change;
#   4. our check(s) against the patched tree (VERIF_REPO) must print VIOLATION; 5. files copied to seeded/<name>/.
set -u
P="$1"; NAME="${2:-$1}"; shift; shift || true
CHECKS="${*:-$P}"
R="${SEED_ROUND:-}"; WT=/tmp/seed$R-$P; OUT=/tmp/seedwork$R-$P/out; V=/verif; DEST=$V/seeded/$NAME
[ -f "$OUT/patch.diff" ] || { echo "no patch for $P"; exit 2; }
mkdir -p "$DEST"
git -C $WT checkout -q -- . ; rm -rf $WT/_build
git -C $WT apply --check "$OUT/patch.diff" || { echo "PATCH DOES NOT APPLY"; exit 2; }
git -C $WT apply "$OUT/patch.diff"
echo "== existing suite with the change"
( cmake -G Ninja -S $WT/ccl -B $WT/_build -DCMAKE_BUILD_TYPE=RelWithDebInfo >/dev/null 2>&1; cmake --build $WT/_build -- -k 0 -j6 >/dev/null 2>&1; ctest --test-dir $WT/_build -j6 2>&1 | grep -E "tests passed|tests failed" ) | tee "$DEST/existing_suite.txt"
PASSED=$(ctest --test-dir $WT/_build -j6 2>/dev/null | grep -c " Passed ")
echo "passed_entries=$PASSED" | tee -a "$DEST/existing_suite.txt"
rm -rf $WT/_build
echo "== demo WITH the change"
CMD="$(cat $OUT/demo_cmd.txt 2>/dev/null)"
if [ -n "$CMD" ]; then ( cd $OUT && bash -c "$CMD" ) > "$DEST/demo_with.txt" 2>&1; echo "exit=$?" | tee -a "$DEST/demo_with.txt" | tail -1; else echo "no demo_cmd.txt"; fi
echo "== our checks against the patched tree"
RES=""
for C in $CHECKS; do
  VERIF_REPO=$WT VERIF_WORKERS=${VERIF_WORKERS:-12} $V/check $C --tier quick > "$DEST/check_$C.txt" 2>&1; rc=$?
  n=$(grep -c "^VIOLATION" "$DEST/check_$C.txt")
  echo "check $C exit=$rc violations_lines=$n :: $(grep -m1 'signature:' "$DEST/check_$C.txt")"
  RES="$RES $C:exit$rc:$n"
done
git -C $WT checkout -q -- .
echo "== demo WITHOUT the change"
if [ -n "$CMD" ]; then ( cd $OUT && bash -c "$CMD" ) > "$DEST/demo_without.txt" 2>&1; echo "exit=$?" | tee -a "$DEST/demo_without.txt" | tail -1; fi
cp "$OUT/patch.diff" "$DEST/patch.diff"; cp "$OUT"/demo.* "$OUT"/demo_cmd.txt "$DEST/" 2>/dev/null
python3 - "$OUT/meta.json" "$DEST/meta.json" "$RES" "$PASSED" <<'EOF'
import json,sys
try: m=json.load(open(sys.argv[1]))
except Exception: m={}
m['confirmed']={'existing_suite_passed_entries':int(sys.argv[4] or 0),'checks':sys.argv[3].split(),
 'how':'tools/confirm_seed.sh: patch applied in scratch worktree; cmake --build -k 0 + ctest; demo with/without; VERIF_REPO=<worktree> ./check <ID> --tier quick'}
json.dump(m,open(sys.argv[2],'w'),indent=1,ensure_ascii=False)
EOF
rm -rf $V/replays
echo "filed under $DEST"
