// C16 — compact encoding (ccl::object::SDCompact) round-trips; decoding malformed tables is safe.
// modes: roundtrip  E1: every typification with <= N nodes / arity <= 2 over bases {X1, Z} x every compatible value over {1,2}
//                   (capped per set level, see model/refvalue.hpp), each in the enumerated and in the alternative (lazy) representation:
//                   Unpack(FromSData(v, t).data, t) == v by model and by the library's ==, and deeply compatible with t
//        malformed  E1+E3 (san build): every ragged integer table of the bound x every typification, plus every single-cell / single-row
//                   deviation of every valid table: no fault (a crash, sanitizer report or escaping exception is attributed to the
//                   table by the engine), result is nullopt or a value deeply compatible with the typification
#include "engine/mc.hpp"
#include "model/refvalue.hpp"

#include "ccl/rslang/SDataCompact.h"
#include "ccl/rslang/StructuredData.h"

#include <optional>

using namespace mc;
using refv::Value;
using ccl::object::SDCompact;
using ccl::object::StructuredData;
using ccl::rslang::Typification;

namespace {

struct TypeEntry { refv::Type type; Typification typif; std::string name; };

std::vector<TypeEntry> make_types(int maxNodes, int maxArity = 2) {
  std::vector<TypeEntry> out;
  for (const auto& t : refv::enumerate_types(maxNodes, maxArity, { "X1", "Z" })) out.push_back(TypeEntry{ t, refv::to_typification(t), refv::str(t) });
  return out;
}

std::string table_str(const SDCompact::Data& d) {
  std::string s = "[";
  for (size_t i = 0; i < d.size(); ++i) {
    s += i ? ",[" : "[";
    for (size_t j = 0; j < d[i].size(); ++j) { if (j) s += ","; s += d[i][j] == SDCompact::unknownCount ? "U" : std::to_string(d[i][j]); }
    s += "]";
  }
  return s + "]";
}

// crash attribution with the exact table: the description slot of the running case is rewritten (cheaply) before every Unpack
void note_table(Ctx& c, const std::string& typeName, const SDCompact::Data& d) {
  if (c.prog == nullptr) return;
  char* p = c.prog->desc; char* const end = c.prog->desc + sizeof(c.prog->desc) - 32;
  auto put = [&](const char* t) { while (*t) *p++ = *t++; };
  put("malformed type="); for (size_t i = 0; i < typeName.size() && i < 100; ++i) *p++ = typeName[i]; put(" table=[");
  for (size_t i = 0; i < d.size() && p < end; ++i) {
    *p++ = '[';
    for (size_t j = 0; j < d[i].size() && p < end; ++j) {
      if (j) *p++ = ',';
      int32_t x = d[i][j];
      if (x == SDCompact::unknownCount) { *p++ = 'U'; continue; }
      if (x < 0) { *p++ = '-'; x = -x; }
      char tmp[12]; int n = 0; do { tmp[n++] = static_cast<char>('0' + x % 10); x /= 10; } while (x > 0);
      while (n > 0) *p++ = tmp[--n];
    }
    *p++ = ']';
  }
  *p++ = ']'; *p = 0;
}

// result of decoding an arbitrary table: nothing, or a value deeply compatible with the typification
void check_decoded(Ctx& c, const TypeEntry& te, const SDCompact::Data& d, uint64_t& nValue, uint64_t& nNone) {
  note_table(c, te.name, d);
  const auto r = SDCompact::Unpack(d, te.typif);
  if (!r.has_value()) { ++nNone; return; }
  ++nValue;
  const bool deepLib = refv::compatible_sd(*r, te.typif);
  bool deepModel = false; Value v;
  if (deepLib) { v = refv::from_sd(*r); deepModel = refv::compatible(v, te.type); }
  if (!deepLib || !deepModel)
    c.fail("C16:decoded-value-incompatible", "Unpack of " + table_str(d) + " against " + te.name + " returned a value that is not compatible with the typification", r->ToString(), "nullopt or a value of type " + te.name);
}

// ------------------------------------------------------------------------------------------------
void run_roundtrip(Ctx& c, const std::vector<TypeEntry>& types, size_t cap) {
  refv::Domains dom; dom["*"] = { 1, 2 }; dom["Z"] = { -3, 2 };   // integer-typed cells legitimately hold negative numbers
  for (const auto& te : types) {
    if (c.stop()) return;
    bool complete = true;
    const auto vals = refv::enumerate(te.type, dom, cap, &complete);
    for (size_t i = 0; i < vals.size(); ++i) {
      if (!c.take()) continue;
      const Value& v = vals[i];
      const std::string d = "roundtrip type=" + te.name + " i=" + std::to_string(i) + " v=" + (v.items.size() > 40 ? "<" + std::to_string(v.items.size()) + " elements>" : refv::str(v));
      c.begin(d);
      struct Rep { const char* name; StructuredData sd; };
      std::vector<Rep> reps; reps.push_back({ "enumerated", refv::to_sd(v) });
      if (v.items.size() <= 64) reps.push_back({ "alternative", refv::alt_sd(v) });
      bool emptyInside = false;
      { std::function<void(const Value&, int)> scan = [&](const Value& x, int depth) { if (x.isSet() && x.items.empty() && depth > 0) emptyInside = true; for (const auto& y : x.items) scan(y, depth + 1); }; scan(v, 0); }
      for (const auto& rep : reps) {
        const auto packed = SDCompact::FromSData(rep.sd, te.typif);
        c.rep.count("checks", 5);
        if (packed.header != SDCompact::CreateHeader(te.typif)) c.fail("C16:header", "FromSData header differs from CreateHeader");
        for (int variant = 0; variant < 2; ++variant) {
          const auto un = variant == 0 ? SDCompact::Unpack(packed.data, te.typif) : SDCompact(te.typif, packed.data).Unpack(te.typif);
          if (!un.has_value()) { c.fail("C16:roundtrip-unpack-fails", std::string("Unpack of the packed ") + rep.name + " value returns nothing; table " + table_str(packed.data).substr(0, 400), "nullopt", refv::str(v).substr(0, 400)); continue; }
          const Value g = refv::from_sd(*un);
          if (!(g == v)) c.fail("C16:roundtrip-value-differs", std::string("Unpack(Pack(v)) != v for the ") + rep.name + " representation; table " + table_str(packed.data).substr(0, 400), refv::str(g).substr(0, 400), refv::str(v).substr(0, 400));
          else if (!(*un == rep.sd) || !(rep.sd == *un)) c.fail("C16:roundtrip-libeq", "unpacked value equals the original by iteration but not by the library's ==", un->ToString().substr(0, 400), refv::str(v).substr(0, 400));
          if (!refv::compatible_sd(*un, te.typif) || !refv::compatible(g, te.type)) c.fail("C16:roundtrip-incompatible", "unpacked value is not deeply compatible with the typification", refv::str(g).substr(0, 400), te.name);
        }
        if (&rep != &reps[0]) { c.rep.count("checks"); if (packed.data != SDCompact::FromSData(reps[0].sd, te.typif).data) c.fail("C16:pack-depends-on-representation", "the packed table of the alternative representation differs from the table of the enumerated one"); }
      }
      c.rep.count("evaluations");
      const bool nt = !v.isElem() && (emptyInside || v.isTuple() || v.items.size() >= 2);
      if (nt) c.rep.count("nontrivial");
      c.rep.outcome(std::string(te.type.kind == refv::Type::Kind::Base ? "element" : te.type.kind == refv::Type::Kind::Tuple ? "tuple" : "set") + (emptyInside ? "+empty-set-inside" : "") + (v.isSet() && v.items.empty() ? "+empty" : ""));
      if (c.idx % 7919 == 1) c.rep.sample(d);
      c.done();
    }
    if (!complete) c.rep.outcome("capped-type");
  }
}

// ------------------------------------------------------------------------------------------------
struct Shape { int rows, cols; std::vector<int32_t> symbols; };

std::vector<std::vector<int32_t>> all_rows(const Shape& s) {
  std::vector<std::vector<int32_t>> rows{ {} };
  size_t from = 0;
  for (int len = 1; len <= s.cols; ++len) {
    const size_t to = rows.size();
    for (size_t i = from; i < to; ++i) for (auto sym : s.symbols) { auto r = rows[i]; r.push_back(sym); rows.push_back(std::move(r)); }
    from = to;
  }
  return rows;
}

void run_malformed_raw(Ctx& c, const std::vector<TypeEntry>& types, const std::vector<Shape>& shapes) {
  for (size_t si = 0; si < shapes.size(); ++si) {
    const auto rows = all_rows(shapes[si]);
    const size_t R = rows.size();
    for (const auto& te : types) {
      if (c.stop()) return;
      // tables with k rows; a case fixes the first k-1 rows, the last row runs over all rows inside the case
      for (int k = 0; k <= shapes[si].rows; ++k) {
        uint64_t prefixes = 1; for (int x = 0; x + 1 < k; ++x) prefixes *= R;
        for (uint64_t pf = 0; pf < prefixes; ++pf) {
          if (!c.take()) continue;
          SDCompact::Data d;
          { uint64_t q = pf; for (int x = 0; x + 1 < k; ++x) { d.push_back(rows[q % R]); q /= R; } }
          c.begin("malformed shape<=" + std::to_string(shapes[si].rows) + "x" + std::to_string(shapes[si].cols) + " type=" + te.name + " rows=" + std::to_string(k) + " prefix=" + table_str(d) + " + every last row");
          uint64_t nv = 0, nn = 0;
          if (k == 0) check_decoded(c, te, d, nv, nn);
          else { d.emplace_back(); for (size_t r = 0; r < R; ++r) { d.back() = rows[r]; check_decoded(c, te, d, nv, nn); } }
          c.rep.count("evaluations", nv + nn); c.rep.count("decoded_to_value", nv); c.rep.count("nontrivial", nv);
          if (nv) c.rep.outcome(std::string("value:") + (te.type.kind == refv::Type::Kind::Base ? "element" : te.type.kind == refv::Type::Kind::Tuple ? "tuple" : "set"));
          if (nn) c.rep.outcome("nullopt");
          if (c.idx % 200003 == 1) c.rep.sample(c.cur_desc);
          c.done();
        }
      }
    }
  }
}

// every single deviation of every valid table
void run_malformed_mutants(Ctx& c, const std::vector<TypeEntry>& types, size_t cap, size_t maxCells) {
  refv::Domains dom; dom["*"] = { 1, 2 };
  const std::vector<int32_t> sym = { -1, 0, 1, 2, 3, SDCompact::unknownCount };
  for (const auto& te : types) {
    if (c.stop()) return;
    const auto vals = refv::enumerate(te.type, dom, cap);
    for (size_t i = 0; i < vals.size(); ++i) {
      if (!c.take()) continue;
      const Value& v = vals[i];
      c.begin("mutants type=" + te.name + " i=" + std::to_string(i) + " v=" + refv::str(v).substr(0, 300));
      const auto base = SDCompact::FromSData(refv::to_sd(v), te.typif).data;
      uint64_t nv = 0, nn = 0;
      { size_t cells = 0; for (const auto& r : base) cells += r.size(); if (cells > maxCells) { c.rep.count("mutant_bases_skipped_too_large"); c.done(); continue; } }
      c.rep.count("mutant_bases");
      for (size_t r = 0; r < base.size(); ++r) {
        for (size_t col = 0; col < base[r].size(); ++col) {
          auto cand = sym; cand.push_back(base[r][col] + 1); cand.push_back(base[r][col] - 1);
          for (auto s : cand) { if (s == base[r][col]) continue; auto d = base; d[r][col] = s; check_decoded(c, te, d, nv, nn); }
        }
        { auto d = base; d.erase(d.begin() + static_cast<long>(r)); check_decoded(c, te, d, nv, nn); }
        { auto d = base; d.insert(d.begin() + static_cast<long>(r), base[r]); check_decoded(c, te, d, nv, nn); }
        if (!base[r].empty()) { auto d = base; d[r].pop_back(); check_decoded(c, te, d, nv, nn); }
        { auto d = base; d[r].clear(); check_decoded(c, te, d, nv, nn); }
        for (auto s : { 0, 1, SDCompact::unknownCount }) { auto d = base; d[r].push_back(s); check_decoded(c, te, d, nv, nn); }
        if (r + 1 < base.size()) { auto d = base; std::swap(d[r], d[r + 1]); check_decoded(c, te, d, nv, nn); }
      }
      { auto d = base; d.emplace_back(); check_decoded(c, te, d, nv, nn); }
      // the whole table decoded against every OTHER typification
      for (const auto& other : types) if (&other != &te) check_decoded(c, other, base, nv, nn);
      c.rep.count("evaluations", nv + nn); c.rep.count("decoded_to_value", nv); c.rep.count("nontrivial", nv);
      if (nv) c.rep.outcome("mutant:value"); if (nn) c.rep.outcome("mutant:nullopt");
      if (c.idx % 9973 == 1) c.rep.sample(c.cur_desc);
      c.done();
    }
  }
}

}  // namespace

int main(int argc, char** argv) {
  Options opt = parse_args(argc, argv);
  const double t0 = now_s();
  Result res; res.property = "C16"; res.harness = "h_compact"; res.mode = opt.mode; res.tier = opt.tier;
  RunInfo ri;
  // round trips: <= 6 nodes (the smallest tuple with a set-of-tuples component followed by another component, B(X1*X1)*X1, has 6);
  // raw malformed tables: <= 5 nodes (cost is linear in the number of typifications); deviations of valid tables: 5 (quick) / 6 (thorough)
  const int maxNodes = static_cast<int>(opt.num("nodes", opt.mode == "roundtrip" ? 6 : 5));
  // round trips and single deviations also cover 3-ary tuples (a set-valued component followed by TWO more components spreads a
  // tuple over several rows in a way no pair does); raw malformed tables stay at arity 2 (cost is linear in the number of types)
  const int arity = static_cast<int>(opt.num("arity", 3));
  auto types = make_types(maxNodes, opt.mode == "roundtrip" ? arity : 2);
  if (opt.mode == "roundtrip") {
    // beyond the node bound: a tuple DIRECTLY inside a tuple below a set that is followed by further components - the shapes in
    // which the packer's and the unpacker's count of "cells of an empty set" can disagree
    using refv::TBase; using refv::TBool; using refv::TTuple;
    const auto X = TBase("X1"); const auto Z = TBase("Z");
    const auto nested = TTuple({ X, TTuple({ X, X }) });          // X1×(X1×X1)
    const auto nested2 = TTuple({ TTuple({ X, Z }), X });         // (X1×Z)×X1
    for (const auto& t : std::vector<refv::Type>{
           TTuple({ TBool(nested), X }), TBool(TTuple({ TBool(nested), X })), TTuple({ TBool(nested2), Z }), TTuple({ X, TBool(nested), X }),
           TTuple({ TBool(TBool(nested)), X }), TBool(TTuple({ TBool(nested2), TBool(X) })), TTuple({ TBool(TTuple({ nested, X })), X }) })
      types.push_back(TypeEntry{ t, refv::to_typification(t), refv::str(t) });
  }
  const auto mutTypes = make_types(static_cast<int>(opt.num("mutnodes", opt.thorough() ? 6 : 5)), arity);
  if (opt.mode == "roundtrip") {
    const size_t cap = static_cast<size_t>(opt.num("cap", opt.thorough() ? 65536 : 4096));
    res.rep = run_sharded(opt, "roundtrip", [&](Ctx& c) { run_roundtrip(c, types, cap); }, &ri);
    res.alphabet = std::to_string(types.size()) + " typifications (<= " + std::to_string(maxNodes) + " nodes, arity <= " + std::to_string(arity) + ", bases X1 and Z); element ids {1,2}, integers {-3,2}";
    res.completed_bound = "all compatible values over {1,2}; a set level with more than " + std::to_string(cap) + " values is cut to the first and last " + std::to_string(cap / 2) + " in size-then-lexicographic order (first " + std::to_string(cap) + " when the element universe exceeds 64)";
    res.rule = "case = (typification, value); each value packed from its enumerated and from its alternative (lazy Boolean/Decartian, reversed, duplicated) representation, unpacked through both Unpack entry points; compared by model value, by the library's ==, and deep compatibility; non-trivial = contains an empty set below the top level, is a tuple, or has >= 2 elements";
  } else if (opt.mode == "malformed") {
    const int32_t U = SDCompact::unknownCount;
    const std::vector<int32_t> S6 = { -1, 0, 1, 2, 3, U }, S5 = { -1, 0, 1, 2, U }, S4 = { 0, 1, 2, U }, S3 = { 0, 1, 2 };
    std::vector<Shape> shapes;
    if (opt.thorough()) shapes = { { 3, 3, S5 }, { 2, 4, S6 }, { 2, 5, S4 }, { 1, 7, S6 } };   // 3x3 over all six symbols (1.15e9 tables x 66 types) does not fit the budget
    else shapes = { { 3, 2, S6 }, { 2, 3, S6 }, { 3, 3, S4 }, { 1, 5, S6 } };
    (void)S3;
    const size_t mcap = static_cast<size_t>(opt.num("mutcap", opt.thorough() ? 256 : 128));
    const size_t mcells = static_cast<size_t>(opt.num("mutcells", opt.thorough() ? 64 : 40));
    const std::string part = opt.str("part", "all");
    res.rep = run_sharded(opt, "malformed", [&](Ctx& c) {
      if (part != "mutants") run_malformed_raw(c, types, shapes);
      if (part != "raw") run_malformed_mutants(c, mutTypes, mcap, mcells);
    }, &ri);
    std::string sh; for (const auto& s : shapes) sh += "<=" + std::to_string(s.rows) + "x" + std::to_string(s.cols) + "/" + std::to_string(s.symbols.size()) + "sym ";
    res.alphabet = std::to_string(types.size()) + " typifications (<= " + std::to_string(maxNodes) + " nodes, arity 2); cell symbols {-1,0,1,2,3,unknownCount} (6sym), without 3 (5sym), {0,1,2,unknownCount} (4sym), {0,1,2} (3sym)";
    res.completed_bound = "all ragged tables of shapes " + sh + "(rows x columns) against every typification; plus every single deviation (cell := each symbol / +-1, row deleted / duplicated / truncated / emptied / extended / swapped, empty row appended) of the valid table (<= " + std::to_string(mcells) + " cells) of the first / last " +
                          std::to_string(mcap / 2) + " values per set level of each of the " + std::to_string(mutTypes.size()) + " typifications, and every valid table against every other typification";
    res.rule = "evaluation = one Unpack(table, typification); a fault (signal, sanitizer report, assertion, escaping exception) is attributed to the table by fork isolation; a returned value must be deeply compatible with the typification (library value walked element by element + model check); non-trivial = decoded to a value";
  } else { fprintf(stderr, "unknown mode\n"); return 2; }
  res.evaluations = res.rep.counters["evaluations"];
  res.distinct_nontrivial = res.rep.counters["nontrivial"];
  res.states = res.evaluations; res.transitions = res.evaluations + res.rep.counters["checks"]; res.traces_validated = res.evaluations;
  res.exhaustive = !ri.deadline_hit && !ri.crash_cap_hit;
  res.assumptions = { "typifications are well formed (tuple arity >= 2)", "values packed are compatible with the typification they are packed against", "clang 14 + libstdc++ 12, ASan+UBSan build" };
  res.wall_s = now_s() - t0;
  res.write(opt.out.empty() ? "/dev/stdout" : opt.out);
  return 0;
}
