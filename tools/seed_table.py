#!/usr/bin/env python3
"""Prints the markdown table 'seeded change -> which check catches it' from seeded/*/meta.json + check_*.txt."""
import json, glob, os, re
V = os.path.dirname(os.path.dirname(os.path.abspath(__file__)))
notes = json.load(open(os.path.join(V, 'seeded', 'notes.json'))) if os.path.exists(os.path.join(V, 'seeded', 'notes.json')) else {}
print('| seeded change | property | needs in order to manifest | caught by (signature of the first violation) | note |')
print('|---|---|---|---|---|')
for d in sorted(glob.glob(os.path.join(V, 'seeded', 'C*'))):
    name = os.path.basename(d)
    try: m = json.load(open(os.path.join(d, 'meta.json')))
    except Exception: continue
    caught = []
    for f in sorted(glob.glob(os.path.join(d, 'check_*.txt'))):
        t = open(f, errors='replace').read()
        prop = os.path.basename(f)[6:-4]
        sig = re.search(r'signature: (\S+)', t)
        n = len(re.findall(r'^VIOLATION', t, re.M))
        caught.append('%s: %s' % (prop, ('`%s`' % sig.group(1)) if n else 'not caught'))
    need = str(m.get('needs_to_manifest', ''))[:230].replace('|', '\\|').replace('\n', ' ')
    print('| `%s` | %s | %s | %s | %s |' % (name, m.get('property', ''), need, '; '.join(caught), notes.get(name, '')))
