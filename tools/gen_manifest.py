#!/usr/bin/env python3
"""Regenerates /verif/MANIFEST.json from tools/registry.py (+ tools/not_applicable.json)."""
import json, os, sys
VERIF = os.path.dirname(os.path.dirname(os.path.abspath(__file__)))
sys.path.insert(0, os.path.join(VERIF, 'tools'))
from registry import CHECKS
na_path = os.path.join(VERIF, 'tools', 'not_applicable.json')
na = json.load(open(na_path)) if os.path.exists(na_path) else []
props = [json.loads(l)['id'] for l in open(os.path.join(VERIF, 'properties.jsonl'))]
checks = []
enabled = {l.strip() for l in open(os.path.join(VERIF, 'tools', 'enabled.txt')) if l.strip() and not l.startswith('#')}
for pid in props:
    if pid not in CHECKS or pid not in enabled:
        continue
    c = CHECKS[pid]
    checks.append({
        'property_id': pid,
        'quick_cmd': './check %s --tier quick' % pid,
        'thorough_cmd': './check %s --tier thorough' % pid,
        'evidence_file': 'evidence/%s.json' % pid,
        'replay_cmd_template': './check %s --replay {path}' % pid,
        'engine': ', '.join(sorted({r['harness'] for r in c['runs']})),
        'level_claimed': {'category': 'model_checking', 'text': c['level_text'], 'design_ref': c.get('design_ref', 'DESIGN.md §5')},
        'level_note': c['level_note'],
        'technique': c['technique'],
    })
claimed = {c['property_id'] for c in checks}
na_list = [e for e in na if e['property_id'] not in claimed]
for pid in props:
    if pid not in claimed and pid not in {e['property_id'] for e in na_list}:
        na_list.append({'property_id': pid, 'reason': 'check not yet built in this round (planned, see DESIGN.md §9); no claim is made'})
hook_commits = [l.strip() for l in open(os.path.join(VERIF, 'tools', 'hook_commits.txt'))] if os.path.exists(os.path.join(VERIF, 'tools', 'hook_commits.txt')) else []
manifest = {
    'version': 1,
    'setup_cmd': 'tools/build.sh --all',
    'hooks': {
        'guard': 'CCL_VERIF',
        'enable': 'tools/build.sh compiles the 7 library translation units of /repo/ccl with clang++ -DCCL_VERIF (hash-keyed on the working tree); the baseline CMake build never defines it',
        'baseline_off_cmd': 'cmake --build /repo/_build && ctest --test-dir /repo/_build -j8 --timeout 900',
        'source_commits': hook_commits,
        'add_only': True,
    },
    'engines': [
        {'name': 'mc', 'path': 'engine/mc.hpp', 'serves_properties': sorted(claimed),
         'kind_free_text': 'E1 sharded bounded-exhaustive case enumeration, E2 explicit-state BFS over operation histories replayed on the real objects (exact canonical keys), E3 fork isolation with sanitizer-as-oracle and per-case attribution'},
    ],
    'checks': checks,
    'not_applicable': na_list,
    'notes': 'All checks run the REAL library code compiled from /repo working tree (hash-keyed cache in build/). See DESIGN.md.',
}
json.dump(manifest, open(os.path.join(VERIF, 'MANIFEST.json'), 'w'), indent=1)
print('MANIFEST.json: %d checks, %d not_applicable' % (len(checks), len(na_list)))
