// Hook H1 client: deterministic, harness-controlled entity identifiers (see DESIGN.md §3.6).
// The library (built with -DCCL_VERIF) asks ccl::verif::uidSource for every new EntityUID.
#pragma once
#include "ccl/Entity.hpp"

namespace ccl::verif { extern EntityUID (*uidSource)(const SetOfEntities& taken); }

namespace uidpolicy {
// ascending: 1 + max(taken) (or 1);  descending: min(taken) - 1 (or 1000000)
inline ccl::EntityUID ascending(const ccl::SetOfEntities& taken) {
  ccl::EntityUID m = 0; for (auto u : taken) if (u > m) m = u; return m + 1;
}
inline ccl::EntityUID descending(const ccl::SetOfEntities& taken) {
  if (taken.empty()) return 1000000;
  ccl::EntityUID m = *taken.begin(); for (auto u : taken) if (u < m) m = u;
  if (m >= 2) return m - 1;                                  // below everything live
  ccl::EntityUID c = 1000000; while (taken.count(c) != 0) --c;   // min is 0/1: largest free value at or below the high start
  return c;
}
inline void install(int policy) { ccl::verif::uidSource = policy == 0 ? &ascending : &descending; }
}  // namespace uidpolicy
