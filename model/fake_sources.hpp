// Deterministic SourceManager environment for C19 (DESIGN.md appendix D, "Environment model for C19").
// Own code, modelled on upstream's test double ccl/core/test/utils/FakeSourceManager.hpp:
//   * a source holds an RSForm, can be open / closed, saved / dirty, and observes its schema
//     (any modification notification clears `saved`);
//   * SaveState(src): open source only; announces SrcChanged iff dirty, then marks it saved (same order as upstream);
//   * Close(src): announces SrcChanged (unconditionally, as upstream), marks saved, announces SrcClosed, closes;
//   * Open(desc): any known source with that name; (re)opens and announces SrcOpened;
//   * Find(desc): open sources only;  CreateNew(desc): refused when the name is in use;
//   * Discard(desc): closes (with the notifications of Close) and forgets the source;
//   * TestDomain / Convert2Local / Convert2Global: empty or prefix domain.
// Deliberate differences from upstream's double (all deterministic, none changes what the OSS can observe from
// a well-behaved manager):
//   - no function-local static counters: generated names use the SMALLEST FREE index among the sources the
//     manager currently knows (so state does not depend on how many names were ever handed out);
//   - Close issues each notification once (upstream's double repeats SrcClosed and may repeat SrcChanged
//     after the OSS has already detached);
//   - CreateNew also refuses a name held by a closed source; Discard removes the source from the list.
// Instrumentation for the C19 monitor: every notification / write gets a sequence number; an `onAnnounce`
// hook is called for every SrcChanged the manager issues, with "core hash differs from the last announced one".
#pragma once

#include "ccl/semantic/RSForm.h"
#include "ccl/env/cclEnvironment.h"
#include "ccl/env/SourceManager.hpp"

#include <functional>
#include <list>
#include <string>

namespace fakesrc {

class Manager;

class Source final : public ccl::src::Source, public ccl::types::Observer {
  friend class Manager;

public:
  ccl::semantic::RSForm schema{};
  std::u8string fullName{};
  bool unwritable{ false };

  // instrumentation (monitor state, not visible to the library)
  ccl::change::Hash announcedCore{ 0 };  // CoreHash at the last announcement (or at MarkPristine)
  uint64_t lastWriteSeq{ 0 };            // sequence number of the last successful WriteData (0 = none since ResetSeq)
  uint64_t writes{ 0 };                  // number of successful WriteData calls
  std::vector<std::pair<uint64_t, ccl::change::Hash>> writeLog{};   // (sequence number, CoreHash after the write) of every WriteData since ResetSeq

private:
  bool saved{ true };
  bool open{ true };
  Manager* mgr{ nullptr };

public:
  Source() { schema.AddObserver(*this); }
  ~Source() override { schema.RemoveObserver(*this); }
  Source(const Source&) = delete;
  Source& operator=(const Source&) = delete;

  [[nodiscard]] bool IsOpened() const noexcept { return open; }
  // the document is changed while it is closed and stored again (another session): no notification, nothing pending
  void OfflineEdit(const std::function<void(ccl::semantic::RSForm&)>& edit) { if (!open) { edit(schema); saved = true; } }
  [[nodiscard]] bool IsSaved() const noexcept { return saved; }
  // content just put there by the environment counts as the saved, already announced state of the document
  void MarkPristine() { saved = true; announcedCore = schema.CoreHash(); }

  void OnObserve(const ccl::types::Message& /*msg*/) override { saved = false; }

  [[nodiscard]] ccl::change::Hash CoreHash() const override { return schema.CoreHash(); }
  [[nodiscard]] ccl::change::Hash FullHash() const override { return schema.FullHash(); }
  [[nodiscard]] ccl::src::SrcType Type() const noexcept override { return ccl::src::SrcType::rsDoc; }
  [[nodiscard]] bool WriteData(ccl::meta::UniqueCPPtr<ccl::src::DataStream> data) override;
  [[nodiscard]] const ccl::src::DataStream* ReadData() const override { return &schema; }
  [[nodiscard]] ccl::src::DataStream* AccessData() override { return &schema; }
};

class Manager final : public ccl::SourceManager {
  using SrcType = ccl::src::SrcType;
  using Descriptor = ccl::src::Descriptor;

public:
  std::list<Source> sources{};   // owned; creation order
  bool rejectDomain{ false };
  uint64_t seq{ 0 };             // event sequence (announcements, writes)
  uint64_t announcements{ 0 }, opens{ 0 }, closes{ 0 };
  // called for every SrcChanged the manager issues, BEFORE observers are notified
  std::function<void(Source&, bool coreChanged, uint64_t seq)> onAnnounce{};

public:
  // start of a transition: sequence numbers are only meaningful within one transition
  void ResetSeq() { seq = 0; for (auto& s : sources) { s.lastWriteSeq = 0; s.writeLog.clear(); } }

  [[nodiscard]] Source* Cast(ccl::src::Source* src) { return dynamic_cast<Source*>(src); }
  [[nodiscard]] const Source* Cast(const ccl::src::Source* src) const { return dynamic_cast<const Source*>(src); }

  [[nodiscard]] Source* FindAny(const std::u8string& fullName) {
    for (auto& src : sources) if (src.fullName == fullName) return &src;
    return nullptr;
  }
  [[nodiscard]] const Source* FindAny(const std::u8string& fullName) const {
    for (const auto& src : sources) if (src.fullName == fullName) return &src;
    return nullptr;
  }

  // environment move: the user creates a document "<prefix>s<k>.trs" (smallest free k)
  Source& CreateUserSource(const std::u8string& prefix) {
    for (int k = 1;; ++k) {
      const auto name = prefix + u8"s" + ccl::to_u8string(k) + u8".trs";
      if (FindAny(name) == nullptr) return Emplace(name);
    }
  }

  void Announce(Source& src) {
    const auto now = src.schema.CoreHash();
    const bool changed = now != src.announcedCore;
    src.announcedCore = now;
    ++seq; ++announcements;
    if (onAnnounce) onAnnounce(src, changed, seq);
    SourceManager::OnSourceChange(src);
  }

public:
  [[nodiscard]] bool TestDomain(const Descriptor& global, const std::u8string& domain) const override {
    return !rejectDomain && (std::empty(domain) || global.name.find(domain) == 0);
  }
  [[nodiscard]] Descriptor Convert2Local(const Descriptor& global, const std::u8string& domain) const override {
    auto local = global;
    if (!std::empty(domain) && local.name.find(domain) == 0) local.name.erase(0, domain.length());
    return local;
  }
  [[nodiscard]] Descriptor Convert2Global(const Descriptor& local, const std::u8string& domain) const override {
    return Descriptor{ local.type, domain + local.name };
  }

  [[nodiscard]] ccl::src::Source* Find(const Descriptor& desc) override {
    if (desc.type != SrcType::rsDoc) return nullptr;
    for (auto& src : sources) if (src.fullName == desc.name && src.open) return &src;
    return nullptr;
  }

  [[nodiscard]] Descriptor CreateLocalDesc(SrcType type, std::u8string localName) const override {
    if (type != SrcType::rsDoc) return SourceManager::CreateLocalDesc(type, localName);
    if (std::empty(localName)) {
      for (int k = 1;; ++k) {  // smallest index not used by any known document (in any domain)
        const auto candidate = u8"local" + ccl::to_u8string(k) + u8".trs";
        bool taken = false;
        for (const auto& src : sources) {
          const auto& n = src.fullName;
          if (n.size() >= candidate.size() && n.compare(n.size() - candidate.size(), candidate.size(), candidate) == 0 &&
              (n.size() == candidate.size() || n[n.size() - candidate.size() - 1] == u8'/')) taken = true;
        }
        if (!taken) return Descriptor{ type, candidate };
      }
    }
    return Descriptor{ type, localName + u8".trs" };
  }

  [[nodiscard]] Descriptor GetDescriptor(const ccl::src::Source& src) const override {
    if (const auto* p = Cast(&src); p != nullptr) return Descriptor{ SrcType::rsDoc, p->fullName };
    return Descriptor{};
  }

  [[nodiscard]] ccl::src::Source* CreateNew(const Descriptor& desc) override {
    if (desc.type != SrcType::rsDoc || std::empty(desc.name) || FindAny(desc.name) != nullptr) return nullptr;
    return &Emplace(desc.name);
  }

  [[nodiscard]] ccl::src::Source* Open(const Descriptor& desc) override {
    if (desc.type != SrcType::rsDoc) return nullptr;
    auto* src = FindAny(desc.name);
    if (src == nullptr) return nullptr;
    src->open = true;
    ++opens;
    SourceManager::OnSourceOpen(*src);
    // an opened document whose formal content differs from what was last announced is an announced change of that source
    { const auto now = src->schema.CoreHash(); const bool changed = now != src->announcedCore; src->announcedCore = now; ++seq; if (changed && onAnnounce) onAnnounce(*src, true, seq); }
    return src;
  }

  void Close(ccl::src::Source& target) override {
    auto* src = Cast(&target);
    if (src == nullptr || !src->open) return;
    Announce(*src);
    src->saved = true;
    ++closes;
    SourceManager::OnSourceClose(*src);
    src->open = false;
  }

  [[nodiscard]] bool ChangeDescriptor(const Descriptor& desc, const Descriptor& newDesc) override {
    if (desc.type != newDesc.type || desc.type != SrcType::rsDoc || std::empty(newDesc.name)) return false;
    auto* target = Cast(Find(desc));
    if (target == nullptr || FindAny(newDesc.name) != nullptr) return false;
    target->fullName = newDesc.name;
    return true;
  }

  [[nodiscard]] bool SaveState(ccl::src::Source& target) override {
    auto* src = Cast(&target);
    if (src == nullptr || !src->open) return false;
    if (!src->saved) {
      Announce(*src);
      src->saved = true;
    }
    return true;
  }

  void Discard(const Descriptor& desc) override {
    if (desc.type != SrcType::rsDoc) return;
    auto* src = FindAny(desc.name);
    if (src == nullptr) return;
    src->ReleaseClaim();
    if (src->open) Close(*src);
    for (auto it = std::begin(sources); it != std::end(sources); ++it) {
      if (&*it == src) { sources.erase(it); break; }
    }
  }

private:
  Source& Emplace(const std::u8string& fullName) {
    auto& src = sources.emplace_back();
    src.fullName = fullName;
    src.mgr = this;
    src.MarkPristine();
    return src;
  }
};

inline bool Source::WriteData(ccl::meta::UniqueCPPtr<ccl::src::DataStream> data) {
  if (unwritable) return false;
  const auto* rsData = dynamic_cast<const ccl::semantic::RSForm*>(data.get());
  if (rsData == nullptr) return false;
  schema = *rsData;  // RSForm::operator= notifies the schema's observers -> saved = false
  ++writes;
  if (mgr != nullptr) { lastWriteSeq = ++mgr->seq; writeLog.emplace_back(lastWriteSeq, schema.CoreHash()); }
  return true;
}

// Installs a fresh manager as THE source manager of ccl::Environment (which owns it) and returns it.
// Precondition: no OSSchema created under the previous manager is alive any more.
inline Manager& InstallFresh() {
  auto owned = std::make_unique<Manager>();
  auto* raw = owned.get();
  ccl::Environment::Instance().SetSourceManager(std::move(owned));
  return *raw;
}

}  // namespace fakesrc
