// Stub of <pybind11/pybind11.h>: lets /repo/pyconcept/src/pyconcept.cpp (and pyconcept.h) compile without Python.
// PYBIND11_MODULE(name, var) becomes a static function taking a dummy module_ whose templated def() accepts and
// ignores any binding. The seven std::string -> std::string functions of pyconcept.cpp are then ordinary C++
// functions that a harness can call directly (C04, C10).
#pragma once

namespace pybind11 {

class module_ {
public:
  template <typename... Args>
  module_& def(const char* /*name*/, Args&&... /*binding*/) { return *this; }
  template <typename T>
  module_& attr(const T& /*name*/) { return *this; }
  const char* doc{ nullptr };
};

using module = module_;

}  // namespace pybind11

#define PYBIND11_MODULE(name, variable) \
  [[maybe_unused]] static void verif_pybind11_init_##name(::pybind11::module_& variable)
