// reflex.hpp — reference model of the MATH-syntax token structure as far as identifier translation needs it (C08),
// written from the grammar in ccl/rslang/src/MathLexerImpl.l, sharing no code with /repo. Deliberately naive.
//
// INTERFACE (namespace reflex)
//
//   enum Kind (bit flags)  kGlobal  X1 C1 S1 D1 A1 T1 ... : [A-Z except B] alnum*   that is none of the forms below
//                          kFunction  F<digits>      kPredicate  P<digits>      kRadical  R<digits>
//                          kLocal     (_ | a-z | α-ω) alnum*   that is not a keyword
//                          kInteger   <digits>
//                          kKeyword   word-shaped reserved lexemes: D R I Z card bool red debool pr<index> Pr<index> Fi<index>
//                          kOther     everything else (operators, punctuation, white space, 'B', '@', any other code point)
//   masks                  kGlobals      = kGlobal|kFunction|kPredicate          (what the library calls FilterGlobals)
//                          kIdentifiers  = kGlobals|kLocal                       (FilterIdentifiers; radicals are in neither)
//   alnum = _ | 0-9 | A-Z | a-z | α-ω(U+03B1..U+03C9);  index = digits(,digits)*;  longest match wins, on equal length
//   the reserved form wins (so "F1" is a function name, "F1a" a global, "pr1" a projection, "pr1a" a local, "D" a keyword,
//   "D1" a global, "X1α1" ONE global, "x1X1" ONE local, "1X1" = integer 1 + global X1, "B1" = other 'B' + integer 1).
//
//   struct Token { Kind kind; size_t begin, end;  size_t cpBegin, cpEnd;  std::string text; }
//        byte range [begin,end) and code-point range [cpBegin,cpEnd) in the input
//   std::vector<Token> tokenize(const std::string& s)
//        tokens in order, COVERING s: concatenating token.text gives s back byte for byte. kOther tokens are maximal
//        runs of non-word bytes (each run may hold several operators); word-shaped tokens are single lexemes.
//
//   using Translator = std::function<std::optional<std::string>(const std::string&)>   (nullopt = leave alone)
//   struct Renamed { std::string text; int count; std::vector<Token> replaced; }
//   Renamed rename(const std::string& s, unsigned mask, const Translator& f)
//   Renamed rename(const std::string& s, unsigned mask, const std::map<std::string,std::string>& m)
//   Renamed rename(const std::vector<Token>& toks, unsigned mask, const Translator& f | const std::map&)   (tokens of tokenize(s))
//   Renamed rename_with(toks, mask, f)      same, f any callable  const std::string& -> std::optional<std::string>
//        SIMULTANEOUS whole-token renaming: every token whose kind is in `mask` and for which f gives a value different
//        from the token text is replaced by that value; all decisions are taken on the ORIGINAL tokens (a swap
//        {X1→X2,X2→X1} swaps; a chain {X1→X2,X2→X3} never renames twice). Every other byte is copied unchanged.
//        count = number of replaced tokens (a mapping of a name to itself does not count); `replaced` = those tokens
//        (positions refer to the input).
//   std::set<std::string> mentioned(const std::string& s, unsigned mask = kGlobals)
//        set of distinct token texts with a kind in mask (default: the global names mentioned in an expression).
//
//   Text references (managed natural-language text, NOT tokenised as MATH):
//   struct RefGroup { size_t begin, end; std::vector<std::string> fields; bool entity; }   byte range of "@{...}"
//   std::vector<RefGroup> ref_groups(const std::string& raw)
//        flat groups "@{f0|f1[|f2[|f3]]}" (brace-balanced; '@' immediately followed by '{'). entity == 2..4 fields and f0
//        starts with an ASCII letter. NOT modelled: validity of the grammeme tags (the library ignores a reference
//        without a single known tag), nesting, the library's canonical re-spelling of the tag list of a reference it
//        rewrites. Use canonical single-tag references ("@{X1|nomn}") when comparing bytes.
//   Renamed rename_refs(const std::string& raw, const Translator& f)   /  (..., const std::map&)
//        replaces ONLY the entity field f0 of entity groups (exact field text is the key); everything else unchanged.
//   std::set<std::string> referenced(const std::string& raw)           entity fields of all entity groups
#pragma once
#include <cstddef>
#include <functional>
#include <map>
#include <optional>
#include <set>
#include <string>
#include <vector>

namespace reflex {

enum Kind : unsigned { kGlobal = 1, kFunction = 2, kPredicate = 4, kRadical = 8, kLocal = 16, kInteger = 32, kKeyword = 64, kOther = 128 };
constexpr unsigned kGlobals = kGlobal | kFunction | kPredicate;
constexpr unsigned kIdentifiers = kGlobals | kLocal;

struct Token { Kind kind; size_t begin, end; size_t cpBegin, cpEnd; std::string text; };

namespace detail {
inline bool digit(const std::string& s, size_t i) { return i < s.size() && s[i] >= '0' && s[i] <= '9'; }
inline bool upper(const std::string& s, size_t i) { return i < s.size() && s[i] >= 'A' && s[i] <= 'Z'; }
// length in bytes of a {lower} symbol at i (0 = none): a-z, or U+03B1..U+03C9 = CE B1..CE BF, CF 80..CF 89
inline size_t lower(const std::string& s, size_t i) {
  if (i >= s.size()) return 0;
  const auto c = static_cast<unsigned char>(s[i]);
  if (c >= 'a' && c <= 'z') return 1;
  if (i + 1 >= s.size()) return 0;
  const auto d = static_cast<unsigned char>(s[i + 1]);
  if (c == 0xCE && d >= 0xB1 && d <= 0xBF) return 2;
  if (c == 0xCF && d >= 0x80 && d <= 0x89) return 2;
  return 0;
}
inline size_t alnum(const std::string& s, size_t i) {  // bytes of one {alnum} symbol at i, 0 = none
  if (i < s.size() && s[i] == '_') return 1;
  if (digit(s, i) || upper(s, i)) return 1;
  return lower(s, i);
}
inline size_t alnum_run(const std::string& s, size_t i) { size_t j = i; for (size_t n; (n = alnum(s, j)) != 0;) j += n; return j; }
inline size_t number(const std::string& s, size_t i) { size_t j = i; while (digit(s, j)) ++j; return j; }
// end of {index} starting at i, or i when there is none
inline size_t index(const std::string& s, size_t i) {
  size_t j = number(s, i);
  if (j == i) return i;
  while (j < s.size() && s[j] == ',' && digit(s, j + 1)) j = number(s, j + 1);
  return j;
}
inline bool all_digits(const std::string& t, size_t from) {
  if (from >= t.size()) return false;
  for (size_t i = from; i < t.size(); ++i) if (t[i] < '0' || t[i] > '9') return false;
  return true;
}
inline bool word_start(const std::string& s, size_t i) {
  if (digit(s, i)) return true;
  if (upper(s, i)) return s[i] != 'B';
  if (i < s.size() && s[i] == '_') return true;
  return lower(s, i) != 0;
}
}  // namespace detail

inline std::vector<Token> tokenize(const std::string& s) {
  using namespace detail;
  std::vector<Token> out;
  auto cps = [&](size_t a, size_t b) { size_t n = 0; for (size_t i = a; i < b; ++i) if ((static_cast<unsigned char>(s[i]) & 0xC0) != 0x80) ++n; return n; };
  size_t cp = 0;
  auto push = [&](Kind k, size_t a, size_t b) { const size_t n = cps(a, b); out.push_back(Token{ k, a, b, cp, cp + n, s.substr(a, b - a) }); cp += n; };
  size_t i = 0;
  while (i < s.size()) {
    if (!word_start(s, i)) {  // maximal run of non-word bytes; a continuation byte never looks like a word start
      size_t j = i + 1;
      while (j < s.size() && !word_start(s, j)) ++j;
      push(kOther, i, j); i = j; continue;
    }
    if (digit(s, i)) { const size_t j = number(s, i); push(kInteger, i, j); i = j; continue; }
    const size_t idEnd = alnum_run(s, i);  // global_id / local_id candidate
    const bool isUpper = upper(s, i);
    // indexed keywords may extend over commas: Pr1,2  Fi1,2  pr1,2
    size_t kwEnd = 0;
    if ((s.compare(i, 2, "Pr") == 0 || s.compare(i, 2, "Fi") == 0 || s.compare(i, 2, "pr") == 0)) {
      const size_t e = index(s, i + 2);
      if (e != i + 2) kwEnd = e;
    }
    if (kwEnd >= idEnd) { push(kKeyword, i, kwEnd); i = kwEnd; continue; }  // tie -> reserved form (listed first in the grammar)
    const std::string t = s.substr(i, idEnd - i);
    Kind k;
    if (isUpper) {
      if (t == "D" || t == "R" || t == "I" || t == "Z") k = kKeyword;
      else if (t[0] == 'F' && all_digits(t, 1)) k = kFunction;
      else if (t[0] == 'P' && all_digits(t, 1)) k = kPredicate;
      else if (t[0] == 'R' && all_digits(t, 1)) k = kRadical;
      else k = kGlobal;
    } else {
      k = (t == "card" || t == "bool" || t == "red" || t == "debool") ? kKeyword : kLocal;
    }
    push(k, i, idEnd); i = idEnd;
  }
  return out;
}

using Translator = std::function<std::optional<std::string>(const std::string&)>;
struct Renamed { std::string text; int count{ 0 }; std::vector<Token> replaced; };

inline Translator from_map(const std::map<std::string, std::string>& m) {  // the map is copied: the translator may outlive it
  return [m](const std::string& k) -> std::optional<std::string> { auto it = m.find(k); if (it == m.end()) return std::nullopt; return it->second; };
}

template <class F>  // F: const std::string& -> std::optional<std::string>
inline Renamed rename_with(const std::vector<Token>& toks, unsigned mask, const F& f) {
  Renamed r;
  for (const auto& t : toks) {
    if ((t.kind & mask) != 0) {
      const std::optional<std::string> n = f(t.text);
      if (n.has_value() && *n != t.text) { r.text += *n; ++r.count; r.replaced.push_back(t); continue; }
    }
    r.text += t.text;
  }
  return r;
}
inline Renamed rename(const std::vector<Token>& toks, unsigned mask, const Translator& f) { return rename_with(toks, mask, f); }
inline Renamed rename(const std::vector<Token>& toks, unsigned mask, const std::map<std::string, std::string>& m) {
  return rename_with(toks, mask, [&m](const std::string& k) -> std::optional<std::string> { auto it = m.find(k); if (it == m.end()) return std::nullopt; return it->second; });
}
inline Renamed rename(const std::string& s, unsigned mask, const Translator& f) { return rename_with(tokenize(s), mask, f); }
inline Renamed rename(const std::string& s, unsigned mask, const std::map<std::string, std::string>& m) { return rename(tokenize(s), mask, m); }

inline std::set<std::string> mentioned(const std::string& s, unsigned mask = kGlobals) {
  std::set<std::string> r;
  for (const auto& t : tokenize(s)) if ((t.kind & mask) != 0) r.insert(t.text);
  return r;
}

// ---------------------------------------------------------------------------------------------------------------
// text references
struct RefGroup { size_t begin, end; std::vector<std::string> fields; bool entity; };

inline std::vector<RefGroup> ref_groups(const std::string& raw) {
  std::vector<RefGroup> out;
  size_t i = 0;
  while (i + 1 < raw.size()) {
    if (!(raw[i] == '@' && raw[i + 1] == '{')) { ++i; continue; }
    int depth = 0; size_t j = i + 1;
    for (; j < raw.size(); ++j) { if (raw[j] == '{') ++depth; else if (raw[j] == '}') { if (--depth == 0) break; } }
    if (j >= raw.size()) break;  // unbalanced: no further group
    RefGroup g{ i, j + 1, {}, false };
    std::string cur;
    for (size_t k = i + 2; k < j; ++k) { if (raw[k] == '|') { g.fields.push_back(cur); cur.clear(); } else cur += raw[k]; }
    g.fields.push_back(cur);
    const auto& f0 = g.fields[0];
    g.entity = g.fields.size() >= 2 && g.fields.size() <= 4 && !f0.empty() && ((f0[0] >= 'a' && f0[0] <= 'z') || (f0[0] >= 'A' && f0[0] <= 'Z'));
    out.push_back(g);
    i = j + 1;
  }
  return out;
}

inline Renamed rename_refs(const std::string& raw, const Translator& f) {
  Renamed r; size_t pos = 0;
  for (const auto& g : ref_groups(raw)) {
    if (!g.entity) continue;
    const auto n = f(g.fields[0]);
    if (!n.has_value() || *n == g.fields[0]) continue;
    r.text.append(raw, pos, g.begin + 2 - pos);                  // up to and including "@{"
    r.text += *n;
    pos = g.begin + 2 + g.fields[0].size();                      // rest of the group is copied with the following text
    ++r.count;
    r.replaced.push_back(Token{ kGlobal, g.begin + 2, pos, 0, 0, g.fields[0] });
  }
  r.text.append(raw, pos, std::string::npos);
  return r;
}
inline Renamed rename_refs(const std::string& raw, const std::map<std::string, std::string>& m) { return rename_refs(raw, from_map(m)); }

inline std::set<std::string> referenced(const std::string& raw) {
  std::set<std::string> r;
  for (const auto& g : ref_groups(raw)) if (g.entity) r.insert(g.fields[0]);
  return r;
}

}  // namespace reflex
