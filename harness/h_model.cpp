// C11 — an interpreted model (RSModel) never shows a stale calculated value        (mode stale)
// C10 — JSON save/load of a model with its data is lossless and stable (model part) (mode json)
//
// Engine E2: explicit-state BFS over operation histories on the REAL RSModel (not copyable -> every state is a
// history replayed on a fresh object), hook H1 (deterministic uids, both policies), exact canonical key
// (DESIGN appendix D: core key + stored data + text interpretation + statement values + calculatedEntities).
//
// Oracle of mode stale (differential, no hand-written expected value), evaluated in EVERY reached state:
//   build a FRESH model with the same constituents (content replay through InsertCopy(ConceptRecord), not JSON),
//   the same base interpretations (SetBasicText) and the same structure data (SetStructureData), RecalculateAll;
//   every constituent that reports a calculated value in the explored model must report the same value there.
//   Structures: stored data may only contain elements that are valid for the current base interpretations,
//   and a base change must leave exactly the pruned data (transition check).
//   A constituent marked calculated with outcome INCALCULABLE is judged against a second fresh model on which exactly
//   the same set of constituents is calculated (class incalculable).
//   A violating state is attributed to the FIRST operation of its history after which the oracle fails
//   (signature C11:stale-after-<Op>:<class>), so distinct root causes get distinct signatures. States on which
//   incremental analysis disagrees with analysis from scratch (C07's subject: definition cycles) are counted, not judged;
//   a violation first seen after such a state carries the suffix +after-unjudged-state.
//   Two library calls that abort only in states created by a C11 defect (PruneStructure on an untyped structure that
//   kept data; to_json of a value that contradicts its typification) are reported as violations without being executed,
//   so that the exploration stays exhaustive on the unchanged tree (--execute-aborting-ops 1 executes the first).
// Oracle of mode json: j1 = json(model); loaded <- j1; j2 = json(loaded); j2 == j1 as JSON values, plus
//   field-by-field observable content (items, parse result, data, text interpretation, statements, calculated flags).
#include "engine/mc.hpp"
#include "model/uid_policy.hpp"

#include "ccl/semantic/RSModel.h"
#include "ccl/tools/JSON.h"

#include <optional>

using namespace mc;
using ccl::EntityUID;
using ccl::object::Factory;
using ccl::object::StructuredData;
using ccl::semantic::CstType;
using ccl::semantic::EvalStatus;
using ccl::semantic::ParsingStatus;
using ccl::semantic::RSModel;
using ccl::semantic::TextInterpretation;

namespace {

// ------------------------------------------------------------------------------------------------
// RSLang spellings (MATH syntax)
#define U_BOOL "\xE2\x84\xAC"   /* ℬ */
#define U_UNION "\xE2\x88\xAA"  /* ∪ */
#define U_TIMES "\xC3\x97"      /* × */

const std::vector<std::string> kExpr = {
  /* 0*/ "X1",
  /* 1*/ "X1\\S1",
  /* 2*/ "D1" U_UNION "D1",
  /* 3*/ U_BOOL "(S1)",
  /* 4*/ "X1\\X2",              // dangling mention, repaired by inserting X2
  /* 5*/ "X1" U_UNION,          // syntax error
  /* 6*/ "D2" U_UNION "X1",
  /* 7*/ "D2=X1",
  /* 8*/ "D1=D1",
  /* 9*/ "1=2",
  /*10*/ "D2=",                 // syntax error
  /*11*/ U_BOOL "(X1)",
  /*12*/ U_BOOL U_BOOL "(X1)",
  /*13*/ U_BOOL "(X1" U_TIMES U_BOOL "(X1))",
  /*14*/ "S1" U_UNION "S1",
  /*15*/ "D4",
  /*16*/ "D4\\D4",
  /*17*/ "D2" U_UNION "D3",
  /*18*/ "S1=S1",
  /*19*/ "1",
  /*20*/ "[a\xE2\x88\x88" U_BOOL "(X1)] a\\a",                 // F1: always empty
  /*21*/ "[a\xE2\x88\x88" U_BOOL "(X1)] a",                      // F1 alternative: identity (changes every value calculated through it)
  /*22*/ "[a\xE2\x88\x88" U_BOOL "(X1)] a=X1",                   // P1
  /*23*/ "[a\xE2\x88\x88" U_BOOL "(X1)] a\xE2\x89\xA0X1",       // P1 alternative: negation
  /*24*/ "F1[X1]",
  /*25*/ "P1[X1]",
  /*26*/ U_BOOL "(X1" U_TIMES "X1)",
  /*27*/ U_BOOL "(" U_BOOL "(X1" U_TIMES "X1)" U_TIMES "X1)",
  /*28*/ "(S1, X1)",
  /*29*/ "S2",
};
std::string expr(int i) { return i < 0 ? std::string{} : kExpr.at(static_cast<size_t>(i)); }

using TextInit = std::vector<std::pair<int32_t, std::string>>;
const std::vector<TextInit> kTexts = {
  /*0*/ {},
  /*1*/ { { 1, "a" } },
  /*2*/ { { 1, "a" }, { 2, "b" } },
  /*3*/ { { 1, "a" }, { 3, "c" } },                 // same size as #2, different keys
  /*4*/ { { 1, "a" }, { 2, "b" }, { 3, "c" } },
  /*5*/ { { 1, "x" }, { 2, "\xD1\x8F" } },         // same keys as #2, other names (non-ASCII)
  /*6*/ { { 2, "b" }, { 3, "c" } },
  /*7*/ { { 1, "a" }, { 3, "b" } },                 // same NAMES in key order as #2, different keys
};
TextInterpretation text_of(int i) {
  TextInterpretation t;
  for (const auto& [k, v] : kTexts.at(static_cast<size_t>(i))) t.SetInterpretantFor(k, v);
  return t;
}
std::string text_desc(int i) {
  std::string s = "{";
  for (const auto& [k, v] : kTexts.at(static_cast<size_t>(i))) s += (s.size() > 1 ? "," : "") + std::to_string(k) + ":" + v;
  return s + "}";
}

StructuredData value_of(int i) {
  const auto V = [](int x) { return Factory::Val(x); };
  const auto E = Factory::EmptySet();
  switch (i) {
  default:
  case 0: return E;
  case 1: return Factory::SetV({ 1 });
  case 2: return Factory::SetV({ 2 });
  case 3: return Factory::SetV({ 1, 2 });
  case 4: return Factory::SetV({ 1, 3 });
  case 5: return Factory::SetV({ 3 });
  case 6: return Factory::Set({ E });
  case 7: return Factory::Set({ E, Factory::SetV({ 1 }) });
  case 8: return Factory::Set({ Factory::SetV({ 1, 2 }) });
  case 9: return Factory::Set({ Factory::Tuple({ V(1), E }) });
  case 10: return Factory::Set({ Factory::Tuple({ V(1), Factory::SetV({ 1 }) }) });
  case 11: return V(1);
  case 12: return V(3);
  case 13: return Factory::Set({ Factory::SetV({ 1 }), Factory::SetV({ 2 }) });
  case 14: return Factory::Set({ Factory::Tuple({ E, V(2) }), Factory::Tuple({ Factory::Set({ Factory::Tuple({ V(1), V(2) }) }), V(1) }) });   // {({},2), ({(1,2)},1)}
  }
}
constexpr int kValues = 14;   // menu of the SetStructureData operation; value 14 is only used by seed J2

// ------------------------------------------------------------------------------------------------
// own canonical text of a value: iterate, sort (independent of the library's ordering / ToString)
std::string canon(const StructuredData& d) {
  switch (d.Structure()) {
  default:
  case ccl::rslang::StructureType::basic: return std::to_string(d.E().Value());
  case ccl::rslang::StructureType::tuple: {
    std::string s = "(";
    for (auto i = ccl::rslang::Typification::PR_START; i < d.T().Arity() + ccl::rslang::Typification::PR_START; ++i) {
      if (s.size() > 1) s += ",";
      s += canon(d.T().Component(i));
    }
    return s + ")";
  }
  case ccl::rslang::StructureType::collection: {
    std::vector<std::string> el;
    for (const auto& e : d.B()) el.push_back(canon(e));
    std::sort(el.begin(), el.end());
    el.erase(std::unique(el.begin(), el.end()), el.end());
    std::string s = "{";
    for (size_t i = 0; i < el.size(); ++i) s += (i ? "," : "") + el[i];
    return s + "}";
  }
  }
}
std::string canon(const std::optional<StructuredData>& d) { return d.has_value() ? canon(d.value()) : "none"; }

std::string text_canon(const TextInterpretation* t) {
  if (t == nullptr) return "null";
  std::string s = "{";
  for (const auto& [k, v] : *t) s += std::to_string(k) + ":" + std::to_string(v.size()) + ":" + v + ";";
  return s + "}";
}

const char* status_name(EvalStatus s) {
  switch (s) {
  case EvalStatus::UNKNOWN: return "UNKNOWN";
  case EvalStatus::NEVER_CALCULATED: return "NEVER_CALCULATED";
  case EvalStatus::INCALCULABLE: return "INCALCULABLE";
  case EvalStatus::AXIOM_FAIL: return "AXIOM_FAIL";
  case EvalStatus::EMPTY: return "EMPTY";
  case EvalStatus::HAS_DATA: return "HAS_DATA";
  }
  return "?";
}
bool has_value_status(EvalStatus s) { return s == EvalStatus::HAS_DATA || s == EvalStatus::EMPTY || s == EvalStatus::AXIOM_FAIL; }

std::string type_str(const ccl::semantic::ParsingInfo& p) {
  if (!p.exprType.has_value()) return "-";
  if (std::holds_alternative<ccl::rslang::LogicT>(p.exprType.value())) return "LOGIC";
  return std::get<ccl::rslang::Typification>(p.exprType.value()).ToString();
}
std::string parse_str(const ccl::semantic::ParsingInfo& p) {
  return std::to_string(static_cast<int>(p.status)) + "/" + type_str(p);
}

// ------------------------------------------------------------------------------------------------
// exact canonical key (appendix D)
void put(std::string& k, const std::string& s) { k += std::to_string(s.size()); k += ':'; k += s; k += '|'; }
void put(std::string& k, long long v) { k += std::to_string(v); k += '|'; }

void graph_key(std::string& k, const ccl::graph::CGraph& g) {
  k += "G[";
  for (const auto& v : g.graph) {
    put(k, v.uid); put(k, v.isValid ? 1 : 0);
    k += "i("; for (auto i : v.inputs) put(k, i); k += ")o("; for (auto o : v.outputs) put(k, o); k += ")";
  }
  std::vector<std::pair<EntityUID, int>> idx(g.verticies.begin(), g.verticies.end());
  std::sort(idx.begin(), idx.end());
  k += "m("; for (auto& [u, i] : idx) { put(k, u); put(k, i); } k += ")]";
}
void ugraph_key(std::string& k, const ccl::graph::UpdatableGraph& g) { graph_key(k, g); put(k, g.invalid ? 1 : 0); }

void forms_key(std::string& k, const std::unordered_map<ccl::lang::Morphology, std::string>& f) {
  std::vector<std::pair<std::string, std::string>> v;
  for (const auto& [m, s] : f) v.emplace_back(m.ToString(), s);
  std::sort(v.begin(), v.end());
  k += "F("; for (auto& [m, s] : v) { put(k, m); put(k, s); } k += ")";
}

std::string model_key(const RSModel& m) {
  std::string k;
  put(k, m.title); put(k, m.alias); put(k, m.comment);
  const auto& core = m.core;
  k += "L(";
  for (const auto uid : core.cstList.order) {
    put(k, uid);
    if (core.schema.storage.count(uid)) {
      const auto& rs = core.schema.storage.at(uid);
      put(k, rs.uid); put(k, rs.alias); put(k, static_cast<int>(rs.type)); put(k, rs.definition); put(k, rs.convention);
    } else k += "norS|";
    if (core.thesaurus.storage.count(uid)) {
      const auto& tx = core.thesaurus.storage.at(uid);
      put(k, tx.uid); put(k, tx.alias); put(k, tx.term.text.rawText); put(k, tx.term.text.cache);
      forms_key(k, tx.term.manualForms); forms_key(k, tx.term.cachedForms);
      put(k, tx.definition.rawText); put(k, tx.definition.cache);
    } else k += "noTX|";
    if (core.schema.info.count(uid)) {
      const auto& p = core.schema.info.at(uid);
      put(k, static_cast<int>(p.status)); put(k, type_str(p)); put(k, static_cast<int>(p.valueClass));
      if (p.arguments.has_value()) { k += "args("; for (const auto& a : p.arguments.value()) { put(k, a.name); put(k, a.type.ToString()); } k += ")"; } else k += "noargs|";
      put(k, p.ast != nullptr ? ccl::rslang::AST2String::Apply(*p.ast) : std::string{ "noast" });
    } else k += "noInfo|";
  }
  k += ")S(";  // registries: storages by uid (std::map order), parse info keys, identifier registries
  for (const auto& [uid, rs] : core.schema.storage) put(k, uid);
  k += ")T("; for (const auto& [uid, tx] : core.thesaurus.storage) put(k, uid);
  { std::vector<EntityUID> v; for (const auto& [uid, p] : core.schema.info) v.push_back(uid); std::sort(v.begin(), v.end()); k += ")I("; for (auto u : v) put(k, u); }
  { std::vector<EntityUID> v(core.identifiers.idGenerator.entities.begin(), core.identifiers.idGenerator.entities.end()); std::sort(v.begin(), v.end()); k += ")U("; for (auto u : v) put(k, u); }
  { std::vector<std::string> v(core.identifiers.aliasGenerator.names.begin(), core.identifiers.aliasGenerator.names.end()); std::sort(v.begin(), v.end()); k += ")N("; for (auto& s : v) put(k, s); }
  k += ")";
  ugraph_key(k, core.schema.graph); ugraph_key(k, core.thesaurus.termGraph); ugraph_key(k, core.thesaurus.defGraph);
  // interpretation
  {
    const auto& st = *m.dataFacet->storage;
    std::vector<EntityUID> v; for (const auto& [uid, d] : st.rsData) v.push_back(uid); std::sort(v.begin(), v.end());
    k += "D("; for (auto u : v) { put(k, u); put(k, canon(st.rsData.at(u))); }
    v.clear(); for (const auto& [uid, d] : st.textData) v.push_back(uid); std::sort(v.begin(), v.end());
    k += ")X("; for (auto u : v) { put(k, u); put(k, text_canon(&st.textData.at(u))); }
    v.clear(); for (const auto& [uid, d] : m.dataFacet->statements) v.push_back(uid); std::sort(v.begin(), v.end());
    k += ")B("; for (auto u : v) { put(k, u); put(k, m.dataFacet->statements.at(u) ? 1 : 0); }
    v.assign(m.calulatorFacet->calculatedEntities.begin(), m.calulatorFacet->calculatedEntities.end()); std::sort(v.begin(), v.end());
    k += ")C("; for (auto u : v) put(k, u);
    k += ")";
  }
  return k;
}

// ------------------------------------------------------------------------------------------------
// own validity walker for structure data: every basic element must belong to the current interpretation
// of the base set named by the typification at that position (integers are always valid)
bool valid_for(const RSModel& m, const StructuredData& d, const ccl::rslang::Typification& t) {
  if (d.Structure() != t.Structure()) return false;
  switch (t.Structure()) {
  default:
  case ccl::rslang::StructureType::basic: {
    if (t == ccl::rslang::Typification::Integer()) return true;
    const auto base = m.Core().FindAlias(t.E().baseID);
    if (!base.has_value()) return false;
    const auto* tx = m.Values().TextFor(base.value());
    if (tx == nullptr) return false;
    for (const auto& [key, name] : *tx) if (key == d.E().Value()) return true;
    return false;
  }
  case ccl::rslang::StructureType::collection:
    for (const auto& e : d.B()) if (!valid_for(m, e, t.B().Base())) return false;
    return true;
  case ccl::rslang::StructureType::tuple:
    if (d.T().Arity() != t.T().Arity()) return false;
    for (auto i = ccl::rslang::Typification::PR_START; i < d.T().Arity() + ccl::rslang::Typification::PR_START; ++i)
      if (!valid_for(m, d.T().Component(i), t.T().Component(i))) return false;
    return true;
  }
}
// deep shape check: does a value have the structure of a typification (every element of every set)
bool shape_ok(const StructuredData& d, const ccl::rslang::Typification& t) {
  if (d.Structure() != t.Structure()) return false;
  switch (t.Structure()) {
  default:
  case ccl::rslang::StructureType::basic: return true;
  case ccl::rslang::StructureType::collection:
    for (const auto& e : d.B()) if (!shape_ok(e, t.B().Base())) return false;
    return true;
  case ccl::rslang::StructureType::tuple:
    if (d.T().Arity() != t.T().Arity()) return false;
    for (auto i = ccl::rslang::Typification::PR_START; i < d.T().Arity() + ccl::rslang::Typification::PR_START; ++i)
      if (!shape_ok(d.T().Component(i), t.T().Component(i))) return false;
    return true;
  }
}
bool mentions(const std::string& definition, const std::string& alias) {
  for (size_t p = definition.find(alias); p != std::string::npos; p = definition.find(alias, p + 1)) {
    const size_t e = p + alias.size();
    const bool startOk = p == 0 || !(isalnum(static_cast<unsigned char>(definition[p - 1])));
    if (startOk && (e >= definition.size() || !isdigit(static_cast<unsigned char>(definition[e])))) return true;
  }
  return false;
}
// expected stored data of a structure after a base change: top-level elements that are still valid
std::string pruned_canon(const RSModel& after, const StructuredData& before, const ccl::rslang::Typification& t) {
  if (!before.IsCollection()) return valid_for(after, before, t) ? canon(before) : "none";
  if (!t.IsCollection()) return "none";
  std::vector<std::string> el;
  for (const auto& e : before.B()) if (valid_for(after, e, t.B().Base())) el.push_back(canon(e));
  std::sort(el.begin(), el.end());
  std::string s = "{";
  for (size_t i = 0; i < el.size(); ++i) s += (i ? "," : "") + el[i];
  return s + "}";
}

// ------------------------------------------------------------------------------------------------
// the differential oracle
struct Finding { std::string cls, alias, observed, expected; };
struct OracleOut {
  std::vector<Finding> stale;
  bool diverged{ false }; std::string divergence;
  int compared{ 0 }, incalcButFreshValue{ 0 };
  std::string statusClass;
};

std::unique_ptr<RSModel> rebuild_from_scratch(const RSModel& m) {
  auto f = std::make_unique<RSModel>();
  for (const auto uid : m.List()) {
    auto rec = m.Core().AsRecord(uid);
    const auto got = f->InsertCopy(rec);
    if (got != uid || f->GetRS(got).alias != rec.alias) { fprintf(stderr, "HARNESS-ASSERT: rebuild changed identity of %s\n", rec.alias.c_str()); fflush(stderr); abort(); }
  }
  f->UpdateState();
  for (const auto uid : m.List()) {
    if (ccl::semantic::IsBaseSet(m.GetRS(uid).type)) {
      if (const auto* tx = m.Values().TextFor(uid); tx != nullptr) f->Values().SetBasicText(uid, *tx);
    }
  }
  return f;
}

OracleOut oracle(const RSModel& m) {
  OracleOut out;
  auto f = rebuild_from_scratch(m);
  // schema divergence (incremental vs from-scratch analysis) is property C07's subject: not judged here
  for (const auto uid : m.List()) {
    if (parse_str(m.GetParse(uid)) != parse_str(f->GetParse(uid))) {
      out.diverged = true;
      out.divergence = m.GetRS(uid).alias + ": incremental " + parse_str(m.GetParse(uid)) + " vs from scratch " + parse_str(f->GetParse(uid));
      return out;
    }
  }
  // structure data: must consist of valid elements; entered into the fresh model through the public setter
  for (const auto uid : m.List()) {
    if (m.GetRS(uid).type != CstType::structured) continue;
    const auto data = m.Values().SDataFor(uid);
    // "same structure data" includes "none": a well-typed structure without data cannot be produced through the public
    // setters (they install the default empty set), so it is mirrored directly in the fresh model's storage
    if (!data.has_value()) { f->dataFacet->storage->rsData.erase(uid); continue; }
    const auto* typ = m.GetParse(uid).Typification();
    if (typ == nullptr) {
      out.stale.push_back({ "structure-untyped", m.GetRS(uid).alias, canon(data), "none (structure has no typification)" });
      continue;
    }
    if (!valid_for(m, data.value(), *typ)) {
      out.stale.push_back({ "structure", m.GetRS(uid).alias, canon(data), "only elements valid for the current base interpretation: " + pruned_canon(m, data.value(), *typ) });
      continue;
    }
    if (canon(f->Values().SDataFor(uid)) != canon(data)) {
      if (!f->Values().SetStructureData(uid, data.value()))
        out.stale.push_back({ "structure-refused", m.GetRS(uid).alias, canon(data), "data accepted by SetStructureData on a fresh model" });
    }
  }
  f->Calculations().RecalculateAll();
  std::vector<EntityUID> incalc;   // calculated, reported INCALCULABLE, but calculable when everything is recalculated
  std::map<std::string, int> classes;
  for (const auto uid : m.List()) {
    const auto type = m.GetRS(uid).type;
    const auto st = m.Calculations()(uid);
    classes[status_name(st)]++;
    if (!ccl::semantic::IsCalculable(type)) continue;
    if (!m.Calculations().WasCalculated(uid)) continue;
    const auto fst = f->Calculations()(uid);
    if (!has_value_status(st)) {
      if (st == EvalStatus::INCALCULABLE && has_value_status(fst)) { out.incalcButFreshValue++; incalc.push_back(uid); }
      continue;
    }
    out.compared++;
    const bool isStmt = ccl::semantic::IsStatement(type);
    std::string obs = std::string(status_name(st)) + " ", exp = std::string(status_name(fst)) + " ";
    if (isStmt) {
      const auto a = m.Values().StatementFor(uid), b = f->Values().StatementFor(uid);
      obs += a.has_value() ? (a.value() ? "true" : "false") : "none"; exp += b.has_value() ? (b.value() ? "true" : "false") : "none";
    } else { obs += canon(m.Values().SDataFor(uid)); exp += canon(f->Values().SDataFor(uid)); }
    if (!has_value_status(fst)) out.stale.push_back({ "status", m.GetRS(uid).alias, obs, exp });
    else if (obs != exp) out.stale.push_back({ "value", m.GetRS(uid).alias, obs, exp });
  }
  // A calculation outcome INCALCULABLE is outdated as well if calculating exactly the constituents the model says were
  // calculated (dependencies first) succeeds: replay that on a second fresh model.
  if (!incalc.empty() && out.stale.empty()) {
    auto g = rebuild_from_scratch(m);
    for (const auto uid : m.List())
      if (m.GetRS(uid).type == CstType::structured) {
        if (const auto data = m.Values().SDataFor(uid); !data.has_value()) g->dataFacet->storage->rsData.erase(uid);
        else if (canon(g->Values().SDataFor(uid)) != canon(data)) g->Values().SetStructureData(uid, data.value());
      }
    for (const auto uid : g->RSLang().Graph().TopologicalOrder())
      if (m.Calculations().WasCalculated(uid)) g->Calculations().Calculate(uid);
    for (const auto uid : incalc) {
      const auto gst = g->Calculations()(uid);
      if (!has_value_status(gst)) continue;
      out.stale.push_back({ "incalculable", m.GetRS(uid).alias, "INCALCULABLE",
                            std::string(status_name(gst)) + " " + (ccl::semantic::IsStatement(m.GetRS(uid).type) ? std::string(g->Values().StatementFor(uid).value_or(false) ? "true" : "false") : canon(g->Values().SDataFor(uid))) +
                            " (calculating the same set of constituents on a fresh model)" });
    }
  }
  for (auto& [k, v] : classes) out.statusClass += k + "x" + std::to_string(v) + " ";
  return out;
}

// ------------------------------------------------------------------------------------------------
enum OpKind { ADD_ELEM = 1, SET_TEXT = 2, SET_STRUCT = 3, RESET_DATA = 4, SET_EXPR = 5, ERASE = 6, EMPLACE = 7, INSERT_COPY = 8, CALCULATE = 9, RECALC_ALL = 10, SET_ALIAS = 11 };
const char* kind_name(int k) {
  switch (k) {
  case ADD_ELEM: return "AddBasicElement"; case SET_TEXT: return "SetBasicText"; case SET_STRUCT: return "SetStructureData";
  case RESET_DATA: return "ResetDataFor"; case SET_EXPR: return "SetExpressionFor"; case ERASE: return "Erase"; case EMPLACE: return "Emplace";
  case INSERT_COPY: return "InsertCopy"; case CALCULATE: return "Calculate"; case RECALC_ALL: return "RecalculateAll"; case SET_ALIAS: return "SetAliasFor";
  }
  return "?";
}

ccl::semantic::ConceptRecord copy_record(int b) {
  ccl::semantic::ConceptRecord r;
  if (b == 0) { r.uid = 50; r.alias = "D1"; r.type = CstType::term; r.rs = expr(14); }       // D1 := S1∪S1
  else if (b == 1) { r.uid = 51; r.alias = "X2"; r.type = CstType::base; }
  else { r.uid = 52; r.alias = "X1"; r.type = CstType::base; }
  return r;
}

struct ModelSys {
  using Obj = RSModel;
  using Op = OpRec;
  enum Alpha { CORE = 0, FULL = 1, JSON = 2 };
  int alpha{ FULL };
  bool jsonMode{ false };
  bool requery_parent{ false };   // stale mode: state battery on the parent state of the same object before the last operation
  std::vector<int> seedList;   // seed codes: kind + 10 * uid policy
  bool dump{ getenv("VERIF_DUMP") != nullptr };
  std::map<std::string, int> verdictCache;   // history prefix -> 0 clean / 1 stale / 2 not judged (attribution only)

  int seeds() const { return static_cast<int>(seedList.size()); }

  // seed kinds: 0 M0 typical, fully calculated; 1 M1 same, nothing calculated; 2 M2 diamond listed against dependency order;
  //             3 J1 nested / empty structure data, non-ASCII texts (json)
  std::unique_ptr<Obj> fresh(int seedIdx) { return fresh_code(seedList.at(static_cast<size_t>(seedIdx))); }
  std::unique_ptr<Obj> fresh_code(int code) {
    uidpolicy::install(code / 10);
    const int kind = code % 10;
    auto m = std::make_unique<RSModel>();
    if (kind == 0 || kind == 1) {
      const auto x1 = m->Emplace(CstType::base);
      const auto s1 = m->Emplace(CstType::structured, expr(11));
      m->Emplace(CstType::term, expr(1));    // D1 := X1\S1
      m->Emplace(CstType::term, expr(2));    // D2 := D1∪D1
      m->Emplace(CstType::term, expr(3));    // D3 := ℬ(S1)
      m->Emplace(CstType::axiom, expr(7));   // A1 := D2=X1
      m->Values().SetBasicText(x1, text_of(2));
      m->Values().SetStructureData(s1, value_of(1));
      if (kind == 0) m->Calculations().RecalculateAll();
    } else if (kind == 5) {   // inactive seed slot (keeps seed indices stable between phases)
      m->title = "__inactive__";
    } else if (kind == 4) {   // M4: values calculated THROUGH callables: F1, P1, D1 := F1[X1], D2 := D1∪D1, A1 := P1[X1]
      const auto x1 = m->Emplace(CstType::base);
      m->Emplace(CstType::function, expr(20));
      m->Emplace(CstType::predicate, expr(22));
      m->Emplace(CstType::term, expr(24));
      m->Emplace(CstType::term, expr(2));
      m->Emplace(CstType::axiom, expr(25));
      m->Values().SetBasicText(x1, text_of(2));
      m->Calculations().RecalculateAll();
    } else if (kind == 6) {   // J2: an EMPTY set whose elements are tuples, standing before another component of an enclosing tuple
      const auto x1 = m->Emplace(CstType::base);
      const auto s1 = m->Emplace(CstType::structured, expr(26));   // S1 ::= ℬ(X1×X1), left empty
      const auto s2 = m->Emplace(CstType::structured, expr(27));   // S2 ::= ℬ(ℬ(X1×X1)×X1) = {({},2), ({(1,2)},1)}
      m->Emplace(CstType::term, expr(28));                         // D1 := (S1, X1)
      m->Emplace(CstType::term, expr(29));                         // D2 := S2
      m->Values().SetBasicText(x1, text_of(2));
      m->Values().SetStructureData(s1, value_of(0));
      if (!m->Values().SetStructureData(s2, value_of(14))) { fprintf(stderr, "HARNESS-ASSERT: seed J2 data refused\n"); fflush(stderr); abort(); }
      m->Calculations().RecalculateAll();
    } else if (kind == 2) {
      const auto x1 = m->Emplace(CstType::base);
      m->Emplace(CstType::term, expr(17));   // D1 := D2∪D3   (join, listed first)
      m->Emplace(CstType::term, expr(15));   // D2 := D4
      m->Emplace(CstType::term, expr(16));   // D3 := D4\D4
      m->Emplace(CstType::term, expr(0));    // D4 := X1      (root, listed last)
      m->Values().SetBasicText(x1, text_of(2));
      m->Calculations().RecalculateAll();
    } else {
      m->title = "\xD0\x9C\xD0\xBE\xD0\xB4\xD0\xB5\xD0\xBB\xD1\x8C \"1\""; m->alias = "M\xE2\x84\xAC"; m->comment = "line1\nline2\t\\";
      const auto x1 = m->Emplace(CstType::base);
      const auto s1 = m->Emplace(CstType::structured, expr(12));   // S1 ::= ℬℬ(X1)
      const auto s2 = m->Emplace(CstType::structured, expr(13));   // S2 ::= ℬ(X1×ℬ(X1))
      m->Emplace(CstType::term, expr(14));                         // D1 := S1∪S1
      m->Emplace(CstType::axiom, expr(18));                        // A1 := S1=S1
      m->Values().SetBasicText(x1, text_of(5));
      m->Values().SetStructureData(s1, value_of(7));
      m->Values().SetStructureData(s2, value_of(9));
      m->SetConventionFor(x1, "\xD0\xBA\xD0\xBE\xD0\xBD\xD0\xB2\xD0\xB5\xD0\xBD\xD1\x86\xD0\xB8\xD1\x8F");
      m->SetTermFor(x1, "\xD1\x82\xD0\xB5\xD1\x80\xD0\xBC");
      m->SetDefinitionFor(s1, "def \xE2\x88\x85");
      m->Calculations().RecalculateAll();
    }
    return m;
  }

  static std::vector<EntityUID> order(const Obj& m) { std::vector<EntityUID> v; for (const auto uid : m.List()) v.push_back(uid); return v; }

  std::vector<Op> enabled(const Obj& m) {
    std::vector<Op> ops;
    if (m.title == "__inactive__") return ops;
    const auto add = [&](int k, int a = 0, int b = 0, int c = 0) { Op o; o.k = k; o.a = a; o.b = b; o.c = c; ops.push_back(o); };
    const auto ord = order(m);
    const int n = static_cast<int>(ord.size());
    const bool full = alpha == FULL, core = alpha == CORE, js = alpha == JSON;
    int firstTerm = -1, firstBase = -1;
    for (int i = 0; i < n; ++i) { const auto t = m.GetRS(ord[static_cast<size_t>(i)]).type; if (t == CstType::term && firstTerm < 0) firstTerm = i; if (t == CstType::base && firstBase < 0) firstBase = i; }
    add(RECALC_ALL);
    for (int i = 0; i < n; ++i) if (ccl::semantic::IsCalculable(m.GetRS(ord[static_cast<size_t>(i)]).type)) add(CALCULATE, i);
    for (int i = 0; i < n; ++i) {
      const auto t = m.GetRS(ord[static_cast<size_t>(i)]).type;
      if (ccl::semantic::IsBaseSet(t)) {
        add(ADD_ELEM, i);
        for (int tau : (core ? std::vector<int>{ 3, 1, 0, 7 } : js ? std::vector<int>{ 3, 0, 4 } : std::vector<int>{ 0, 1, 2, 3, 4, 5, 6, 7 })) add(SET_TEXT, i, tau);
        add(RESET_DATA, i);
      } else if (t == CstType::structured) {
        for (int v : (core ? std::vector<int>{ 0, 2, 3 } : js ? std::vector<int>{ 0, 6, 7, 9, 10, 13 } : std::vector<int>{ 0, 1, 2, 3, 4, 7, 8, 11, 12 })) add(SET_STRUCT, i, v);
        add(RESET_DATA, i);
      }
    }
    for (int i = 0; i < n; ++i) {
      const auto t = m.GetRS(ord[static_cast<size_t>(i)]).type;
      std::vector<int> alts;
      if (t == CstType::term) alts = core ? std::vector<int>{ 0, 2, 4 } : js ? std::vector<int>{ 0, 5 } : std::vector<int>{ 0, 1, 2, 3, 4, 5, 6 };
      else if (t == CstType::axiom) alts = core ? std::vector<int>{ 8 } : js ? std::vector<int>{ 9 } : std::vector<int>{ 7, 8, 9, 10 };
      else if (t == CstType::structured) alts = core ? std::vector<int>{ 12 } : js ? std::vector<int>{ 11 } : std::vector<int>{ 11, 12, 0, 5 };
      else if (t == CstType::base) alts = full ? std::vector<int>{ 19 } : std::vector<int>{};
      else if (t == CstType::function) alts = js ? std::vector<int>{} : std::vector<int>{ 20, 21, 5 };
      else if (t == CstType::predicate) alts = js ? std::vector<int>{} : std::vector<int>{ 22, 23 };
      for (int a : alts) add(SET_EXPR, i, a);
    }
    for (int i = 0; i < n; ++i) add(ERASE, i);
    if (n < 9) {
      add(EMPLACE, static_cast<int>(CstType::base), -1);
      add(EMPLACE, static_cast<int>(CstType::term), 0);
      if (full) { add(EMPLACE, static_cast<int>(CstType::term), 1); add(EMPLACE, static_cast<int>(CstType::structured), 11); }
      if (full || js) { add(INSERT_COPY, 0, 0); add(INSERT_COPY, 0, 1); }
    }
    if (full) {
      for (int i = 0; i < n; ++i) add(SET_ALIAS, i);
      // documented refusals (must leave the state unchanged)
      if (firstTerm >= 0) { add(ADD_ELEM, firstTerm); add(SET_TEXT, firstTerm, 2); add(SET_STRUCT, firstTerm, 1); add(RESET_DATA, firstTerm); }
      if (firstBase >= 0) add(CALCULATE, firstBase);
      add(ERASE, n + 1);
    }
    return ops;
  }

  std::string describe(const Op& o) {
    const std::string i = "#" + std::to_string(o.a);
    switch (o.k) {
    case ADD_ELEM: return "AddBasicElement(" + i + ",\"c\")";
    case SET_TEXT: return "SetBasicText(" + i + "," + text_desc(o.b) + ")";
    case SET_STRUCT: return "SetStructureData(" + i + "," + canon(value_of(o.b)) + ")";
    case RESET_DATA: return "ResetDataFor(" + i + ")";
    case SET_EXPR: return "SetExpressionFor(" + i + ",\"" + expr(o.b) + "\")";
    case ERASE: return "Erase(" + i + ")";
    case EMPLACE: return std::string("Emplace(") + (o.a == static_cast<int>(CstType::base) ? "base" : o.a == static_cast<int>(CstType::term) ? "term" : o.a == static_cast<int>(CstType::structured) ? "structured" : "axiom") + ",\"" + expr(o.b) + "\")";
    case INSERT_COPY: { const auto r = copy_record(o.b); return "InsertCopy(" + r.alias + ":=\"" + r.rs + "\")"; }
    case CALCULATE: return "Calculate(" + i + ")";
    case RECALC_ALL: return "RecalculateAll()";
    case SET_ALIAS: return "SetAliasFor(" + i + ",<letter>7,substitute)";
    }
    return "?";
  }

  // A base-set change prunes every dependent structure; the unchanged library aborts there (assert / bad_optional_access in
  // rsValuesFacet::PruneStructure) when such a structure holds data but has lost its typification - a state that exists only as
  // a consequence of a C11 defect. By default the operation is then NOT executed (it is reported once per transition as
  // C11:base-change-aborts-on-untyped-structure) so that the exploration stays exhaustive; --execute-aborting-ops 1 runs it.
  bool executeAbortingOps{ false };
  std::string would_abort(const Obj& m, const Op& o, EntityUID target) const {
    if (executeAbortingOps || !(o.k == ADD_ELEM || o.k == SET_TEXT || o.k == RESET_DATA)) return {};
    if (!m.Contains(target) || !ccl::semantic::IsBaseSet(m.GetRS(target).type)) return {};
    for (const auto uid : m.List()) {
      const auto& rs = m.GetRS(uid);
      if (rs.type == CstType::structured && m.GetParse(uid).Typification() == nullptr && m.Values().SDataFor(uid).has_value() && mentions(rs.definition, m.GetRS(target).alias))
        return rs.alias;
    }
    return {};
  }

  // returns: 1 performed, 0 refused, -1 not executed (would abort, see above)
  int perform(Obj& m, const Op& o) {
    const auto ord = order(m);
    const EntityUID target = (o.a >= 0 && o.a < static_cast<int>(ord.size())) ? ord[static_cast<size_t>(o.a)] : EntityUID{ 4242 };
    if (!would_abort(m, o, target).empty()) return -1;
    switch (o.k) {
    case ADD_ELEM: return m.Values().AddBasicElement(target, "c").has_value() ? 1 : 0;
    case SET_TEXT: return m.Values().SetBasicText(target, text_of(o.b)) ? 1 : 0;
    case SET_STRUCT: return m.Values().SetStructureData(target, value_of(o.b)) ? 1 : 0;
    case RESET_DATA: m.Values().ResetDataFor(target); return m.Contains(target) && ccl::semantic::IsBaseNotion(m.GetRS(target).type) ? 1 : 0;
    case SET_EXPR: return m.SetExpressionFor(target, expr(o.b)) ? 1 : 0;
    case ERASE: return m.Erase(target) ? 1 : 0;
    case EMPLACE: m.Emplace(static_cast<CstType>(o.a), expr(o.b)); return 1;
    case INSERT_COPY: m.InsertCopy(copy_record(o.b)); return 1;
    case CALCULATE: { const bool calculable = m.Contains(target) && ccl::semantic::IsCalculable(m.GetRS(target).type); m.Calculations().Calculate(target); return calculable ? 1 : 0; }
    case RECALC_ALL: m.Calculations().RecalculateAll(); return 1;
    case SET_ALIAS: { if (!m.Contains(target)) return 0; const std::string nn = m.GetRS(target).alias.substr(0, 1) + "7"; return m.SetAliasFor(target, nn, true) ? 1 : 0; }
    }
    fprintf(stderr, "HARNESS-ASSERT: unknown op %d\n", o.k); abort();
  }

  void apply(Obj& m, const Op& o, Ctx* c, const std::string& hd) {
    if (c == nullptr) { perform(m, o); return; }
    const std::string before = model_key(m);
    // structure data before a base change (for the prune check)
    struct Pre { EntityUID uid; StructuredData data; };
    std::vector<Pre> pre;
    const auto ord = order(m);
    const bool baseChange = (o.k == ADD_ELEM || o.k == SET_TEXT || o.k == RESET_DATA) && o.a >= 0 && o.a < static_cast<int>(ord.size()) &&
                            ccl::semantic::IsBaseSet(m.GetRS(ord[static_cast<size_t>(o.a)]).type);
    if (baseChange && !jsonMode)
      for (const auto uid : ord) if (m.GetRS(uid).type == CstType::structured && m.GetParse(uid).Typification() != nullptr)
        if (const auto d = m.Values().SDataFor(uid); d.has_value() && valid_for(m, d.value(), *m.GetParse(uid).Typification()))
          pre.push_back({ uid, d.value() });   // data that was already invalid before the change is the state oracle's business
    const int done = perform(m, o);
    c->rep.outcome(std::string(kind_name(o.k)) + (done > 0 ? ":done" : done == 0 ? ":refused" : ":not-executed"));
    if (done < 0) {
      c->rep.count("ops_not_executed_would_abort");
      if (!jsonMode) c->fail("C11:base-change-aborts-on-untyped-structure", "a structure kept data although it lost its typification; this base-set change would abort in rsValuesFacet::PruneStructure (operation not executed, --execute-aborting-ops 1 to run it): " + hd);
      return;
    }
    if (done == 0) {
      c->rep.count("checks");
      if (model_key(m) != before) c->fail(std::string(jsonMode ? "C10" : "C11") + ":refused-op-changed-state:" + kind_name(o.k), "operation reported refusal but the model changed: " + hd);
    }
    for (const auto& p : pre) {
      if (done <= 0) break;   // a refused (no-op) change prunes nothing
      if (!m.Contains(p.uid)) continue;
      const auto* typ = m.GetParse(p.uid).Typification();
      if (typ == nullptr) continue;
      const std::string want = pruned_canon(m, p.data, *typ), got = canon(m.Values().SDataFor(p.uid));
      c->rep.count("checks"); c->rep.count("prune_checks");
      if (got != want) c->fail(std::string("C11:prune-after-") + kind_name(o.k), "structure " + m.GetRS(p.uid).alias + " after a base change must hold exactly the still-valid elements of " + canon(p.data), got, want);
    }
    if (dump) fprintf(stderr, "DUMP after %s\n%s\n", hd.c_str(), summary(m).c_str());
  }

  static std::string summary(const Obj& m) {
    std::string s;
    for (const auto uid : m.List()) {
      const auto& rs = m.GetRS(uid);
      s += "  [" + std::to_string(uid) + "] " + rs.alias + " t" + std::to_string(static_cast<int>(rs.type)) + " \"" + rs.definition + "\" parse=" + parse_str(m.GetParse(uid)) +
           " status=" + status_name(m.Calculations()(uid)) + " calc=" + (m.Calculations().WasCalculated(uid) ? "1" : "0") + " data=" + canon(m.Values().SDataFor(uid)) +
           " text=" + text_canon(m.Values().TextFor(uid));
      if (const auto b = m.Values().StatementFor(uid); b.has_value()) s += b.value() ? " stmt=true" : " stmt=false";
      s += "\n";
    }
    return s;
  }

  // ---- attribution: first operation of the history after which the oracle fails
  std::string culprit(const std::string& replayText) {
    std::istringstream is(replayText); int seed = 0; is >> seed; std::vector<Op> ops; int k, a, b, cc;
    while (is >> k >> a >> b >> cc) { Op op; op.k = k; op.a = a; op.b = b; op.c = cc; ops.push_back(op); }
    bool unjudgedBefore = false;   // an earlier state of the history was not judged (schema divergence, C07 subject)
    std::string prefix = std::to_string(seed);
    for (size_t j = 0; j <= ops.size(); ++j) {
      if (j > 0) prefix += " " + std::to_string(ops[j - 1].k) + " " + std::to_string(ops[j - 1].a) + " " + std::to_string(ops[j - 1].b) + " " + std::to_string(ops[j - 1].c);
      auto it = verdictCache.find(prefix);   // per-process memo: prefixes are shared by many states of a shard
      if (it == verdictCache.end()) {
        auto o = fresh(seed);
        for (size_t i = 0; i < j; ++i) perform(*o, ops[i]);
        const auto r = oracle(*o);
        it = verdictCache.emplace(prefix, r.diverged ? 2 : r.stale.empty() ? 0 : 1).first;
      }
      if (it->second == 2) { unjudgedBefore = true; continue; }
      if (it->second == 1) return std::string(j == 0 ? "seed" : kind_name(ops[j - 1].k)) + (unjudgedBefore ? "+after-unjudged-state" : "");
    }
    return "unattributed";
  }

  void check_state(Obj& m, Ctx& c, const std::string& hd) {
    if (jsonMode) { check_json(m, c, hd); return; }
    const auto r = oracle(m);
    c.rep.count("evaluations");
    if (r.diverged) { c.rep.count("schema_divergence_states_skipped"); c.rep.outcome("skipped: incremental analysis differs from analysis from scratch (C07 subject)"); if (c.rep.notes.empty()) c.rep.notes.push_back("schema divergence (not judged by C11): " + hd + " " + r.divergence); return; }
    c.rep.count("checks", static_cast<uint64_t>(r.compared));
    if (r.compared > 0) c.rep.count("nontrivial");
    if (r.incalcButFreshValue > 0) c.rep.count("info_incalculable_but_calculable_from_scratch", static_cast<uint64_t>(r.incalcButFreshValue));
    c.rep.outcome(r.statusClass);
    if (r.stale.empty()) return;
    const std::string who = culprit(c.bfs_replay);
    std::set<std::string> seen;
    for (const auto& f : r.stale) {
      const std::string cls = f.cls.rfind("structure", 0) == 0 ? "structure" : f.cls;
      if (!seen.insert(cls).second) continue;
      c.fail("C11:stale-after-" + who + ":" + cls,
             f.alias + (cls == "structure" ? " stores structure data that is not valid for the current model (" + f.cls + ")" :
                        cls == "incalculable" ? " is marked calculated with outcome INCALCULABLE although its dependencies now have values" : " reports a calculated value that differs from recalculation from scratch"),
             f.observed, f.expected);
    }
  }

  // ---- C10 (model part)
  static std::map<std::string, std::string> observable(const Obj& m) {
    std::map<std::string, std::string> o;
    o["title"] = m.title; o["alias"] = m.alias; o["comment"] = m.comment;
    std::string ord;
    int i = 0;
    for (const auto uid : m.List()) {
      ord += std::to_string(uid) + ",";
      const std::string p = "cst" + std::to_string(i++) + ".";
      const auto& rs = m.GetRS(uid); const auto& tx = m.GetText(uid);
      o[p + "alias"] = rs.alias; o[p + "type"] = std::to_string(static_cast<int>(rs.type)); o[p + "definition"] = rs.definition; o[p + "convention"] = rs.convention;
      o[p + "term"] = tx.term.Text().Raw(); o[p + "textdef"] = tx.definition.Raw(); o[p + "termforms"] = std::to_string(tx.term.GetAllManual().size());
      o[p + "parse"] = parse_str(m.GetParse(uid));
      o[p + "data"] = canon(m.Values().SDataFor(uid));
      o[p + "texts"] = text_canon(m.Values().TextFor(uid));
      const auto b = m.Values().StatementFor(uid); o[p + "statement"] = b.has_value() ? (b.value() ? "true" : "false") : "none";
      o[p + "wasCalculated"] = m.Calculations().WasCalculated(uid) ? "1" : "0";
      o[p + "status"] = status_name(m.Calculations()(uid));
    }
    o["order"] = ord;
    return o;
  }

  void check_json(Obj& m, Ctx& c, const std::string& hd) {
    using OJ = nlohmann::ordered_json;
    c.rep.count("evaluations");
    // to_json aborts (assert in SDCompact::FromSData) on a stored value that does not have the shape of the constituent's
    // typification - a state that exists only as a consequence of C11 (stale value after a definition edit): report, do not crash
    for (const auto uid : m.List()) {
      if (!ccl::semantic::IsRSObject(m.GetRS(uid).type)) continue;
      const auto* typ = m.GetParse(uid).Typification();
      const auto data = m.Values().SDataFor(uid);
      if (typ != nullptr && data.has_value() && !shape_ok(data.value(), *typ)) {
        c.rep.outcome("not-serialised: stored value does not fit the typification");
        c.fail("C10:model-value-does-not-fit-typification", m.GetRS(uid).alias + " stores a value whose shape contradicts its typification (stale value, see C11); to_json would abort in SDCompact::FromSData - not executed", canon(data), typ->ToString());
        return;
      }
    }
    const OJ j1(m);
    RSModel loaded;
    j1.get_to(loaded);
    const OJ j2(loaded);
    const auto v1 = nlohmann::json::parse(j1.dump()), v2 = nlohmann::json::parse(j2.dump());
    c.rep.count("checks");
    bool hasData = false, hasGap = false;
    for (const auto uid : m.List()) {
      if (m.Calculations().WasCalculated(uid)) hasData = true;
      if (const auto* t = m.Values().TextFor(uid); t != nullptr) { int32_t expect = 1; for (const auto& [k, v] : *t) { if (k != expect) hasGap = true; ++expect; } }
    }
    if (hasData) c.rep.count("nontrivial");
    c.rep.outcome(std::string(hasData ? "calculated-values" : "no-calculated-values") + (hasGap ? "+noncontiguous-base-keys" : ""));
    if (v1 != v2) {
      // signature = kind of the first difference (RFC 6902 op + path with array indices abstracted)
      std::string where, pattern;
      const auto diff = nlohmann::json::diff(v1, v2);
      if (!diff.empty()) {
        where = diff[0].dump();
        const std::string path = diff[0].value("path", std::string{});
        for (size_t i = 0; i < path.size(); ++i) { if (isdigit(static_cast<unsigned char>(path[i]))) { if (pattern.empty() || pattern.back() != '*') pattern += '*'; } else pattern += path[i]; }
        pattern = diff[0].value("op", std::string{}) + pattern;
      }
      c.fail("C10:model-json-not-stable:" + pattern, "document written after reload differs from the first document; first difference: " + where, v2.dump().substr(0, 400), v1.dump().substr(0, 400));
    }
    const auto a = observable(m), b = observable(loaded);
    std::set<std::string> reported;
    for (const auto& [k, v] : a) {
      c.rep.count("checks");
      const auto it = b.find(k);
      const std::string got = it == b.end() ? "<missing>" : it->second;
      if (got != v) {
        const auto dot = k.find('.');
        const std::string field = dot == std::string::npos ? k : k.substr(dot + 1);
        const bool absentBefore = v == "none" || v == "null", absentAfter = got == "none" || got == "null" || got == "<missing>";
        const std::string how = field == "status" ? got + "-instead-of-" + v : absentBefore ? "appeared" : absentAfter ? "lost" : "changed";
        if (reported.insert(field).second) c.fail("C10:model-reload-field:" + field + ":" + how, "observable content differs after save/load: " + k, got, v);
      }
    }
    if (b.size() != a.size() && reported.empty()) c.fail("C10:model-reload-field:count", "loaded model has a different number of constituents");
    (void)hd;
  }

  std::string key(const Obj& m) { return model_key(m); }
};

std::string seed_names(const std::vector<int>& codes) {
  std::string s;
  for (int cde : codes) {
    const char* n = cde % 10 == 0 ? "M0" : cde % 10 == 1 ? "M1" : cde % 10 == 2 ? "M2" : cde % 10 == 4 ? "M4-callables" : cde % 10 == 5 ? "(inactive)" : cde % 10 == 6 ? "J2-empty-tuple-set-inside-tuple" : "J1";
    s += std::string(s.empty() ? "" : ", ") + n + (cde / 10 == 0 ? "/uid-ascending" : "/uid-descending");
  }
  return s;
}

}  // namespace

int main(int argc, char** argv) {
  Options opt = parse_args(argc, argv);
  const double t0 = now_s();
  Result res; res.harness = "h_model"; res.mode = opt.mode; res.tier = opt.tier;
  ModelSys sys; sys.requery_parent = opt.mode == "stale" && opt.num("requery", 1) != 0;
  sys.executeAbortingOps = opt.num("execute-aborting-ops", 0) != 0;
  // phase A: wide alphabet, all seeds, depth dA; phase B: core alphabet, deeper, fewer seeds (same op encoding, same seed table)
  // seed table (indices are stable across tiers): M0 M1 M2 with ascending uids, then the same with descending uids
  std::vector<int> table;
  int depthA = 0, depthB = 0, seedsA = 0, seedsB = 0;
  if (opt.mode == "stale") {
    res.property = "C11";
    table = { 0, 1, 2, 10, 11, 12, 4, 14 };
    depthA = static_cast<int>(opt.num("depth", opt.thorough() ? 3 : 2));
    seedsA = static_cast<int>(opt.num("seeds", 4));
    depthB = static_cast<int>(opt.num("depth-core", opt.thorough() ? 4 : 3));
    seedsB = static_cast<int>(opt.num("seeds-core", 3));
  } else if (opt.mode == "json") {
    res.property = "C10";
    sys.jsonMode = true;
    table = { 3, 0, 6, 13, 2 };
    depthA = static_cast<int>(opt.num("depth", opt.thorough() ? 3 : 2));
    seedsA = static_cast<int>(opt.num("seeds", opt.thorough() ? 5 : 3));
  } else { fprintf(stderr, "unknown mode\n"); return 2; }
  sys.seedList = table;

  if (opt.kv.count("bfs-replay")) {
    Ctx c; c.label = opt.mode + "/replay";
    sys.alpha = ModelSys::FULL;
    Bfs<ModelSys>::replay_history(sys, opt.kv.at("bfs-replay"), c);
    res.rep = c.rep; res.states = res.evaluations = res.rep.counters["evaluations"]; res.transitions = res.traces_validated = res.states;
    res.completed_bound = "replay of one recorded history";
  } else {
    std::string bound, levels;
    auto run_phase = [&](int alpha, int depth, int nseeds, const std::string& label, double share) {
      if (depth < 0 || nseeds <= 0) return;
      sys.alpha = alpha;
      sys.seedList.assign(table.begin(), table.begin() + std::min<size_t>(table.size(), static_cast<size_t>(nseeds)));
      Options o2 = opt; o2.deadline_s = std::max(5.0, (opt.deadline_s - (now_s() - t0)) * share);
      Report rep;
      BfsStats st = Bfs<ModelSys>::run(sys, o2, depth, rep, label);
      res.rep.merge(rep);
      res.states += st.states; res.transitions += st.transitions;
      res.exhaustive = res.exhaustive && st.exhaustive;
      bound += (bound.empty() ? "" : " + ") + label + ": all histories of <= " + std::to_string(st.completed_depth) + " operations (requested " + std::to_string(depth) + ") from seeds {" + seed_names(sys.seedList) + "}";
      levels += (levels.empty() ? "" : ",") + jstr(label) + ":[";
      for (size_t i = 0; i < st.level_sizes.size(); ++i) levels += (i ? "," : "") + std::to_string(st.level_sizes[i]);
      levels += "]";
      sys.seedList = table;
    };
    if (opt.mode == "stale") {
      run_phase(ModelSys::FULL, depthA, seedsA, "stale/full", depthB >= 0 && seedsB > 0 ? 0.5 : 1.0);
      run_phase(ModelSys::CORE, depthB, seedsB, "stale/core", 0.7);
      // values calculated through term-functions and predicates: seed M4 (indices 6, 7 of the table; slots 0-5 inactive in this phase)
      { const auto saved = table; table = { 5, 5, 5, 5, 5, 5, 4, 14 }; run_phase(ModelSys::FULL, static_cast<int>(opt.num("depth-callable", opt.thorough() ? 3 : 2)), 8, "stale/callables", 1.0); table = saved; }
    } else {
      run_phase(ModelSys::JSON, depthA, seedsA, "json", 1.0);
    }
    res.traces_validated = res.transitions;
    res.evaluations = res.rep.counters["evaluations"];
    res.distinct_nontrivial = res.rep.counters["nontrivial"];
    res.completed_bound = bound;
    res.extra["x_level_sizes"] = "{" + levels + "}";
    res.extra["x_transitions_changing_state"] = std::to_string(res.rep.counters["transitions_changing_state"]);
  }
  if (opt.mode == "stale") {
    res.alphabet = "constituents addressed by list position. full: AddBasicElement(base,\"c\"); SetBasicText(base, t) t in {empty, {1}, {1,2} (same), {1,3} (same size, other keys), {1,2,3}, {1,2} renamed, {2,3}, {1:a,3:b} (same names, other keys)}; "
                   "SetStructureData(struct, v) v in {{} {1} {2} {1,2} {1,3} {{},{1}} {{1,2}} 1 3}; ResetDataFor(base|struct); SetExpressionFor(term, {X1, X1\\S1, D1uD1, B(S1), X1\\X2 (dangling), syntax error, D2uX1}) "
                   "(axiom, {D2=X1, D1=D1, 1=2, syntax error}) (struct, {B(X1), BB(X1), X1, syntax error}) (base, {1}); Erase(every position); Emplace(base | term X1 | term X1\\S1 | struct B(X1)); "
                   "InsertCopy(record D1:=S1uS1 | record X2); Calculate(every calculable); RecalculateAll; SetAliasFor(pos, <letter>7, substitute); documented refusals (wrong kind / missing uid). "
                   "core (deeper phase): AddBasicElement; SetBasicText {1,3} {1} empty {1:a,3:b}; SetStructureData {} {2} {1,2}; ResetDataFor; SetExpressionFor term {X1, D1uD1, X1\\X2} axiom {D1=D1} struct {BB(X1)}; Erase; Emplace(base | term X1); Calculate; RecalculateAll. "
                   "seeds: M0 = X1{1,2} S1::=B(X1){1} D1:=X1\\S1 D2:=D1uD1 D3:=B(S1) A1:=D2=X1 fully calculated; M1 = same, nothing calculated; M2 = X1, D1:=D2uD3, D2:=D4, D3:=D4\\D4, D4:=X1 (listed against dependency order) calculated; each with uid policy ascending / descending";
    res.rule = "state = exact canonical dump (core incl. parse results, registries, three graphs; stored data, text interpretations, statements, calculatedEntities) of a history replayed on a fresh RSModel; "
               "evaluations = states on which the differential oracle ran (fresh model rebuilt from content + RecalculateAll); checks = calculated constituents compared + prune / refusal transition checks; "
               "non-trivial = states with at least one constituent reporting a calculated value; a violating state is attributed to the first operation of its history after which the oracle fails";
    res.assumptions = { "base sets have at most 3 elements, keys 1..3; structure data from a 9-value menu; definitions from a 20-expression menu",
                        "cyclic / self-referential definitions are explored, but states where incremental analysis disagrees with analysis from scratch (property C07) are counted and not judged",
                        "a calculated constituent reporting INCALCULABLE is judged only against a fresh model on which exactly the same set of constituents is calculated (signature class incalculable); INCALCULABLE merely because a dependency was never calculated is legitimate and only counted (info_*)",
                        "a well-typed structure that holds no data at all (reachable when an insertion repairs a dangling mention) is mirrored as 'no data' in the fresh model; that a reload turns it into the empty set is reported by C10 (mode json)",
                        "the calculator's internal parser state is not part of the key (history independence of analysers is property C18)",
                        "clang 14 + libstdc++ 12, ASan+UBSan build, uid hook H1" };
  } else {
    res.alphabet = "as C11 (json menu): AddBasicElement; SetBasicText {1,3} empty {1,2,3}; SetStructureData {} {{}} {{},{1}} {(1,{})} {(1,{1})} {{1},{2}}; ResetDataFor; SetExpressionFor term {X1, syntax error} axiom {1=2} struct {B(X1)}; "
                   "Erase; Emplace(base | term X1); InsertCopy(D1:=S1uS1 | X2); Calculate; RecalculateAll. seeds: J1 = X1 (non-ASCII names, term, convention), S1::=BB(X1){{},{1}}, S2::=B(X1xB(X1)){(1,{})}, D1:=S1uS1, A1:=S1=S1, title/alias/comment non-ASCII + escapes, calculated; M0; J2 = X1{1,2}, S1::=B(X1xX1) empty, S2::=B(B(X1xX1)xX1){({},2),({(1,2)},1)}, D1:=(S1,X1), D2:=S2, calculated; J1 with descending uids; M2";
    res.rule = "every reached state: j1=json(model), loaded=from_json(j1) into a fresh RSModel, j2=json(loaded); j2==j1 compared as JSON values (object key order irrelevant, array order significant); "
               "plus field-by-field equality of title/alias/comment, list order and per constituent alias, type, definition, convention, term, text definition, parse status+type, stored data, text interpretation (keys and names), statement value, calculated flag, evaluation status; "
               "non-trivial = states with at least one calculated constituent";
    res.assumptions = { "manual word forms are not set (RSForm part of C10 covers them)", "clang 14 + libstdc++ 12, ASan+UBSan build, uid hook H1" };
  }
  res.wall_s = now_s() - t0;
  res.write(opt.out.empty() ? "/dev/stdout" : opt.out);
  return 0;
}
