// C06 (mode parse) and C05 (mode roundtrip): bounded-exhaustive enumeration of RSLang abstract syntax trees,
// rendered by an independent renderer, pushed through the real lexer / parser / generator.
#include "engine/mc.hpp"
#include "model/rsast.hpp"

#include "ccl/rslang/Parser.h"
#include "ccl/rslang/RSGenerator.h"
#include "ccl/rslang/SyntaxTree.h"
#include <functional>

using namespace mc;
using namespace rsast;
namespace rl = ccl::rslang;
using rl::TokenID;

namespace {

TokenID tokenOf(K k) {
  switch (k) {
    case K::Local: return TokenID::ID_LOCAL; case K::Global: return TokenID::ID_GLOBAL; case K::Function: return TokenID::ID_FUNCTION;
    case K::Predicate: return TokenID::ID_PREDICATE; case K::Radical: return TokenID::ID_RADICAL; case K::Int: return TokenID::LIT_INTEGER;
    case K::IntSet: return TokenID::LIT_INTSET; case K::EmptySet: return TokenID::LIT_EMPTYSET;
    case K::Plus: return TokenID::PLUS; case K::Minus: return TokenID::MINUS; case K::Mult: return TokenID::MULTIPLY;
    case K::Gr: return TokenID::GREATER; case K::Ls: return TokenID::LESSER; case K::Ge: return TokenID::GREATER_OR_EQ; case K::Le: return TokenID::LESSER_OR_EQ;
    case K::Eq: return TokenID::EQUAL; case K::Ne: return TokenID::NOTEQUAL;
    case K::Forall: return TokenID::FORALL; case K::Exists: return TokenID::EXISTS; case K::Not: return TokenID::NOT;
    case K::Equiv: return TokenID::EQUIVALENT; case K::Impl: return TokenID::IMPLICATION; case K::Or: return TokenID::OR; case K::And: return TokenID::AND;
    case K::In: return TokenID::IN; case K::NotIn: return TokenID::NOTIN; case K::Subset: return TokenID::SUBSET; case K::SubsetEq: return TokenID::SUBSET_OR_EQ; case K::NotSubset: return TokenID::NOTSUBSET;
    case K::Decart: return TokenID::DECART; case K::Union: return TokenID::UNION; case K::Intersect: return TokenID::INTERSECTION; case K::SetMinus: return TokenID::SET_MINUS; case K::SymMinus: return TokenID::SYMMINUS;
    case K::Boolean: return TokenID::BOOLEAN; case K::BigPr: return TokenID::BIGPR; case K::SmallPr: return TokenID::SMALLPR; case K::Filter: return TokenID::FILTER;
    case K::Card: return TokenID::CARD; case K::Bool: return TokenID::BOOL; case K::Debool: return TokenID::DEBOOL; case K::Reduce: return TokenID::REDUCE;
    case K::Iterate: return TokenID::ITERATE; case K::Assign: return TokenID::ASSIGN;
    case K::EnumDecl: return TokenID::NT_ENUM_DECL; case K::Tuple: return TokenID::NT_TUPLE; case K::Enumeration: return TokenID::NT_ENUMERATION;
    case K::TupleDecl: return TokenID::NT_TUPLE_DECL; case K::ArgDecl: return TokenID::NT_ARG_DECL; case K::FuncDef: return TokenID::NT_FUNC_DEFINITION;
    case K::Arguments: return TokenID::NT_ARGUMENTS; case K::FuncCall: return TokenID::NT_FUNC_CALL; case K::Declarative: return TokenID::NT_DECLARATIVE_EXPR;
    case K::Imperative: return TokenID::NT_IMPERATIVE_EXPR; case K::RecFull: return TokenID::NT_RECURSIVE_FULL; case K::RecShort: return TokenID::NT_RECURSIVE_SHORT;
    case K::Define: return TokenID::PUNC_DEFINE; case K::Struct: return TokenID::PUNC_STRUCT;
  }
  return TokenID::INTERRUPT;
}

// structural comparison: implementation tree (via Cursor) vs model tree. Returns "" or a description of the first difference.
std::string compareTree(rl::SyntaxTree::Cursor cur, const Node& n, const std::vector<std::pair<int, int>>* spans, size_t& pre, std::string* posDiff) {
  const size_t me = pre++;
  if (cur->id != tokenOf(n.k)) return "token id differs at node '" + nodeLabel(n) + "' (impl prints '" + cur->ToString() + "')";
  switch (n.k) {
    case K::Local: case K::Global: case K::Function: case K::Predicate: case K::Radical:
      if (!cur->data.IsText() || cur->data.ToText() != n.text) return "identifier text differs at '" + n.text + "'";
      break;
    case K::Int: if (!cur->data.IsInt() || cur->data.ToInt() != n.ival) return "integer value differs"; break;
    case K::BigPr: case K::SmallPr: case K::Filter: {
      if (!cur->data.IsTuple()) return "index data missing";
      const auto& t = cur->data.ToTuple(); bool same = t.size() == n.idx.size();
      for (size_t i = 0; same && i < t.size(); ++i) same = t[i] == n.idx[i];
      if (!same) return "indices differ at " + nodeLabel(n);
      break;
    }
    default: break;
  }
  if (static_cast<size_t>(cur.ChildrenCount()) != n.ch.size()) return "child count differs at '" + nodeLabel(n) + "': impl " + std::to_string(cur.ChildrenCount()) + " model " + std::to_string(n.ch.size());
  if (spans != nullptr && posDiff != nullptr && posDiff->empty()) {
    const auto& sp = (*spans)[me];
    if (cur->pos.start != sp.first || cur->pos.finish != sp.second)
      *posDiff = "node '" + nodeLabel(n) + "' impl [" + std::to_string(cur->pos.start) + "," + std::to_string(cur->pos.finish) + ") expected [" + std::to_string(sp.first) + "," + std::to_string(sp.second) + ")";
  }
  for (size_t i = 0; i < n.ch.size(); ++i) {
    auto d = compareTree(cur.Child(static_cast<rl::Index>(i)), n.ch[i], spans, pre, posDiff);
    if (!d.empty()) return d;
  }
  return {};
}

// ranges nest and siblings are ordered; FindMinimalNode finds a node with exactly the span of every node
void checkRanges(Ctx& c, const rl::SyntaxTree& ast, const std::string& text, const std::string& tag) {
  std::vector<rl::SyntaxTree::Cursor> stack{ ast.Root() };
  const auto rootPos = ast.Root()->pos;
  while (!stack.empty()) {
    auto cur = stack.back(); stack.pop_back();
    const auto pos = cur->pos;
    c.rep.count("checks");
    if (pos.start > pos.finish) c.fail("C06:range-inverted", tag + " inverted range in " + text);
    ccl::StrPos prevFinish = pos.start;
    for (rl::Index i = 0; i < cur.ChildrenCount(); ++i) {
      auto ch = cur.Child(i);
      if (ch->pos.start < pos.start || ch->pos.finish > pos.finish) c.fail("C06:range-not-nested", tag + " child range outside parent in: " + text);
      if (ch->pos.start < prevFinish) c.fail("C06:range-siblings-unordered", tag + " sibling ranges overlap / unordered in: " + text);
      prevFinish = ch->pos.finish;
      stack.push_back(ch);
    }
    if (!pos.empty()) {
      const auto found = rl::FindMinimalNode(ast.Root(), pos);
      if (!found.has_value()) c.fail("C06:findminimal-none", tag + " FindMinimalNode found nothing for a node's own range in: " + text);
      else if (!(found.value()->pos == pos)) c.fail("C06:findminimal-wrong", tag + " FindMinimalNode returned a node with a different range in: " + text,
                                                    "[" + std::to_string(found.value()->pos.start) + "," + std::to_string(found.value()->pos.finish) + ")", "[" + std::to_string(pos.start) + "," + std::to_string(pos.finish) + ")");
    }
  }
  if (rl::FindMinimalNode(ast.Root(), ccl::StrRange{ rootPos.finish + 1, rootPos.finish + 2 }).has_value()) c.fail("C06:findminimal-outside", tag + " FindMinimalNode answered for a range outside the root");
  // every cursor range [s,f) inside the root: the answer contains the range and none of its children does (= an innermost node).
  // An empty range [p,p) is the cursor in front of character p: contained in [a,b) iff a <= p < b (StrRange::Contains, C20).
  auto contains = [](const ccl::StrRange& n, ccl::StrPos s, ccl::StrPos f) { return s == f ? (n.start <= s && s < n.finish) : (n.start <= s && n.finish >= f); };
  for (ccl::StrPos s = rootPos.start; s <= rootPos.finish; ++s) for (ccl::StrPos f = s; f <= rootPos.finish; ++f) {
    const ccl::StrRange rng{ s, f };
    const auto found = rl::FindMinimalNode(ast.Root(), rng);
    c.rep.count("checks");
    const std::string rs = "[" + std::to_string(s) + "," + std::to_string(f) + ")";
    if (!contains(rootPos, s, f)) { if (found.has_value()) c.fail("C06:findminimal-outside", tag + " FindMinimalNode answered for cursor range " + rs + " not inside the root in: " + text); continue; }
    if (!found.has_value()) { c.fail("C06:findminimal-none", tag + " FindMinimalNode found nothing for cursor range " + rs + " inside the root in: " + text); continue; }
    auto cur = found.value();
    bool inner = contains(cur->pos, s, f);
    for (rl::Index i = 0; inner && i < cur.ChildrenCount(); ++i) if (contains(cur.Child(i)->pos, s, f)) inner = false;
    if (!inner) c.fail("C06:findminimal-not-innermost", tag + " FindMinimalNode " + rs + " returned [" + std::to_string(cur->pos.start) + "," + std::to_string(cur->pos.finish) + ") which is not an innermost containing node in: " + text);
  }
}

std::string optTag(const RenderOpt& o) {
  return std::string(o.syn == Syn::MATH ? "MATH" : "ASCII") + "/" + (o.paren == Paren::MIN ? "min" : o.paren == Paren::MAX ? "max" : (o.paren == Paren::ONE ? "one" : "two") + std::to_string(o.oneIndex)) + "/ws" + std::to_string(o.ws);
}

std::vector<Node> space(const Options& opt) {
  Enumerator e;
  const int depth = static_cast<int>(opt.num("depth", 2));
  std::vector<Node> trees = e.tops(depth);
  if (opt.num("greek", 1) != 0) {  // Greek / multi-letter local names (multi-byte symbols before nodes; transliteration)
    Enumerator g; g.pools.locals = { "\xCE\xB1", "\xCE\xB1\xCE\xB2" };  // α, αβ
    auto more = g.tops(depth > 1 ? 1 : depth);
    Enumerator h; h.pools.locals = { "\xCF\x83\xCF\x82", "ab" };        // σς, ab
    auto more2 = h.tops(depth > 1 ? 1 : depth);
    trees.insert(trees.end(), more.begin(), more.end());
    trees.insert(trees.end(), more2.begin(), more2.end());
  }
  // tuple-pattern family (added after a round-7 seed): every pattern with <= 3 components per level whose components are locals or
  // nested patterns (two levels completely; a third level with one deep component), in every declaring position
  if (opt.num("patterns", 1) != 0) {
    using rsast::mk; using rsast::leaf;
    int counter = 0;
    const char* names[] = { "a", "b", "c", "d", "e", "f", "g", "h", "i", "j", "k", "l" };
    std::function<Node(const Node&)> rename = [&](const Node& n) { if (n.k == K::Local) return leaf(K::Local, names[counter++ % 12]); Node r = n; r.ch.clear(); for (auto& ch : n.ch) r.ch.push_back(rename(ch)); return r; };
    const Node v = leaf(K::Local, "a");
    std::vector<Node> L1 = { mk(K::TupleDecl, { v, v }), mk(K::TupleDecl, { v, v, v }) };
    std::vector<Node> opts = { v }; opts.insert(opts.end(), L1.begin(), L1.end());
    std::vector<Node> L2;
    for (auto& x : opts) for (auto& y : opts) { L2.push_back(mk(K::TupleDecl, { x, y })); for (auto& z : opts) L2.push_back(mk(K::TupleDecl, { x, y, z })); }
    std::vector<Node> pats = L2;
    for (auto& deep : L2) { if (deep.ch.size() == 2 && deep.ch[0].ch.empty() && deep.ch[1].ch.empty()) continue; for (auto& x : opts) { pats.push_back(mk(K::TupleDecl, { deep, x })); pats.push_back(mk(K::TupleDecl, { x, deep })); } }
    const Node dom = leaf(K::Global, e.pools.global); const Node body = mk(K::Eq, { rsast::integer(1), rsast::integer(1) });
    for (auto& p0 : pats) {
      counter = 0; const Node pat = rename(p0);
      trees.push_back(mk(K::Forall, { pat, dom, body }));
      trees.push_back(mk(K::Exists, { pat, dom, body }));
      trees.push_back(mk(K::Declarative, { pat, dom, body }));
      trees.push_back(mk(K::Imperative, { dom, mk(K::Iterate, { pat, dom }) }));
      trees.push_back(mk(K::Imperative, { dom, mk(K::Assign, { pat, dom }) }));
      trees.push_back(mk(K::RecShort, { pat, dom, dom }));
      trees.push_back(mk(K::Forall, { mk(K::EnumDecl, { pat, leaf(K::Local, "z") }), dom, body }));
    }
  }
  return trees;
}

// ------------------------------------------------------------------------------------------------------------
// C06
void run_parse(Ctx& c, const std::vector<Node>& trees) {
  for (size_t ti = 0; ti < trees.size(); ++ti) {
    const Node& T = trees[ti];
    if (!c.take()) continue;
    const std::string d = dump(T);
    c.begin(d);
    rl::Parser parser;
    int renderings = 0; bool anyParen = false;
    for (Syn syn : { Syn::MATH, Syn::ASCII }) {
      const Node expect = syn == Syn::ASCII ? translitTree(T) : T;
      const std::string expectDump = dump(expect);
      RenderOpt base; base.syn = syn;
      const int sites = render(T, base).optionalPairs;
      std::vector<RenderOpt> opts;
      for (int ws = 0; ws < 3; ++ws) { RenderOpt o = base; o.ws = ws; o.paren = Paren::MIN; opts.push_back(o); }
      if (sites > 0) {
        anyParen = true;
        { RenderOpt o = base; o.paren = Paren::MAX; opts.push_back(o); o.ws = 1; opts.push_back(o); }
        for (int i = 0; i < sites && i < 12; ++i) { RenderOpt o = base; o.paren = Paren::ONE; o.oneIndex = i; opts.push_back(o); }
      }
      { const int tsites = render(T, base).termSites; if (tsites > 0) anyParen = true;   // doubled redundant parentheses around each parenthesisable term
        for (int i = 0; i < tsites && i < 8; ++i) { RenderOpt o = base; o.paren = Paren::TWO; o.oneIndex = i; opts.push_back(o); } }
      for (auto& o : opts) {
        const Rendered r = render(T, o);
        const std::string tag = optTag(o);
        ++renderings; c.rep.count("checks");
        const bool ok = parser.Parse(r.text, syn == Syn::MATH ? rl::Syntax::MATH : rl::Syntax::ASCII);
        if (!ok) { c.fail("C06:valid-text-rejected:" + std::string(syn == Syn::MATH ? "MATH" : "ASCII") + (o.paren == Paren::MIN ? ":min" : ":optparen"), tag + " rendering of a grammatical tree does not parse: " + r.text, "parse error", expectDump); continue; }
        size_t pre = 0; std::string posDiff;
        const std::string diff = compareTree(parser.AST().Root(), expect, &r.span, pre, &posDiff);
        if (!diff.empty()) { c.fail("C06:wrong-tree:" + std::string(o.paren == Paren::MIN ? "min" : "optparen"), tag + " text: " + r.text + " :: " + diff, rl::AST2String::Apply(parser.AST()), expectDump); continue; }
        if (rl::AST2String::Apply(parser.AST()) != expectDump) c.fail("C06:ast2string", tag + " AST2String differs from the tree dump for: " + r.text, rl::AST2String::Apply(parser.AST()), expectDump);
        // doubled parentheses: which of the two pairs belongs to the node's range is not documented (the parser keeps the inner
        // pair) - only the tree, nesting of ranges and FindMinimalNode are asserted for these renderings
        if (!posDiff.empty() && o.paren != Paren::TWO) c.fail(std::string("C06:position:") + (syn == Syn::MATH ? "MATH" : "ASCII") + (o.ws == 2 ? ":multiline" : ""), tag + " text: " + r.text + " :: " + posDiff);
        checkRanges(c, parser.AST(), r.text, tag);
      }
    }
    c.rep.count("evaluations"); c.rep.count("renderings", static_cast<uint64_t>(renderings));
    if (anyParen) c.rep.count("nontrivial");
    c.rep.outcome(nodeLabel(T) + "/" + std::to_string(T.ch.size()));
    if (ti % 4099 == 17) c.rep.sample(render(T, RenderOpt{}).text + "   =>   " + d);
    c.done();
  }
}

// ------------------------------------------------------------------------------------------------------------
// C05
bool localsDistinctUnderTranslit(const Node& n, std::map<std::string, std::string>& seen) {
  if (n.k == K::Local) { const auto t = translit(n.text); auto it = seen.find(t); if (it != seen.end() && it->second != n.text) return false; seen[t] = n.text; }
  for (auto& ch : n.ch) if (!localsDistinctUnderTranslit(ch, seen)) return false;
  return true;
}


const char* classOf(K k) {
  switch (k) {
    case K::Plus: case K::Minus: case K::Mult: return "arith";
    case K::Union: case K::Intersect: case K::SetMinus: case K::SymMinus: return "setop";
    case K::Decart: return "decart";
    case K::Equiv: case K::Impl: case K::Or: case K::And: return "logicbin";
    case K::Gr: case K::Ge: case K::Le: case K::Eq: case K::Ne: case K::In: case K::NotIn: case K::Subset: case K::SubsetEq: case K::NotSubset: return "predicate";
    case K::Ls: return "lesser";
    case K::Forall: case K::Exists: return "quantifier";
    case K::RecFull: case K::RecShort: return "recursion";
    case K::Local: case K::Global: case K::Function: case K::Predicate: case K::Radical: case K::Int: case K::IntSet: case K::EmptySet: return "leaf";
    default: return "other";
  }
}
bool standalone(const Node& n) {  // can this subtree be an expression of its own?
  switch (n.k) { case K::Iterate: case K::Assign: case K::EnumDecl: case K::TupleDecl: case K::ArgDecl: case K::Arguments: return false; default: return true; }
}
// does FromTree(parse(render(T)), syn) re-parse to T ?  0 = yes, 1 = rejected, 2 = different tree, -1 = source itself unusable
int roundtripVerdict(const Node& T, Syn syn) {
  rl::Parser p0, p1;
  if (!p0.Parse(render(T, RenderOpt{}).text, rl::Syntax::MATH)) return -1;
  const auto sx = syn == Syn::MATH ? rl::Syntax::MATH : rl::Syntax::ASCII;
  const std::string s = rl::Generator::FromTree(p0.AST(), sx);
  if (!p1.Parse(s, sx)) return 1;
  size_t pre = 0;
  return compareTree(p1.AST().Root(), syn == Syn::ASCII ? translitTree(T) : T, nullptr, pre, nullptr).empty() ? 0 : 2;
}
// signature component: shape (classes) of the smallest sub-expression that already fails the same way
std::string minimalShape(const Node& T, Syn syn, int verdict) {
  const Node* cur = &T;
  for (bool moved = true; moved;) {
    moved = false;
    for (auto& ch : cur->ch) {
      if (ch.k == K::Local && (cur->k == K::Forall || cur->k == K::Exists || cur->k == K::Declarative || cur->k == K::RecFull || cur->k == K::RecShort)) continue;
      if (standalone(ch) && !ch.ch.empty() && roundtripVerdict(ch, syn) == verdict) { cur = &ch; moved = true; break; }
    }
  }
  std::string sh = classOf(cur->k); sh += "(";
  for (size_t i = 0; i < cur->ch.size() && i < 4; ++i) { if (i) sh += ","; sh += classOf(cur->ch[i].k); }
  return sh + ")";
}

void run_roundtrip(Ctx& c, const std::vector<Node>& trees) {
  for (size_t ti = 0; ti < trees.size(); ++ti) {
    const Node& T = trees[ti];
    if (!c.take()) continue;
    const std::string d = dump(T);
    c.begin(d);
    rl::Parser p0, p1;
    const std::string x = render(T, RenderOpt{}).text;
    c.rep.count("evaluations");
    if (!p0.Parse(x, rl::Syntax::MATH)) { c.rep.outcome("source-does-not-parse(C06)"); c.done(); continue; }   // C06's business
    { size_t pre = 0; if (!compareTree(p0.AST().Root(), T, nullptr, pre, nullptr).empty()) { c.rep.outcome("source-parses-differently(C06)"); c.done(); continue; } }
    bool changedByPrint = false;
    for (Syn syn : { Syn::MATH, Syn::ASCII }) {
      const auto sx = syn == Syn::MATH ? rl::Syntax::MATH : rl::Syntax::ASCII;
      const std::string sname = syn == Syn::MATH ? "MATH" : "ASCII";
      const std::string s = rl::Generator::FromTree(p0.AST(), sx);
      const Node expect = syn == Syn::ASCII ? translitTree(T) : T;
      c.rep.count("checks");
      if (s != x) changedByPrint = true;
      if (!p1.Parse(s, sx)) { c.fail("C05:generated-text-rejected:" + sname + ":" + minimalShape(T, syn, 1), "FromTree(" + sname + ") output does not re-parse: " + s + "   (source: " + x + ")", "parse error", dump(expect)); continue; }
      size_t pre = 0;
      const std::string diff = compareTree(p1.AST().Root(), expect, nullptr, pre, nullptr);
      if (!diff.empty()) { c.fail("C05:tree-changed:" + sname + ":" + minimalShape(T, syn, 2), "FromTree(" + sname + ") output re-parses to a different tree: " + s + "   (source: " + x + ") :: " + diff, rl::AST2String::Apply(p1.AST()), dump(expect)); continue; }
      if (syn == Syn::MATH && !(p1.AST() == p0.AST())) c.fail("C05:operator==", "SyntaxTree::operator== reports a difference although structure matches: " + s);
      // printing is a fixed point: text generated from the re-parsed tree is identical
      if (rl::Generator::FromTree(p1.AST(), sx) != s) c.fail("C05:print-not-fixed-point:" + sname, "FromTree differs after re-parse: " + s);
    }
    // conversion consequences (only when local names stay distinct under transliteration)
    std::map<std::string, std::string> seen;
    if (localsDistinctUnderTranslit(T, seen)) {
      const std::string a1 = rl::ConvertTo(x, rl::Syntax::ASCII);
      const std::string m1 = rl::ConvertTo(a1, rl::Syntax::MATH);
      const std::string a2 = rl::ConvertTo(m1, rl::Syntax::ASCII);
      const std::string m2 = rl::ConvertTo(a2, rl::Syntax::MATH);
      c.rep.count("checks", 3);
      if (a1 == x) c.rep.outcome("convert-left-text-unchanged");
      if (a2 != a1 || m2 != m1) c.fail("C05:convert-not-idempotent", "MATH->ASCII->MATH->ASCII is not stable for " + x, a2 + " / " + m2, a1 + " / " + m1);
      if (!p1.Parse(m1, rl::Syntax::MATH)) c.fail("C05:convert-back-rejected", "ConvertTo(ConvertTo(x,ASCII),MATH) does not parse: " + m1 + " (x: " + x + ", ascii: " + a1 + ")");
      else { size_t pre = 0; const auto diff = compareTree(p1.AST().Root(), translitTree(T), nullptr, pre, nullptr);
             if (!diff.empty()) c.fail("C05:convert-back-changed", "there-and-back conversion changed the tree: " + x + " -> " + a1 + " -> " + m1 + " :: " + diff, rl::AST2String::Apply(p1.AST()), dump(translitTree(T))); }
    }
    if (changedByPrint) c.rep.count("nontrivial");  // the generator did not simply echo the source text
    c.rep.outcome(nodeLabel(T) + "/" + std::to_string(T.ch.size()));
    if (ti % 4099 == 23) c.rep.sample(x + "   =>   " + rl::Generator::FromTree(p0.AST(), rl::Syntax::ASCII));
    c.done();
  }
}

}  // namespace

int main(int argc, char** argv) {
  Options opt = parse_args(argc, argv);
  const double t0 = now_s();
  Result res; res.harness = "h_expr"; res.mode = opt.mode; res.tier = opt.tier;
  RunInfo ri;
  const auto trees = space(opt);
  const std::string bound = "all abstract syntax trees of nesting depth <= " + std::to_string(opt.num("depth", 2)) + " (every constructor as parent of every constructor in every child position) + Greek-named variants";
  if (opt.mode == "parse") {
    res.property = "C06";
    res.rep = run_sharded(opt, "parse", [&](Ctx& c) { run_parse(c, trees); }, &ri);
    res.rule = "case = one abstract tree, rendered under MATH and ASCII x {min, max, each single optional parenthesis pair, each parenthesisable term doubly parenthesised} x 3 whitespace policies; oracle: parsed tree structurally equals the rendered tree, every node range equals the renderer's span, ranges nest, FindMinimalNode exact; non-trivial = tree has >= 1 optional parenthesis site";
    res.transitions = res.rep.counters["renderings"];
  } else if (opt.mode == "roundtrip") {
    res.property = "C05";
    res.rep = run_sharded(opt, "roundtrip", [&](Ctx& c) { run_roundtrip(c, trees); }, &ri);
    res.rule = "case = one abstract tree; parse(render) -> FromTree(MATH|ASCII) -> Parse(same syntax) must equal the tree (ASCII: locals transliterated); print is a fixed point; MATH->ASCII->MATH preserves the tree and is stable; non-trivial = generated text differs from the source text";
    res.transitions = res.rep.counters["checks"];
  } else { fprintf(stderr, "unknown mode\n"); return 2; }
  res.completed_bound = bound;
  res.alphabet = "all TokenID node constructors of RSParserImpl.y; locals a,b / α,αβ / σς,ab; globals X1 F1 P1 R1; literals 1 Z ∅; indices 1 | 1,2 | 2 | 2,1";
  res.evaluations = res.rep.counters["evaluations"]; res.states = trees.size(); res.traces_validated = res.evaluations;
  res.distinct_nontrivial = res.rep.counters["nontrivial"];
  res.exhaustive = !ri.deadline_hit && !ri.crash_cap_hit;
  res.assumptions = { "renderer precedence table transcribed from the %left/%right declarations of RSParserImpl.y (DESIGN appendix C)", "token spellings transcribed from the two .l files" };
  res.wall_s = now_s() - t0;
  res.write(opt.out.empty() ? "/dev/stdout" : opt.out);
  return 0;
}
