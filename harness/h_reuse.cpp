// C18 — reused analysers are history-independent (DESIGN §5 C18).
//
// One case = one HISTORY of inputs (all sequences of length 1..L over a fixed alphabet, enumerated with E1).
// The history is replayed on ONE long-lived bundle of analysers; after EACH call every observable of the reused
// object is compared with a FRESH object that is given only that input (same context).
// Reference ("fresh") observations: Parser / Auditor / Interpreter components - a brand-new object per input, computed in
// every worker process BEFORE any history is replayed (twice, asserted identical), so that process-global state touched
// by earlier histories cannot leak into the reference; generators - the call made first in a virgin process;
// schema - an RSForm built from scratch with the reused form's current content, at every call.
//
// modes (each compares several components; comparisons are counted per component):
//   parser      Parser::Parse (verdict, syntax, errors, tree with positions)  +  Parser::Lex token stream
//   auditor     Auditor::CheckType/CheckValue  +  standalone TypeAuditor/ValueAuditor (normal and typification mode)
//   interp      Interpreter::Evaluate (value, Iterations(), normalised tree, errors)
//   generators  process-wide statics: Generator::FromTree (both syntaxes), AST2String::Apply, ConvertTo (both
//               directions), Generator::StructureFor, operator""_t.  "Fresh" = the same call made as the FIRST
//               call of a virgin process (table built by forking one child per (input, call) before the run).
//   schema      one long-lived RSForm (owns a SchemaAuditor for its lifetime): SetExpressionFor on scratch
//               constituents + RSLang().Evaluate, versus a freshly built RSForm with identical content.
//   probe       (diagnostic, not registered) prints the fresh observation of every input in every mode.
#include "engine/mc.hpp"
#include "model/uid_policy.hpp"

#include "ccl/rslang/Parser.h"
#include "ccl/rslang/Auditor.h"
#include "ccl/rslang/Interpreter.h"
#include "ccl/rslang/RSGenerator.h"
#include "ccl/rslang/Literals.h"
#include "ccl/semantic/RSForm.h"

using namespace mc;
namespace rs = ccl::rslang;
using ccl::object::Factory;
using ccl::object::StructuredData;
using rs::Syntax;

namespace {

// ---------------------------------------------------------------------------------------------
// alphabet
struct Input {
  const char* name;
  std::string text;
  Syntax hint;
  const char* kind;  // coarse class, used for the non-trivial rule and outcome classes
  char cst;          // schema mode: scratch constituent that receives the text (D term, F function, P predicate, A axiom)
};

std::string repeat(const std::string& s, size_t n) { std::string o; o.reserve(s.size() * n); for (size_t i = 0; i < n; ++i) o += s; return o; }

// One input per piece of per-run state found in the code (see DESIGN C18); the comment names the state it targets.
std::vector<Input> make_alphabet() {
  const auto U = Syntax::UNDEF; const auto M = Syntax::MATH; const auto A = Syntax::ASCII;
  const std::string longId = "a" + repeat("bcdefghij", 600);  // 5401 characters
  std::vector<Input> v = {
    // --- valid expressions (currentType / curValue / parsedTree / syntax)
    { "set-union", "X1∪X1", U, "valid-set", 'D' },
    { "set-declarative", "D{ξ∈X1 | ξ∈X1}", U, "valid-set", 'D' },                          // iterationCounter = 3
    { "logic-forall", "∀α∈X1 α∈X1", U, "valid-logic", 'A' },
    { "logic-ascii", R"(1 \eq 1)", U, "valid-logic", 'A' },
    { "logic-tuple-decl", "∀(α,β)∈S1 α=β", U, "valid-logic", 'A' },                        // tuple declaration, normaliser
    { "star-undef", "X1*X1", U, "valid-set", 'D' },                                         // same text, estimated ASCII vs forced MATH -> Parser::syntax
    { "star-math", "X1*X1", M, "type-error", 'D' },
    // --- function definitions (functionArgs / functionArgsID / isFuncDeclaration)
    { "func-1arg", "[α∈ℬ(X1)] α∪X1", U, "funcdef", 'F' },
    { "func-2args", "[α∈ℬ(X1), β∈ℬ(X1)] α∪β", U, "funcdef", 'F' },
    { "func-radical", "[α∈ℬ(R1)] α∪α", U, "funcdef", 'F' },
    { "func-unused-arg", "[α∈X1] 1=1", U, "warning", 'P' },                                 // localNotUsed for a parameter
    { "func-body-fails", "[α∈ℬ(X1), β∈X1] α∪β", U, "type-error", 'F' },                     // fails AFTER functionArgs were filled
    { "func-arglist-fails-shadow", "[α∈X1, α∈X1] {α}", U, "type-error", 'F' },               // fails INSIDE the argument list after one argument was accepted
    { "func-arglist-fails-domain", "[α∈X1, β∈α] β", U, "type-error", 'F' },                  // second domain is not a set: fails after the first argument
    // --- global declarations (FinalizeCst*, NameCollector rejections)
    { "decl-term", "D2:==X1∪X1", U, "globaldecl", 'D' },
    { "decl-empty", "X3:==", U, "globaldecl", 'D' },
    { "decl-struct", "S2::=ℬ(X1×X1)", U, "globaldecl", 'D' },
    // --- function calls (inlining in the interpreter, nested ValueAuditor)
    { "call-f1", "F1[X1]", U, "valid-set", 'D' },
    { "call-f1-props", "F1[ℬ(X1)]", U, "valid-set", 'D' },
    { "call-arity", "F1[X1, X1]", U, "type-error", 'D' },
    { "call-p1-props-fails", "P1[ℬ(X1)]", U, "value-error", 'A' },                            // property-class argument, body has no interpretation: the nested value audit FAILS
    { "local-alpha-as-value", "∀α∈X1 card({α})=1", U, "valid-logic", 'A' },                  // uses the callee's parameter name where a value is required
    // --- failures inside nested scopes (localVars levels / enabled)
    { "nested-undeclared", "∀α∈X1 ∀β∈X1 (α=β & γ=α)", U, "type-error", 'A' },
    { "out-of-scope", "∀τ∈X1 τ=τ & τ=X1", U, "type-error", 'A' },
    // --- warnings (useCount / noWarnings)
    { "warn-unused", "D{τ∈X1 | ∀α∈X1 1=1}", U, "warning", 'D' },
    { "warn-redeclared", "D{τ∈X1 | ∀α∈X1 α=τ & ∀α∈X1 α=τ}", U, "warning", 'D' },
    // --- recursion / imperative (noWarnings guard, ClearLocalVariables, idsData)
    { "recursion-deduce", "R{ξ:=∅ | ξ∪X1}", U, "valid-set", 'D' },
    { "imperative", "I{(α,β) | α:∈X1; β:∈X1; α≠β}", U, "valid-set", 'D' },
    // --- value class failure (type correct, value incorrect)
    { "props-usage", "card(ℬ(X1))", U, "value-error", 'D' },
    // --- multi-line text (MathLexer::lineBase) and the same text in ASCII
    { "multiline-ok", "X1∪\nX1∪\nX1", U, "multiline", 'D' },
    { "multiline-parse-error", "X1∪\n(X1∪X1", U, "multiline", 'D' },                         // missingParenthesis reported on line 2
    { "multiline-lex-error", "X1∪\n\nX1∪?", U, "multiline", 'D' },
    { "multiline-ascii", "X1 \\union\n(X1 \\union X1", A, "multiline", 'D' },                 // the multi-line text in ASCII (byte positions, no lineBase)
    // --- lexer errors / INTERRUPT token (countCriticalErrors, lastRead)
    { "lex-error-math", "X1∪?∪X1", U, "lex-error", 'D' },
    { "lex-error-ascii", "X1 $ X1", U, "lex-error", 'D' },
    { "interrupt-at-end", "X1∪X1 \"", U, "lex-error", 'D' },                                // a tree is built, Parse still fails
    // --- one parse error per ParseEID
    { "perr-syntax", "1=1=1", U, "parse-error", 'A' },
    { "perr-parenthesis", "(X1∪X1", U, "parse-error", 'D' },
    { "perr-curly", "D{α∈X1 | 1=1 α", U, "parse-error", 'D' },
    { "perr-quantifier", "∀α∉X1 1=1", U, "parse-error", 'A' },
    { "perr-imperative", "α:=X1", U, "parse-error", 'D' },
    { "perr-declaration", "[α] X1\\α", U, "parse-error", 'F' },
    { "perr-local-tuple", "∀(α,X1)∈S1 1=1", U, "parse-error", 'A' },
    // --- failing evaluations, one per ValueEID (iterationCounter, countCriticalErrors, idsData)
    { "eval-missing-value", "D1∪X1", U, "eval-error", 'D' },                              // globalMissingValue
    { "eval-debool", "debool(X1)", U, "eval-error", 'D' },                                  // invalidDebool
    { "eval-infinity", "∀α∈Z α=α", U, "eval-error", 'A' },                                  // iterateInfinity
    { "eval-bool-limit", "ℬ(X2)", U, "eval-error", 'D' },                                   // booleanLimit (|X2| = 50)
    { "eval-overflow", "ℬ(X1×X1)×ℬ(X1×X1)×ℬ(X1×X1)×ℬ(X1×X1)", U, "eval-error", 'D' },        // typedOverflow
    { "eval-iterations", "∀α∈X2 ∀β∈X2 ∀γ∈X2 γ=γ", U, "eval-error", 'A' },                   // iterationsLimit
    // --- typification-mode inputs (operator""_t statics, isTypification)
    { "typif-ascii", "B(X1*B(X2))", U, "typification", 'D' },
    { "typif-radical", "B(R1*X1)", U, "typification", 'D' },                                // radicalUsage unless typification mode
    // --- degenerate inputs
    { "empty", "", U, "empty", 'D' },
    { "long-identifier", "∀" + longId + "∈X1 " + longId + "=" + longId, U, "long", 'A' },
  };
  return v;
}

// ---------------------------------------------------------------------------------------------
// observation helpers
using Obs = std::vector<std::pair<std::string, std::string>>;

std::string hex32(uint32_t v) { char b[16]; snprintf(b, sizeof b, "%04X", v); return b; }

std::string dumpErrors(const rs::ErrorLogger& log) {
  std::string s;
  for (const auto& e : log.All()) {
    s += hex32(e.eid) + "@" + std::to_string(e.position) + "[";
    for (size_t i = 0; i < e.params.size(); ++i) { if (i) s += "|"; s += e.params[i]; }
    s += "] ";
  }
  return s.empty() ? "none" : s;
}

std::string typeStr(const rs::ExpressionType& t) {
  return std::holds_alternative<rs::LogicT>(t) ? std::string("LOGIC") : std::get<rs::Typification>(t).ToString();
}
std::string argsStr(const rs::FunctionArguments& args) {
  std::string s = "(";
  for (const auto& a : args) s += a.name + ":" + a.type.ToString() + ";";
  return s + ")";
}
std::string vcStr(rs::ValueClass v) { return v == rs::ValueClass::value ? "value" : v == rs::ValueClass::props ? "props" : "invalid"; }
std::string syntaxStr(Syntax s) { return s == Syntax::MATH ? "MATH" : s == Syntax::ASCII ? "ASCII" : "UNDEF"; }

std::string dataStr(const rs::TokenData& d) {
  if (!d.HasValue()) return "";
  if (d.IsInt()) return "#" + std::to_string(d.ToInt());
  if (d.IsText()) return "'" + d.ToText() + "'";
  if (d.IsTuple()) { std::string s = "<"; for (auto i : d.ToTuple()) s += std::to_string(i) + ","; return s + ">"; }
  return "?";
}
void dumpNode(const rs::SyntaxTree::Node& n, std::string& out) {  // exact dump: token id, range, payload, children
  out += "[" + std::to_string(static_cast<int>(n.token.id)) + "@" + std::to_string(n.token.pos.start) + "-" + std::to_string(n.token.pos.finish) + dataStr(n.token.data);
  for (const auto& ch : n.children) dumpNode(*ch, out);
  out += "]";
}
std::string dumpTree(const rs::SyntaxTree& t) { std::string s; dumpNode(*t.root, s); return s; }

std::string valueStr(const rs::ExpressionValue& v) {
  return std::holds_alternative<bool>(v) ? (std::get<bool>(v) ? std::string("TRUE") : std::string("FALSE")) : std::get<StructuredData>(v).ToString();
}

// ---------------------------------------------------------------------------------------------
// own context Γ: X1, X2 base sets; S1:ℬ(X1×X1); D1:ℬ(X1) (no data); F1[a∈ℬ(R1)]→ℬ(R1) and predicate P1 with stored ASTs
class Env final : public rs::TypeContext {
public:
  struct El {
    std::optional<rs::ExpressionType> type; std::optional<rs::TypeTraits> traits; rs::ValueClass vc{ rs::ValueClass::invalid };
    std::optional<rs::FunctionArguments> args; std::optional<rs::SyntaxTree> ast; std::optional<StructuredData> data;
  };
  std::unordered_map<std::string, El> els;

  Env() {
    const rs::Typification x1{ "X1" }, x2{ "X2" }, r1{ "R1" };
    auto base = [&](const std::string& n, const rs::Typification& t) { els[n].type = t.Bool(); els[n].traits = rs::TraitsNominal; els[n].vc = rs::ValueClass::value; };
    base("X1", x1); base("X2", x2);
    els["S1"].type = rs::Typification::Tuple({ x1, x1 }).Bool(); els["S1"].vc = rs::ValueClass::value;
    els["D1"].type = x1.Bool(); els["D1"].vc = rs::ValueClass::value;
    els["F1"].type = r1.Bool(); els["F1"].vc = rs::ValueClass::value; els["F1"].args = rs::FunctionArguments{ rs::TypedID{ "α", r1.Bool() } };
    els["P1"].type = rs::LogicT{}; els["P1"].vc = rs::ValueClass::value; els["P1"].args = rs::FunctionArguments{ rs::TypedID{ "α", r1.Bool() } };
    store("F1", "F1:==[α∈ℬ(R1)] D{ξ∈α | ξ∈α}");
    store("P1", "P1:==[α∈ℬ(R1)] α=α");
    els["X1"].data = Factory::SetV({ 1, 2, 3 });
    { std::vector<ccl::object::DataID> big; for (int i = 1; i <= 50; ++i) big.push_back(i); els["X2"].data = Factory::SetV(big); }
    els["S1"].data = Factory::Set({ Factory::TupleV({ 1, 2 }), Factory::TupleV({ 2, 3 }), Factory::TupleV({ 3, 3 }) });
  }
  void store(const std::string& name, const std::string& text) {
    rs::Parser p{};
    if (!p.Parse(text, Syntax::MATH)) { fprintf(stderr, "HARNESS-ASSERT: context definition does not parse: %s\n", text.c_str()); exit(2); }
    els[name].ast = p.AST();
  }

  [[nodiscard]] const rs::ExpressionType* TypeFor(const std::string& n) const override {
    auto it = els.find(n); return it == els.end() || !it->second.type ? nullptr : &*it->second.type;
  }
  [[nodiscard]] const rs::FunctionArguments* FunctionArgsFor(const std::string& n) const override {
    auto it = els.find(n); return it == els.end() || !it->second.args ? nullptr : &*it->second.args;
  }
  [[nodiscard]] std::optional<rs::TypeTraits> TraitsFor(const rs::Typification& t) const override {
    if (!t.IsElement()) return std::nullopt;
    if (t == rs::Typification::Integer()) return rs::TraitsIntegral;
    auto it = els.find(t.E().baseID); return it == els.end() ? std::nullopt : it->second.traits;
  }
  [[nodiscard]] rs::DataContext Data() const {
    return [this](const std::string& n) -> std::optional<StructuredData> { auto it = els.find(n); return it == els.end() ? std::nullopt : it->second.data; };
  }
  [[nodiscard]] rs::SyntaxTreeContext AST() const {
    return [this](const std::string& n) -> const rs::SyntaxTree* { auto it = els.find(n); return it == els.end() || !it->second.ast ? nullptr : &*it->second.ast; };
  }
  [[nodiscard]] rs::ValueClassContext VC() const {
    return [this](const std::string& n) -> rs::ValueClass { auto it = els.find(n); return it == els.end() ? rs::ValueClass::invalid : it->second.vc; };
  }
};

// echo context used by the reference for operator""_t (any global name is its own base set)
class EchoEnv final : public rs::TypeContext {
  mutable std::unordered_map<std::string, rs::ExpressionType> types;
public:
  [[nodiscard]] const rs::ExpressionType* TypeFor(const std::string& n) const override {
    auto it = types.find(n); if (it == types.end()) it = types.emplace(n, rs::Typification(n).ApplyBool()).first; return &it->second;
  }
  [[nodiscard]] const rs::FunctionArguments* FunctionArgsFor(const std::string&) const override { return nullptr; }
  [[nodiscard]] std::optional<rs::TypeTraits> TraitsFor(const rs::Typification&) const override { return {}; }
};

const Env& env() { static const Env e; return e; }  // immutable, shared by reused and fresh objects (it IS the context)

// ---------------------------------------------------------------------------------------------
// components
struct Component {
  virtual ~Component() = default;
  virtual const char* name() const = 0;
  virtual void step(int idx, const Input& in, Obs& out) = 0;
  // a FRESH object with the same context as *this has right now (called before the step is applied to *this)
  virtual std::unique_ptr<Component> fresh_like() const = 0;
  // true: the fresh object's answer depends on the input only -> it is computed once per process, before any history runs
  virtual bool context_free() const { return true; }
};

// --- parser mode
struct ParseComp final : Component {
  rs::Parser p{};
  const char* name() const override { return "parse"; }
  std::unique_ptr<Component> fresh_like() const override { return std::make_unique<ParseComp>(); }
  void step(int, const Input& in, Obs& out) override {
    const bool ok = p.Parse(in.text, in.hint);
    out.emplace_back("verdict", ok ? "ok" : "fail");
    out.emplace_back("syntax", syntaxStr(p.syntax));
    out.emplace_back("errors", dumpErrors(p.Errors()));
    out.emplace_back("tree", ok ? dumpTree(p.AST()) : "-");
  }
};
struct LexComp final : Component {
  rs::Parser p{};
  const char* name() const override { return "lex"; }
  std::unique_ptr<Component> fresh_like() const override { return std::make_unique<LexComp>(); }
  void step(int, const Input& in, Obs& out) override {
    p.log.Clear();  // Lex() does not clear the log by contract; the caller does
    auto stream = p.Lex(in.text, in.hint);
    std::string toks; int n = 0;
    for (; n < 20000; ++n) {
      const auto t = stream();
      toks += std::to_string(static_cast<int>(t.id)) + "@" + std::to_string(t.pos.start) + "-" + std::to_string(t.pos.finish) + dataStr(t.data) + " ";
      if (t.id == rs::TokenID::END || t.id == rs::TokenID::INTERRUPT) break;  // the parser stops reading at either
    }
    out.emplace_back("syntax", syntaxStr(p.syntax));
    out.emplace_back("tokens", toks);
    out.emplace_back("errors", dumpErrors(p.log));
  }
};

// --- auditor mode
struct AuditorComp final : Component {
  rs::Auditor a{ env(), env().VC(), env().AST() };
  const char* name() const override { return "auditor"; }
  std::unique_ptr<Component> fresh_like() const override { return std::make_unique<AuditorComp>(); }
  void step(int, const Input& in, Obs& out) override {
    const bool typeOk = a.CheckType(in.text, in.hint);
    out.emplace_back("verdict", std::string(a.isParsed ? "parsed" : "unparsed") + (typeOk ? "+typed" : ""));
    out.emplace_back("errors", dumpErrors(a.Errors()));
    out.emplace_back("type", typeOk ? typeStr(a.GetType()) : "-");
    out.emplace_back("args", typeOk ? argsStr(a.GetDeclarationArgs()) : "-");
    const bool valueOk = a.CheckValue();
    out.emplace_back("value-verdict", valueOk ? "ok" : "fail");
    out.emplace_back("value-class", vcStr(a.GetValueClass()));
    out.emplace_back("errors-after-value", dumpErrors(a.Errors()));
    out.emplace_back("tree", a.isParsed ? dumpTree(a.parser.AST()) : "-");
  }
};
// standalone TypeAuditor + ValueAuditor fed with trees from a fresh parser: isolates the analysers' own state
struct TypeAudComp final : Component {
  const bool typif;
  rs::ErrorLogger log{};
  rs::TypeAuditor ta{ env(), log.SendReporter() };
  rs::ValueAuditor va{ env().VC(), env().AST(), log.SendReporter() };
  explicit TypeAudComp(bool typif) : typif{ typif } { if (typif) ta.SetExepectTypification(); }
  const char* name() const override { return typif ? "typeaud-typification" : "typeaud"; }
  std::unique_ptr<Component> fresh_like() const override { return std::make_unique<TypeAudComp>(typif); }
  void step(int, const Input& in, Obs& out) override {
    rs::Parser fp{};
    if (!fp.Parse(in.text, in.hint)) { out.emplace_back("verdict", "unparsed"); return; }
    log.Clear();
    const bool ok = ta.CheckType(fp.AST());
    out.emplace_back("verdict", ok ? "typed" : "type-fail");
    out.emplace_back("errors", dumpErrors(log));
    out.emplace_back("type", ok ? typeStr(ta.GetType()) : "-");
    out.emplace_back("args", ok ? argsStr(ta.GetDeclarationArgs()) : "-");
    if (ok) {
      log.Clear();
      const bool vok = va.Check(fp.AST());
      out.emplace_back("value-verdict", vok ? "ok" : "fail");
      out.emplace_back("value-class", vok ? vcStr(va.VType()) : "-");
      out.emplace_back("value-errors", dumpErrors(log));
    }
  }
};

// --- interp mode
struct InterpComp final : Component {
  rs::Interpreter it{ env(), env().AST(), env().Data() };
  const char* name() const override { return "interp"; }
  std::unique_ptr<Component> fresh_like() const override { return std::make_unique<InterpComp>(); }
  void step(int, const Input& in, Obs& out) override {
    const auto v = it.Evaluate(in.text, in.hint);
    out.emplace_back("verdict", v.has_value() ? "value" : "fail");
    out.emplace_back("errors", dumpErrors(it.Errors()));
    out.emplace_back("value", v.has_value() ? valueStr(*v) : "-");
    out.emplace_back("iterations", v.has_value() ? std::to_string(it.Iterations()) : "-");
    out.emplace_back("normal-tree", v.has_value() ? dumpTree(it.NormalizedParseTree()) : "-");
  }
};

// --- generators mode: the process-wide static generators
constexpr int kGenCalls = 7;
const char* const kGenCallName[kGenCalls] = { "fromtree-math", "fromtree-ascii", "ast2string", "convert-to-math", "convert-to-ascii", "structure-for", "literal-t" };

// one call of one static generator for one input ("-" = call not applicable to this input)
std::string gen_call(int call, const Input& in) {
  switch (call) {
  case 0: case 1: case 2: {
    rs::Parser fp{};
    if (!fp.Parse(in.text, in.hint)) return "-";
    if (call == 0) return rs::Generator::FromTree(fp.AST(), Syntax::MATH);
    if (call == 1) return rs::Generator::FromTree(fp.AST(), Syntax::ASCII);
    return rs::AST2String::Apply(fp.AST());
  }
  case 3: return rs::ConvertTo(in.text, Syntax::MATH);
  case 4: return rs::ConvertTo(in.text, Syntax::ASCII);
  case 5: {
    rs::Auditor fa{ env(), env().VC(), env().AST() };
    if (!fa.CheckType(in.text, in.hint) || !std::holds_alternative<rs::Typification>(fa.GetType())) return "-";
    std::string s;
    for (const auto& [text, type] : rs::Generator::StructureFor("S9", std::get<rs::Typification>(fa.GetType()))) s += text + ":" + type.ToString() + "; ";
    return s.empty() ? "(none)" : s;
  }
  default: {
    // operator""_t asserts on anything that is not a typification: establish its precondition with fresh objects first
    rs::detail::AsciiLexer lex{}; rs::detail::RSParser parser{}; EchoEnv echo{}; rs::TypeAuditor ta{ echo }; ta.SetExepectTypification();
    if (in.text.find('\0') != std::string::npos || !parser.Parse(lex(in.text).Stream()) || !ta.CheckType(parser.AST())) return "-";
    if (!std::holds_alternative<rs::Typification>(ta.GetType()) || !std::get<rs::Typification>(ta.GetType()).IsCollection()) return "-";
    return rs::operator""_t(in.text.c_str(), in.text.size()).ToString();
  }
  }
}

std::vector<Obs> g_virgin;  // [input] -> result of each generator call made as the first call of a virgin process

struct VirginGenComp final : Component {
  const char* name() const override { return "generators"; }
  std::unique_ptr<Component> fresh_like() const override { return std::make_unique<VirginGenComp>(); }
  void step(int idx, const Input&, Obs& out) override { out = g_virgin.at(static_cast<size_t>(idx)); }
};
struct GenComp final : Component {
  bool context_free() const override { return false; }  // reference = virgin-process table
  const char* name() const override { return "generators"; }
  std::unique_ptr<Component> fresh_like() const override { return std::make_unique<VirginGenComp>(); }
  void step(int, const Input& in, Obs& out) override { for (int c = 0; c < kGenCalls; ++c) out.emplace_back(kGenCallName[c], gen_call(c, in)); }
};

void build_virgin_table(const std::vector<Input>& alpha, int maxParallel) {
  struct Job { int in, call; pid_t pid; int fd; };
  g_virgin.assign(alpha.size(), Obs{});
  for (auto& o : g_virgin) for (int c = 0; c < kGenCalls; ++c) o.emplace_back(kGenCallName[c], "");
  std::vector<Job> running;
  auto reap = [&](Job& j) {
    std::string s; char buf[65536]; ssize_t n;
    while ((n = read(j.fd, buf, sizeof buf)) > 0) s.append(buf, static_cast<size_t>(n));
    close(j.fd);
    int st = 0; waitpid(j.pid, &st, 0);
    if (!WIFEXITED(st) || WEXITSTATUS(st) != 0 || s.empty() || s[0] != '=') {
      fprintf(stderr, "HARNESS-ERROR: generator call %s on input %s failed in a virgin process (status %d)\n", kGenCallName[j.call], alpha[static_cast<size_t>(j.in)].name, st);
      exit(2);
    }
    g_virgin[static_cast<size_t>(j.in)][static_cast<size_t>(j.call)].second = s.substr(1);
  };
  for (int i = 0; i < static_cast<int>(alpha.size()); ++i) for (int c = 0; c < kGenCalls; ++c) {
    if (static_cast<int>(running.size()) >= maxParallel) { reap(running.front()); running.erase(running.begin()); }
    int fds[2]; if (pipe(fds) != 0) { perror("pipe"); exit(2); }
    fflush(nullptr);
    const pid_t p = fork();
    if (p < 0) { perror("fork"); exit(2); }
    if (p == 0) {
      close(fds[0]);
      const std::string s = "=" + gen_call(c, alpha[static_cast<size_t>(i)]);
      size_t off = 0; while (off < s.size()) { const ssize_t w = write(fds[1], s.data() + off, s.size() - off); if (w <= 0) _exit(3); off += static_cast<size_t>(w); }
      close(fds[1]); _exit(0);
    }
    close(fds[1]);
    running.push_back(Job{ i, c, p, fds[0] });
  }
  for (auto& j : running) reap(j);
}

// --- schema mode
struct SchemaComp final : Component {
  // content: X1 X2 S1 D1 F1 P1 (as Γ) + scratch D2 F2 P2 A1 + D3 := D2\D2 (dependant re-parsed after D2 by the same auditor)
  std::map<char, std::string> defs;  // current definitions of the scratch constituents
  ccl::semantic::RSForm form{};
  std::map<char, ccl::EntityUID> uid;
  ccl::EntityUID dependant{};

  explicit SchemaComp(std::map<char, std::string> d) : defs{ std::move(d) } {
    using ccl::semantic::CstType;
    uidpolicy::install(0);
    form.Emplace(CstType::base); form.Emplace(CstType::base);
    form.Emplace(CstType::structured, "ℬ(X1×X1)");
    form.Emplace(CstType::term, "X1\\X1");
    form.Emplace(CstType::function, "[α∈ℬ(R1)] D{ξ∈α | ξ∈α}");
    form.Emplace(CstType::predicate, "[α∈ℬ(R1)] α=α");
    uid['D'] = form.Emplace(CstType::term, defs.at('D'));
    uid['F'] = form.Emplace(CstType::function, defs.at('F'));
    uid['P'] = form.Emplace(CstType::predicate, defs.at('P'));
    uid['A'] = form.Emplace(CstType::axiom, defs.at('A'));
    dependant = form.Emplace(CstType::term, "D2\\D2");
    if (form.GetRS(uid['D']).alias != "D2" || form.GetRS(dependant).alias != "D3" || form.GetRS(uid['A']).alias != "A1") { fprintf(stderr, "HARNESS-ASSERT: unexpected aliases in the schema bundle\n"); exit(2); }
  }
  static std::map<char, std::string> initial() { return { { 'D', "X1" }, { 'F', "[μ∈X1] μ" }, { 'P', "[μ∈X1] μ=μ" }, { 'A', "1=1" } }; }
  const char* name() const override { return "schema"; }
  bool context_free() const override { return false; }  // reference = a fresh RSForm with the CURRENT content
  std::unique_ptr<Component> fresh_like() const override { return std::make_unique<SchemaComp>(defs); }

  static void info(const char* pfx, const ccl::semantic::ParsingInfo& pi, Obs& out) {
    const std::string p = pfx;
    out.emplace_back(p + "status", pi.status == ccl::semantic::ParsingStatus::VERIFIED ? "VERIFIED" : pi.status == ccl::semantic::ParsingStatus::INCORRECT ? "INCORRECT" : "UNKNOWN");
    out.emplace_back(p + "type", pi.exprType.has_value() ? typeStr(*pi.exprType) : "-");
    out.emplace_back(p + "args", pi.arguments.has_value() ? argsStr(*pi.arguments) : "-");
    out.emplace_back(p + "value-class", vcStr(pi.valueClass));
    out.emplace_back(p + "tree", pi.ast != nullptr ? dumpTree(*pi.ast) : "-");
  }
  void step(int, const Input& in, Obs& out) override {
    const auto target = uid.at(in.cst);
    const bool changed = form.SetExpressionFor(target, in.text);
    if (form.GetRS(target).definition == in.text) defs[in.cst] = in.text;
    out.emplace_back("set-result", changed ? "changed" : "unchanged");
    info("target-", form.GetParse(target), out);
    info("dependant-", form.GetParse(dependant), out);
    // the auditor's log (of the last constituent parsed by the call: the target, or D3 after D2) is defined only when the call parsed something
    out.emplace_back("set-errors", changed ? dumpErrors(form.RSLang().auditor->Errors()) : "-");
    const auto type = form.RSLang().Evaluate(in.text);
    const auto& aud = *form.RSLang().auditor;
    out.emplace_back("evaluate-verdict", type.has_value() ? "typed" : aud.IsParsed() ? "parsed" : "unparsed");
    out.emplace_back("evaluate-type", type.has_value() ? typeStr(*type) : "-");
    out.emplace_back("evaluate-errors", dumpErrors(aud.Errors()));
    out.emplace_back("evaluate-args", type.has_value() ? argsStr(aud.GetDeclarationArgs()) : "-");
    out.emplace_back("evaluate-tree", aud.IsParsed() ? dumpTree(aud.AST()) : "-");
  }
};

std::vector<std::unique_ptr<Component>> make_bundle(const std::string& mode) {
  std::vector<std::unique_ptr<Component>> b;
  if (mode == "parser") { b.push_back(std::make_unique<ParseComp>()); b.push_back(std::make_unique<LexComp>()); }
  else if (mode == "auditor") { b.push_back(std::make_unique<AuditorComp>()); b.push_back(std::make_unique<TypeAudComp>(false)); b.push_back(std::make_unique<TypeAudComp>(true)); }
  else if (mode == "interp") b.push_back(std::make_unique<InterpComp>());
  else if (mode == "generators") b.push_back(std::make_unique<GenComp>());
  else if (mode == "schema") b.push_back(std::make_unique<SchemaComp>(SchemaComp::initial()));
  return b;
}

std::string clip(const std::string& s) { return s.size() <= 700 ? s : s.substr(0, 340) + " …(" + std::to_string(s.size()) + " bytes)… " + s.substr(s.size() - 340); }

// ---------------------------------------------------------------------------------------------
// reference observations of the context-free components: a brand-new object per input, computed BEFORE any history is
// replayed in this process (so nothing an earlier history did to process-global state can leak into the reference),
// twice, and required to be identical
using FreshTable = std::vector<std::vector<Obs>>;  // [component][input]; empty row = component computes its reference per call
FreshTable build_fresh_table(const std::string& mode, const std::vector<Input>& alpha) {
  const auto proto = make_bundle(mode);
  FreshTable t(proto.size());
  for (size_t ci = 0; ci < proto.size(); ++ci) {
    if (!proto[ci]->context_free()) continue;
    for (size_t i = 0; i < alpha.size(); ++i) {
      Obs a, b;
      proto[ci]->fresh_like()->step(static_cast<int>(i), alpha[i], a);
      proto[ci]->fresh_like()->step(static_cast<int>(i), alpha[i], b);
      if (a != b) { fprintf(stderr, "HARNESS-NONDETERMINISM: two fresh %s objects disagree on input %s\n", proto[ci]->name(), alpha[i].name); fflush(stderr); _exit(4); }
      t[ci].push_back(std::move(a));
    }
  }
  return t;
}

// ---------------------------------------------------------------------------------------------
// one history
void run_history(Ctx& c, const std::string& mode, const std::vector<Input>& alpha, const FreshTable& table, const std::vector<int>& h) {
  auto bundle = make_bundle(mode);
  const Input& last = alpha[static_cast<size_t>(h.back())];
  std::string lastVerdict;
  for (size_t k = 0; k < h.size(); ++k) {
    const Input& in = alpha[static_cast<size_t>(h[k])];
    for (size_t ci = 0; ci < bundle.size(); ++ci) {
      auto& comp = bundle[ci];
      Obs r, f;
      if (!table[ci].empty()) { comp->step(h[k], in, r); f = table[ci][static_cast<size_t>(h[k])]; }
      else { auto fresh = comp->fresh_like(); comp->step(h[k], in, r); fresh->step(h[k], in, f); }
      c.rep.count(std::string("compared:") + comp->name());
      if (r.size() != f.size()) { c.fail("C18:" + mode + ":" + comp->name() + ":shape", "call #" + std::to_string(k + 1) + " (" + in.name + "): different set of observables", std::to_string(r.size()), std::to_string(f.size())); continue; }
      for (size_t i = 0; i < r.size(); ++i) {
        c.rep.count("checks");
        if (r[i].first != f[i].first || r[i].second != f[i].second)
          c.fail("C18:" + mode + ":" + comp->name() + ":" + f[i].first,
                 "after call #" + std::to_string(k + 1) + " of the history (input '" + in.name + "' = " + clip(in.text) + ") the reused object's '" + r[i].first + "' differs from a fresh object's",
                 clip(r[i].second), clip(f[i].second));
      }
      if (k + 1 == h.size() && ci == 0) lastVerdict = f.empty() ? "" : f[0].second;
    }
    c.rep.count("calls");
  }
  bool nontrivial = false;
  for (size_t k = 0; k + 1 < h.size(); ++k) if (std::string(alpha[static_cast<size_t>(h[k])].kind) != last.kind) nontrivial = true;
  c.rep.count("evaluations");
  if (nontrivial) c.rep.count("nontrivial");
  c.rep.outcome(std::string(last.kind) + "/" + lastVerdict);
}

// The static generators live as long as the process: to make "the history" of a generators case exactly the calls of that
// case, the history runs in a forked child of the worker (virgin statics are inherited: the worker itself never calls a
// generator). The child's report is merged into the worker's; a child that dies takes the worker with it (E3 attributes it).
void run_history_forked(Ctx& c, const std::string& mode, const std::vector<Input>& alpha, const FreshTable& table, const std::vector<int>& h) {
  int fds[2]; if (pipe(fds) != 0) { perror("pipe"); _exit(5); }
  fflush(nullptr);
  const pid_t p = fork();
  if (p < 0) { perror("fork"); _exit(5); }
  if (p == 0) {
    close(fds[0]); alarm(static_cast<unsigned>(c.case_timeout_s + 5));
    Ctx cc; cc.label = c.label; cc.idx = c.idx; cc.cur_desc = c.cur_desc;
    run_history(cc, mode, alpha, table, h);
    FILE* f = fdopen(fds[1], "w"); if (!f) _exit(6);
    cc.rep.write(f); fclose(f);
    _exit(0);
  }
  close(fds[1]);
  Report r; FILE* f = fdopen(fds[0], "r"); const bool complete = f && r.read(f); if (f) fclose(f);
  int st = 0; waitpid(p, &st, 0);
  if (WIFSIGNALED(st)) { signal(WTERMSIG(st), SIG_DFL); raise(WTERMSIG(st)); _exit(7); }  // die the same way, inside the case
  if (!WIFEXITED(st) || WEXITSTATUS(st) != 0 || !complete) { fprintf(stderr, "HARNESS-ASSERT: generators child failed (status %d)\n", st); fflush(stderr); abort(); }
  c.rep.merge(r);
}

void enumerate(Ctx& c, const std::string& mode, const std::vector<Input>& alpha, int maxLen) {
  const int N = static_cast<int>(alpha.size());
  const FreshTable table = build_fresh_table(mode, alpha);
  std::vector<int> h;
  for (int len = 1; len <= maxLen && !c.stop(); ++len) {
    h.assign(static_cast<size_t>(len), 0);
    while (true) {
      if (c.take()) {
        std::string desc = mode + " len" + std::to_string(len) + ":";
        for (int i : h) desc += std::string(" ") + alpha[static_cast<size_t>(i)].name + ";";
        c.begin(desc);
        if (mode == "generators") run_history_forked(c, mode, alpha, table, h); else run_history(c, mode, alpha, table, h);
        if (c.idx % 7919 == 1 || (len == maxLen && c.idx % 30011 == 5)) c.rep.sample(desc);
        c.done();
      }
      int p = len - 1;
      while (p >= 0 && ++h[static_cast<size_t>(p)] == N) { h[static_cast<size_t>(p)] = 0; --p; }
      if (p < 0) break;
    }
  }
}

void probe(const std::vector<Input>& alpha) {
  for (const char* mode : { "parser", "auditor", "interp", "generators", "schema" }) {
    for (size_t i = 0; i < alpha.size(); ++i) {
      const double t0 = now_s();
      auto bundle = make_bundle(mode);
      printf("== %s | %s | %s\n", mode, alpha[i].name, clip(alpha[i].text).c_str());
      for (auto& comp : bundle) { Obs o; comp->step(static_cast<int>(i), alpha[i], o); for (auto& [k, v] : o) printf("   %s.%s = %s\n", comp->name(), k.c_str(), clip(v).c_str()); }
      printf("   (%.2f ms)\n", 1e3 * (now_s() - t0));
    }
  }
}

}  // namespace

int main(int argc, char** argv) {
  Options opt = parse_args(argc, argv);
  const double t0 = now_s();
  auto alpha = make_alphabet();
  if (const long cut = opt.num("alphabet", 0); cut > 0 && static_cast<size_t>(cut) < alpha.size()) alpha.resize(static_cast<size_t>(cut));
  (void)env();
  if (opt.mode == "probe") { probe(alpha); return 0; }
  if (make_bundle(opt.mode).empty()) { fprintf(stderr, "unknown mode\n"); return 2; }
  const int L = static_cast<int>(opt.num("maxlen", opt.thorough() ? 3 : 2));
  if (opt.mode == "generators") build_virgin_table(alpha, opt.workers);

  Result res; res.property = "C18"; res.harness = "h_reuse"; res.mode = opt.mode; res.tier = opt.tier;
  RunInfo ri;
  res.rep = run_sharded(opt, opt.mode, [&](Ctx& c) { enumerate(c, opt.mode, alpha, L); }, &ri);
  res.evaluations = res.rep.counters["evaluations"];
  res.distinct_nontrivial = res.rep.counters["nontrivial"];
  res.states = res.evaluations; res.transitions = res.rep.counters["calls"]; res.traces_validated = res.evaluations;
  res.exhaustive = !ri.deadline_hit && !ri.crash_cap_hit;
  res.completed_bound = "all input histories of length 1.." + std::to_string(L) + " over an alphabet of " + std::to_string(alpha.size()) + " inputs (" +
                        std::to_string(alpha.size()) + "^" + std::to_string(L) + " histories of maximal length)";
  { std::string a; for (auto& in : alpha) a += std::string(in.name) + " "; res.alphabet = a; }
  res.rule = "case = one history replayed on ONE long-lived bundle; after EVERY call each observable of every component is compared with a fresh object "
             "given only that input (reference of Parser/Auditor/Interpreter components: a brand-new object per input, computed in each worker process before any history is replayed, twice, asserted identical; "
             "generators: every history runs in its own forked process with virgin statics, reference = the same call made first in a virgin process; schema: an RSForm freshly built with the reused form's current content, at every call); "
             "histories are distinct by construction; non-trivial = some earlier input of the history differs in kind from the last one; "
             "counters compared:<component> give the number of reused-vs-fresh comparisons per component, checks = compared observables";
  res.assumptions = { "context fixed: X1={1,2,3}, X2={1..50}, S1⊆X1×X1 (3 pairs), D1 typed without data, F1[α∈ℬ(R1)], P1[α∈ℬ(R1)] with stored trees",
                      "inputs that fault regardless of history (empty index lists, axiom names in term position, extreme nesting) are excluded - they belong to C04",
                      "on a failed call only verdict and error list are compared, as the property states; clang 14 + libstdc++ 12" };
  res.wall_s = now_s() - t0;
  res.write(opt.out.empty() ? "/dev/stdout" : opt.out);
  return 0;
}
